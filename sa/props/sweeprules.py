"""Rules on the sweep machine shared by C01, C02, C08, C09, C10, C13."""
import ast

from ..loader import norm, AnalysisError
from ..affine import Affine
from .. import sweep as sw
from ..sweep import L, ONE, ZERO
from .common import where

# routine -> (general lower bound on the number of sites for which every sweep loop is non-empty,
#             smaller lattice sizes of the documented domain that are analysed separately with L fixed)
ROUTINES = {
    'evolution.integrate_local_singlesite': (2, [1]),
    'evolution.integrate_local_twosite': (3, [2]),
    'minimization.calculate_ground_state_local_singlesite': (2, []),
    'minimization.calculate_ground_state_local_twosite': (3, [2]),
}

_cache = {}


def analyse(repo, q):
    """runs the interval machine for the general case and the small lattices; returns list of
    (case label, machine, report)"""
    key = (repo.digest, q)
    if key in _cache:
        return _cache[key]
    gen, small = ROUTINES[q]
    small = list(small)
    dom_min = min(small + [gen])
    from ..canon import canonical, SWEEP_VALUE_ROLES
    fi = canonical(repo.func(q), SWEEP_VALUE_ROLES)
    for attempt in range(4):
        out = []
        try:
            for fixed in [None] + small:
                rep = sw.Report()
                kw = dict(min_sites=gen) if fixed is None else dict(fixed_sites=fixed)
                m = sw.SweepMachine(repo, fi, rep, **kw)
                st = sw.State(Affine.const(-1), m.Lv, ZERO, m.Lv - ONE)
                label = f'L >= {gen}' if fixed is None else f'L = {fixed}'
                try:
                    m.final = m.run(fi.node.body, st)
                except sw.EmptinessUndecided:
                    raise
                except AnalysisError as ex:
                    # the walk could not be completed; if obligations already failed they are the finding
                    if not any(not ok for _, _, ok, _ in rep.items):
                        raise
                    rep.add('slot', fi.node, False, f'the sweep could not be followed to its end after the failed '
                                                    f'obligations above ({ex})')
                    m.final = None
                    m.partial = True
                out.append((label, m, rep))
            break
        except sw.EmptinessUndecided:
            # a sweep loop may be empty for the smallest lattice of the general case: analyse that lattice
            # with L fixed and raise the lower bound of the general case
            small.append(gen)
            gen += 1
    else:
        raise AnalysisError(f'{q}: emptiness of a sweep loop is undecidable even for L >= {gen}')
    _cache[key] = out
    return out


def emit(chk, repo, q, rid_map, cases=None):
    """turn machine reports into obligations; rid_map: report kind -> rule id (kinds not mapped are skipped)"""
    fi = repo.func(q)
    n = 0
    for label, m, rep in (cases or analyse(repo, q)):
        seen = {}
        for kind, node, ok, text in rep.items:
            rid = rid_map.get(kind)
            if rid is None:
                continue
            base = f'{rid}|{q}|{label}|{kind}|{norm(node)[:80]}|{text[:200]}'
            seen[base] = seen.get(base, 0) + 1
            chk.ob(rid, where(repo, fi, node), f'{fi.name} [{label}]: {text[:150]}', ok, text,
                   key=base + (f'|#{seen[base]}' if seen[base] > 1 else ''))
            n += 1
    return n


EXPECTED_BUDGET = {
    # integrator -> kind -> (lo, hi, total): the projector-splitting integrator
    'evolution.integrate_local_singlesite': {'H1': (ZERO, L - ONE, 1), 'K': (ONE, L - ONE, -1)},
    'evolution.integrate_local_twosite': {'H2': (ZERO, L - Affine.const(2), 1), 'H1': (ONE, L - Affine.const(2), -1)},
}


def schedule_rules(chk, repo, q, rid_budget=None, rid_pal=None):
    fi = repo.func(q)
    n = 0
    for label, m, rep in analyse(repo, q):
        if getattr(m, 'partial', False):
            continue        # the walk was abandoned after failed obligations (reported by the wiring rule)
        blocks = sw.step_blocks(m.schedule)
        if blocks is None:
            raise AnalysisError(f'{q}: loop over time steps not found')
        segs = sw.segments(blocks)
        if not segs:
            raise AnalysisError(f'{q}: no local evolution step found in the time-step loop')
        if rid_pal:
            ok, detail = sw.check_palindrome(segs)
            chk.ob(rid_pal, where(repo, fi, fi.node), f'{fi.name} [{label}]: the sub-step sequence of one time step is a '
                   f'palindrome with mirrored step fractions (symmetric integrator)', ok, detail,
                   key=f'{rid_pal}|{q}|{label}|palindrome')
            n += 1
        if rid_budget:
            for kind, (lo, hi, total) in EXPECTED_BUDGET[q].items():
                lo_, hi_ = lo.subst('L', m.Lv), hi.subst('L', m.Lv)
                empty = lo_.is_const() and hi_.is_const() and hi_.c < lo_.c
                if empty:
                    cov = sw.coverage(segs, kind)
                    ok, detail = (not cov), f'{len(cov or [])} {kind} steps on a lattice without such positions'
                else:
                    ok, detail = sw.check_budget(segs, kind, lo_, hi_, total, m.base_facts)
                what = {'H1': 'single-site', 'H2': 'two-site', 'K': 'bond'}[kind]
                chk.ob(rid_budget, where(repo, fi, fi.node),
                       f'{fi.name} [{label}]: {what} steps cover positions [{lo_}, {hi_}] with step fractions summing to '
                       f'{total:+d} x dt everywhere', ok, detail, key=f'{rid_budget}|{q}|{label}|budget|{kind}')
                n += 1
    return n


def sign_rule(chk, repo, rid):
    """the local steps hand -dt to expm_krylov, which exponentiates +dt*A: the step is exp(-coef*dt*H)"""
    from ..affine import try_affine
    from ..match import find
    n = 0
    for q in ('evolution._local_hamiltonian_step', 'evolution._local_bond_step'):
        fi = repo.func(q)
        calls = [c for c in ast.walk(fi.node) if isinstance(c, ast.Call) and norm(c.func) == 'expm_krylov']
        if len(calls) != 1:
            raise AnalysisError(f'{q}: expected one expm_krylov call')
        # local temporaries are looked through (definitions unique in the function)
        from ..defuse import local_defs, expand
        import copy as _copy
        defs = local_defs(fi.node)
        c = _copy.deepcopy(calls[0])
        c.args = [expand(a_, defs) for a_ in c.args]
        ast.copy_location(c, calls[0])
        a = try_affine(c.args[2]) if len(c.args) >= 3 else None
        ok = a is not None and a == -Affine.sym('dt')
        chk.ob(rid, where(repo, fi, c), f'{fi.name}: time argument handed to expm_krylov is -dt', ok,
               norm(c.args[2]) if len(c.args) >= 3 else '', key=f'{rid}|{q}|minus-dt')
        herm = [k for k in c.keywords if k.arg == 'hermitian']
        # the start vector is the flattened tensor argument and the result is reshaped back
        tens = fi.params[3] if q.endswith('hamiltonian_step') else fi.params[2]
        ok2 = norm(c.args[1]) == f'{tens}.reshape(-1)'
        chk.ob(rid, where(repo, fi, c), f'{fi.name}: the evolved vector is the flattened tensor `{tens}`', ok2,
               norm(c.args[1]), key=f'{rid}|{q}|start')
        n += 2
        # must-pass-through: every exit of the local step returns the exponentiated tensor; the only exit that may hand the
        # input back is one guarded by a vanishing time step
        parents = {}
        for p_ in ast.walk(fi.node):
            for ch in ast.iter_child_nodes(p_):
                parents[ch] = p_
        for r_ in [x for x in ast.walk(fi.node) if isinstance(x, ast.Return)]:
            val = expand(r_.value, defs) if r_.value is not None else None
            through = val is not None and any(isinstance(x, ast.Call) and norm(x.func) == 'expm_krylov' for x in ast.walk(val))
            if not through:
                g = parents.get(r_)
                through = isinstance(g, ast.If) and r_ in g.body and norm(g.test) in ('dt == 0', 'dt == 0.0', 'not dt', '0 == dt') \
                    and r_.value is not None and norm(r_.value) == tens
            chk.ob(rid, where(repo, fi, r_), f'{fi.name}: every exit returns the result of expm_krylov applied to `{tens}` '
                   f'(no path hands the tensor back un-evolved, except for dt == 0)', through,
                   norm(r_)[:80], key=f'{rid}|{q}|exit|{norm(r_)[:40]}')
            n += 1
    ek = repo.func('krylov.expm_krylov')
    uses = []
    for node in ast.walk(ek.node):
        if isinstance(node, ast.BinOp) and isinstance(node.op, ast.Mult):
            names = [norm(node.left), norm(node.right)]
            if 'dt' in names:
                uses.append(node)
    exps = [c for c in ast.walk(ek.node) if isinstance(c, ast.Call) and norm(c.func) in ('np.exp', 'expm')]
    ok = len(exps) == 2 and all(any(u is x for x in ast.walk(c)) for c, u in zip(exps, uses)) and len(uses) == 2
    neg = [n_ for n_ in ast.walk(ek.node) if isinstance(n_, ast.UnaryOp) and isinstance(n_.op, ast.USub)
           and 'dt' in norm(n_)]
    chk.ob(rid, where(repo, ek, ek.node), 'expm_krylov exponentiates +dt times the projected matrix in both branches',
           ok and not neg, f'{[norm(c)[:40] for c in exps]}', key=f'{rid}|expm-sign')
    return n + 1


def bond_coverage(chk, repo, rid, fi, branch_stmts, mode, obj='self', cases=None):
    """orthonormalize / compress: the loop plus the boundary call re-factorise every bond exactly once, in order"""
    gen, small = 2, [1]
    for attempt in range(4):
        try:
            return _bond_coverage(chk, repo, rid, fi, branch_stmts, mode, obj, gen, small)
        except sw.EmptinessUndecided:
            small = small + [gen]
            gen += 1
    raise AnalysisError(f'{fi.qual} ({mode}): emptiness of the sweep loop is undecidable even for L >= {gen}')


def _bond_coverage(chk, repo, rid, fi, branch_stmts, mode, obj, gen, small):
    out = []
    pending = []
    for fixed in [None] + list(small):
        rep = sw.Report()
        kw = dict(min_sites=gen) if fixed is None else dict(fixed_sites=fixed)
        m = sw.SweepMachine(repo, fi, rep, psi=obj, **kw)
        st = sw.State(Affine.const(-1), m.Lv, ZERO, m.Lv - ONE)
        # prefix of the branch: everything up to and including the boundary call with the dummy tensor
        prefix = []
        for s in branch_stmts:
            prefix.append(s)
            if any(isinstance(c, ast.Call) and norm(c.func).startswith('local_orthonormalize') and
                   len(c.args) > 1 and norm(c.args[1]).startswith('np.array([[[') for c in ast.walk(s)) and \
                    not isinstance(s, ast.For):
                break
        else:
            raise AnalysisError(f'{fi.qual} ({mode}): boundary call with the dummy neighbour not found')
        keep = [s for s in prefix if not isinstance(s, ast.Assert) and not
                (isinstance(s, ast.Assign) and isinstance(s.value, ast.Call) and
                 norm(s.value.func).endswith('.orthonormalize'))]
        pre = [s for s in prefix if isinstance(s, ast.Assign) and isinstance(s.value, ast.Call) and
               norm(s.value.func).endswith('.orthonormalize')]
        body = []
        for s in keep:
            if isinstance(s, ast.For):
                s2 = ast.For(target=s.target, iter=s.iter,
                             body=[x for x in s.body if not isinstance(x, ast.Assert)], orelse=[])
                ast.copy_location(s2, s)
                body.append(s2)
            else:
                body.append(s)
        m.final = m.run(body, st)
        label = f'L >= {gen}' if fixed is None else f'L = {fixed}'
        out.append((label, m, rep, pre))
        # coverage
        evs = []
        for b in m.schedule:
            if b[0] == 'event' and b[1].kind == 'refactor':
                evs.append(('single', b[1]))
            elif b[0] == 'loop':
                es = [x[1] for x in b[5] if x[0] == 'event' and x[1].kind == 'refactor']
                if es:
                    evs.append(('loop', b[1], b[2], b[3], b[4], es))
        Lv = m.Lv
        if mode == 'left':
            lo, hi = ONE, Lv
        else:
            lo, hi = ZERO, Lv - ONE
        # emulate check_budget with 'refactor' counted once
        cov = []
        order_ok = True
        for sg in evs:
            if sg[0] == 'single':
                cov.append((sg[1].lo, sg[1].lo))
                order_ok = order_ok and (sg[1].left == (mode == 'left'))
            else:
                _, var, i0, i1, desc, es = sg
                for e in es:
                    c = e.lo.coeff(var)
                    cov.append((e.lo.subst(var, i0), e.lo.subst(var, i1)) if c == 1 else
                               (e.lo.subst(var, i1), e.lo.subst(var, i0)))
                    order_ok = order_ok and (e.left == (mode == 'left')) and (desc == (mode == 'right'))
        cov_sorted = sorted(cov, key=lambda p: (p[0] - lo).c if (p[0] - lo).is_const() else 10**6)
        ok = bool(cov_sorted) and cov_sorted[0][0] == lo and cov_sorted[-1][1] == hi and \
            all(h[0] == g[1] + ONE for g, h in zip(cov_sorted, cov_sorted[1:]))
        # boundary call must come last (after the loop)
        last_is_boundary = bool(evs) and evs[-1][0] == 'single' and evs[-1][1].dummy
        pending.append((where(repo, fi, branch_stmts[0]), f'{fi.name}(mode={mode!r}) [{label}]: the sweep re-factorises every bond '
                        f'of [{lo}, {hi}] exactly once, in {"ascending" if mode == "left" else "descending"} order, the boundary '
                        f'bond last', ok and order_ok and last_is_boundary,
                        f'bonds covered: {[(str(a), str(b)) for a, b in cov_sorted]}', f'{rid}|{fi.qual}|{mode}|{label}|coverage'))
    for w_, inst, ok_, det, key_ in pending:
        chk.ob(rid, w_, inst, ok_, det, key=key_)
    return out
