"""Per-property claim texts for MANIFEST.json (only properties whose rules exist and pass)."""

TRUST = ('trusted: CPython ast of /repo/pytenet/*.py, the NumPy/SciPy API classification tables in /verif/sa, '
         'the frozen slot/leg/field tables transcribed from the docstrings (cross-checked against the code on every run)')

CLAIMS = {
    'C05': {
        'technique': 'static analysis: path-sensitive id typestate + coefficient taint/def-use + list-length algebra over the AST',
        'text': 'Decides the structural clauses of C05 for all inputs: ids are handed out once on every path of '
                'from_opchains; no chain coefficient is dropped between the chain list and an edge (would have '
                'reported F1); MPO.from_opgraph uses one layer ordering for labels, node map, columns and rows; '
                'OpChain.padded length algebra.  Does not decide operator equality of the compiled graph.',
        'design_ref': 'DESIGN.md 4.2, 5 (C05)',
        'note': TRUST + '; undecided: correctness of repartition + vertex cover as an algorithm',
    },
}
