"""C08 - real-time TDVP conservation (structural part)."""
import ast

from ..loader import norm, AnalysisError
from ..effects import Engine
from . import sweeprules as sr
from .common import where

INTEGRATORS = ['evolution.integrate_local_singlesite', 'evolution.integrate_local_twosite']
GROWERS_REPO = {'mps.split_mps_tensor', 'bond_ops.split_matrix_svd', 'mps.add_mps', 'mpo.add_mpo', 'mpo.multiply_mpo',
                'operation.apply_operator', 'mps.merge_mps_tensor_pair'}
GROWERS_EXT = {'np.block', 'np.concatenate', 'np.pad', 'np.hstack', 'np.vstack', 'np.stack', 'np.append', 'np.kron'}


def return_rule(chk, repo, rid, q, psi='psi'):
    fi = repo.func(q)
    rets = [r for r in ast.walk(fi.node) if isinstance(r, ast.Return)]
    if len(rets) != 1 or not isinstance(rets[0].value, ast.Name):
        chk.ob(rid, where(repo, fi, fi.node), f'{fi.name}: returns a single name', False,
               f'{[norm(r) for r in rets]}', key=f'{rid}|{q}|ret-form')
        return 1
    name = rets[0].value.id
    defs = [s for s in ast.walk(fi.node) if isinstance(s, (ast.Assign, ast.AugAssign)) and
            any(isinstance(t, ast.Name) and t.id == name for t in
                (s.targets if isinstance(s, ast.Assign) else [s.target]))]
    ok = len(defs) == 1 and isinstance(defs[0], ast.Assign) and isinstance(defs[0].value, ast.Call) and \
        norm(defs[0].value.func) == f'{psi}.orthonormalize' and \
        any(k.arg == 'mode' and isinstance(k.value, ast.Constant) and k.value.value == 'right'
            for k in defs[0].value.keywords)
    chk.ob(rid, where(repo, fi, rets[0]), f'{fi.name}: the returned value is the factor returned by the initial '
           f'right-orthonormalisation of {psi} (the norm of the input state), never reassigned', ok,
           f'definitions of `{name}`: {[norm(d)[:60] for d in defs]}', key=f'{rid}|{q}|ret-def')
    # the normalisation precedes every other use of psi.A / psi.qD
    first_use = None
    for s in fi.node.body:
        if s in defs:
            break
        for n in ast.walk(s):
            if isinstance(n, ast.Attribute) and isinstance(n.value, ast.Name) and n.value.id == psi and \
                    n.attr in ('A', 'qD'):
                first_use = n
    chk.ob(rid, where(repo, fi, defs[0] if defs else fi.node), f'{fi.name}: the input is normalised before any tensor of '
           f'{psi} is read', first_use is None and bool(defs) and defs[0] in fi.node.body,
           f'first use at line {first_use.lineno}' if first_use is not None else '', key=f'{rid}|{q}|ret-order')
    # ... and before it is changed in any other way: a call that may write psi ahead of the normalisation makes
    # the returned factor the norm of something else
    eng = Engine(repo)
    early = []
    for s in fi.node.body:
        if s in defs:
            break
        for c in ast.walk(s):
            if not isinstance(c, ast.Call):
                continue
            fn = norm(c.func)
            tgt, pname = None, None
            if fn.startswith(psi + '.') and fn.count('.') == 1:
                ci = repo.cls('MPS')
                tgt, pname = ci.methods.get(fn.split('.')[1]), 'self'
                if tgt is None:
                    early.append(f'`{norm(c)[:50]}` (unresolved method) at line {c.lineno}')
                    continue
            elif any(isinstance(z, ast.Name) and z.id == psi for z in c.args):
                r = repo.resolve_name(fi.module, fn) if fn.isidentifier() else None
                tgt = r[1] if r and r[0] == 'func' else None
                if tgt is None:
                    if fn not in ('len', 'print', 'isinstance', 'id', 'type'):
                        early.append(f'`{norm(c)[:50]}` (unresolved callee receives {psi}) at line {c.lineno}')
                    continue
                k = [i for i, z in enumerate(c.args) if isinstance(z, ast.Name) and z.id == psi][0]
                pname = tgt.params[k] if k < len(tgt.params) else None
            if tgt is None:
                continue
            res = eng.analyse(tgt)
            if any(l.is_param() and l.root[1] == pname and l.kind not in ('imm', 'callable', 'rng') for l in res['writes']):
                early.append(f'`{norm(c)[:50]}` at line {c.lineno} may write {psi}')
    chk.ob(rid, where(repo, fi, defs[0] if defs else fi.node), f'{fi.name}: nothing changes {psi} before the normalisation '
           f'whose factor is returned', not early, '; '.join(early), key=f'{rid}|{q}|ret-first')
    return 3


def run(chk, repo, tier):
    eng = Engine(repo)
    chk.rule('C08.R1', 'the Hamiltonian is never written: the may-write set of both integrators (callees included) is '
                       'contained in `psi`')
    chk.rule('C08.R2', 'both integrators return the factor of the initial right-orthonormalisation (norm of the input), '
                       'defined once, before any tensor of psi is read (the normalised input is what is evolved)')
    chk.rule('C08.R3', 'step budget of the projector-splitting integrator: per site (pair) the forward step fractions sum '
                       'to +1, per bond (interior site) the backward fractions to -1, for every L')
    chk.rule('C08.R4', 'wiring: every local step receives the environments of its own bonds, the MPO tensors of its own '
                       'sites and its own tensor back; environments are never used stale; local steps act on a '
                       'mixed-canonical state; loop invariants are derived, checked inductive and re-established by '
                       'every time step (affine in i and L; small lattices analysed with L fixed)')
    chk.rule('C08.R5', 'each local step is exp(-c*dt*H_eff): -dt reaches expm_krylov, which exponentiates +dt*A')
    chk.rule('C08.R6', 'single-site TDVP cannot enlarge a bond: nothing reachable from it splits, pads, stacks or '
                       'concatenates tensors (callees resolved by the effects engine)')
    n4 = 0
    for q in INTEGRATORS:
        fi = repo.func(q)
        res = eng.analyse(fi)
        bad = [(l.describe(), sorted(s)[0]) for l, s in res['writes'].items()
               if l.is_param() and l.root[1] != 'psi' and l.kind not in ('imm', 'callable', 'rng')]
        chk.ob('C08.R1', where(repo, fi, fi.node), f'{fi.name} may write only psi', not bad,
               '; '.join(f'{d} at {s}' for d, s in bad[:3]), key=f'C08.R1|{q}')
        if not any(l.is_param() and l.root[1] == 'psi' for l in res['writes']):
            raise AnalysisError(f'effects engine lost track of the writes to psi in {q}')
        if q.endswith('singlesite'):
            grow = sorted((set(eng.called) & GROWERS_REPO) | (set(eng.ext_called) & GROWERS_EXT))
            chk.ob('C08.R6', where(repo, fi, fi.node), f'{fi.name} reaches no bond-enlarging operation', not grow,
                   f'reaches {grow}', key=f'C08.R6|{q}')
        else:
            if 'mps.split_mps_tensor' not in eng.called:
                raise AnalysisError('positive example failed: two-site TDVP is expected to reach split_mps_tensor')
        return_rule(chk, repo, 'C08.R2', q)
        sr.schedule_rules(chk, repo, q, rid_budget='C08.R3')
        n4 += sr.emit(chk, repo, q, {'slot': 'C08.R4', 'stale': 'C08.R4', 'canonical': 'C08.R4',
                                     'loop-entry': 'C08.R4', 'loop-invariant': 'C08.R4', 'outer-fixpoint': 'C08.R4'})
    sr.sign_rule(chk, repo, 'C08.R5')
    from . import support
    support.kernel_rules(chk, repo, 'C08.R7', ['apply_local_hamiltonian', 'apply_local_bond_contraction',
                                               'contraction_operator_step_left', 'contraction_operator_step_right'])
    support.krylov_rules(chk, repo, 'C08.K')
    support.block_rules(chk, repo, 'C08.R9', ('qr', 'svd'))
    chk.floor('C08.R4', n4, 150, hard_min=60)
    for a in sorted(eng.assumed):
        chk.assume(a)
    chk.undecided += ['norm and energy conservation to rounding (Lanczos, eigh_tridiagonal, expm)']
    chk.trust('slot conventions BL[k] / BR[k] / A[k] / qD[k] of sa/sweep.py (from the docstrings, confirmed by the leg engine)')
    return ('Affine interval machine over the two TDVP integrators (validity of environment blocks, mixed-canonical form, '
            'slot typing of every call, derived and checked loop invariants for all L), symbolic step schedule (budget), '
            'effects analysis (only psi is written), sign of the exponent, call reachability (no bond growth).',
            'instances = call sites x slot/validity/canonical obligations per lattice case, schedule kinds, loop invariants')
