"""The checker's own test bed (thorough tier): mutants of /repo/pytenet that must be reported resp. stay silent.

Scratch copies are created under a fresh temporary directory (outside /repo and /verif) and removed at the end.
A failing self-test makes the run exit 2 (the verdict is not to be believed); it never becomes a VIOLATION.
"""
import importlib
import multiprocessing
import os
import shutil
import tempfile
import traceback

from .loader import Repo, AnalysisError, REPO_ROOT
from .report import Check
from . import mutate


def _read_sources(root):
    d = os.path.join(root, 'pytenet')
    out = {}
    for fn in sorted(os.listdir(d)):
        if fn.endswith('.py'):
            with open(os.path.join(d, fn), encoding='utf-8') as f:
                out[fn] = f.read()
    return out


def _run_variant(args):
    import warnings
    warnings.simplefilter('ignore')
    idx, file, source, props, base, more = args
    tmp = tempfile.mkdtemp(prefix='sa_selftest_', dir=base)
    try:
        shutil.copytree(os.path.join(REPO_ROOT, 'pytenet'), os.path.join(tmp, 'pytenet'))
        for fn_, text in [(file, source)] + sorted(more.items()):
            with open(os.path.join(tmp, 'pytenet', fn_), 'w', encoding='utf-8') as f:
                f.write(text)
        res = {}
        for pid in props:
            chk = None
            try:
                repo = Repo(tmp)
                chk = Check(pid, 'quick', repo)
                mod = importlib.import_module(f'sa.props.{pid}')
                mod.run(chk, repo, 'quick')
                from .main import generic_rules
                generic_rules(chk, repo, pid)
                res[pid] = ('violation', [(v['rule'], v['where'], v['instance'][:120]) for v in chk.violations[:3]]) \
                    if chk.violations else ('clean', [])
            except AnalysisError as e:
                if chk is not None and chk.violations:       # as in sa/main.py: established violations are reported
                    res[pid] = ('violation', [(v['rule'], v['where'], v['instance'][:120]) for v in chk.violations[:3]])
                else:
                    res[pid] = ('analysis-error', [str(e)[:200]])
            except Exception as e:
                res[pid] = ('internal-error', [f'{type(e).__name__}: {e}'[:200], traceback.format_exc()[-400:]])
        return idx, res
    finally:
        shutil.rmtree(tmp, ignore_errors=True)


def run(pid=None, jobs=None):
    """returns dict with counts and the list of unmet expectations"""
    sources = _read_sources(REPO_ROOT)
    variants = mutate.all_variants(sources, only_props={pid} if pid else None)
    base = tempfile.mkdtemp(prefix='sa_selftest_root_')
    try:
        jobs = jobs or min(16, os.cpu_count() or 4)
        work = [(i, v.file, v.source, v.props, base, v.more) for i, v in enumerate(variants)]
        if jobs > 1 and len(work) > 1:
            with multiprocessing.Pool(jobs) as pool:
                results = pool.map(_run_variant, work, chunksize=1)
        else:
            results = [_run_variant(w) for w in work]
    finally:
        shutil.rmtree(base, ignore_errors=True)
    unmet, detected, silent_ok, samples = [], 0, 0, []
    for idx, res in results:
        v = variants[idx]
        kinds = {k for k, _ in res.values()}
        if v.expect == 'violation':
            met = ('violation' in kinds) if v.mode == 'any' else all(k == 'violation' for k, _ in res.values())
            if met:
                detected += 1
                named = any(v.file[:-3] in w for _, items in res.values() for (_, w, _) in items if isinstance(items, list)
                            and items and len(items[0]) == 3)
                if len(samples) < 12:
                    first = [items[0] for k, items in res.values() if k == 'violation'][0]
                    samples.append({'variant': v.desc, 'reported': f'{first[0]} at {first[1]}: {first[2]}'})
            else:
                unmet.append({'variant': v.desc, 'file': v.file, 'expected': 'violation', 'got': {p: r[0] for p, r in res.items()},
                              'detail': {p: r[1][:1] for p, r in res.items()}})
        else:
            if kinds == {'clean'}:
                silent_ok += 1
            else:
                unmet.append({'variant': v.desc, 'file': v.file, 'expected': 'silent', 'got': {p: r[0] for p, r in res.items()},
                              'detail': {p: r[1][:1] for p, r in res.items()}})
    return {'variants': len(variants), 'breaking': sum(1 for v in variants if v.expect == 'violation'),
            'benign': sum(1 for v in variants if v.expect == 'silent'), 'detected': detected, 'silent_ok': silent_ok,
            'unmet': unmet, 'samples': samples}


if __name__ == '__main__':
    import json
    import sys
    r = run(sys.argv[1] if len(sys.argv) > 1 else None)
    print(json.dumps({k: v for k, v in r.items() if k != 'samples'}, indent=1)[:6000])
