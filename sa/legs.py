"""Tensor-leg typing (DESIGN.md 4.4).

A tensor value is an ordered list of axes; an axis is an ordered tuple of atomic legs (row-major
composite).  A value carries the contraction network it denotes: tensor occurrences (with a
conjugation flag), contracted leg pairs, diagonal weights (singular values) on legs and scalar
factors.  Transfer functions exist for exactly the operations the pytenet kernels use.
"""
import ast
import copy
from fractions import Fraction

from .loader import norm, AnalysisError
from .defuse import local_defs


class LegError(AnalysisError):
    pass


class LegUnknown(LegError):
    """a construct the leg domain has no meaning for: the analysis cannot decide (exit 2), it is not a finding"""


class Leg:
    __slots__ = ('occ', 'port', 'dim', 'charge', 'tag')

    def __init__(self, occ, port, dim, charge=None, tag=None):
        self.occ = occ
        self.port = port
        self.dim = dim          # dimension symbol (text)
        self.charge = charge    # (sign, text) or None
        self.tag = tag          # e.g. 'bond' for factorisation bonds

    def name(self):
        o = self.occ
        return f'{o.name}{"*" if o.conj else ""}.{self.port}'

    def __repr__(self):
        return self.name()


class Occ:
    __slots__ = ('name', 'conj', 'legs', 'kind', 'info')

    def __init__(self, name, kind='param', conj=False, info=None):
        self.name = name
        self.conj = conj
        self.legs = []
        self.kind = kind
        self.info = info


class Net:
    def __init__(self):
        self.occs = []
        self.pairs = []          # (Leg, Leg)
        self.weights = {}        # Leg -> {sigma id: Fraction exponent}
        self.scalars = []        # texts of scalar factors
        self.rules = []          # factorisation contracts (FactorRule)

    def merged(self, other):
        n = Net()
        n.occs = list(self.occs)
        for o in other.occs:
            if o in n.occs:
                raise LegError('the same tensor occurrence enters a contraction twice (value reused)')
            n.occs.append(o)
        n.pairs = list(self.pairs) + list(other.pairs)
        n.weights = {k: dict(v) for k, v in self.weights.items()}
        for k, v in other.weights.items():
            n.weights[k] = dict(v)
        n.scalars = list(self.scalars) + list(other.scalars)
        n.rules = list(self.rules) + [r for r in other.rules if r not in self.rules]
        return n


class FactorRule:
    """Q.R == M  (or U.sigma.V == M): contracting the two factor occurrences over their bond legs
    (with total sigma exponent 1) denotes the network of M with the mirror legs mapped back."""

    def __init__(self, kind, left_occ, right_occ, left_bond, right_bond, m_val, row_map, col_map, sigma_id=None):
        self.kind = kind                  # 'qr' | 'svd'
        self.left_occ = left_occ
        self.right_occ = right_occ
        self.left_bond = left_bond
        self.right_bond = right_bond
        self.m_val = m_val                # TVal of the factorised matrix
        self.row_map = row_map            # mirror leg (on left factor) -> leg of M
        self.col_map = col_map            # mirror leg (on right factor) -> leg of M
        self.sigma_id = sigma_id


class TVal:
    def __init__(self, net, axes):
        self.net = net
        self.axes = [list(a) for a in axes]

    @property
    def rank(self):
        return len(self.axes)

    def atoms(self):
        return [l for a in self.axes for l in a]

    def clone(self, flip_conj=False):
        """deep copy of the network (fresh occurrences and legs)"""
        omap, lmap = {}, {}
        n = Net()
        for o in self.net.occs:
            o2 = Occ(o.name, o.kind, (not o.conj) if flip_conj else o.conj, o.info)
            omap[o] = o2
            for l in o.legs:
                l2 = Leg(o2, l.port, l.dim, l.charge, l.tag)
                o2.legs.append(l2)
                lmap[l] = l2
            n.occs.append(o2)
        n.pairs = [(lmap[a], lmap[b]) for a, b in self.net.pairs]
        n.weights = {lmap[k]: dict(v) for k, v in self.net.weights.items()}
        n.scalars = list(self.net.scalars)
        for r in self.net.rules:
            if r.left_occ in omap and r.right_occ in omap:
                n.rules.append(FactorRule(r.kind, omap[r.left_occ], omap[r.right_occ], lmap[r.left_bond],
                                          lmap[r.right_bond], r.m_val,
                                          {lmap[k]: v for k, v in r.row_map.items()},
                                          {lmap[k]: v for k, v in r.col_map.items()}, r.sigma_id))
            elif r.left_occ in omap or r.right_occ in omap:
                n.rules.append(r)      # half of the pair lives elsewhere; keep the rule object
        return TVal(n, [[lmap[l] for l in a] for a in self.axes]), lmap


def param_tensor(name, rank, dims=None, charges=None, composite=None):
    """fresh occurrence of a parameter tensor; composite = {axis: [(dim, charge), ...]} for merged axes"""
    o = Occ(name, 'param')
    axes = []
    port = 0
    for k in range(rank):
        if composite and k in composite:
            ax = []
            for j, (d, c) in enumerate(composite[k]):
                l = Leg(o, f'{k}{chr(97 + j)}', d, c)
                o.legs.append(l)
                ax.append(l)
            axes.append(ax)
        else:
            d = dims[k] if dims else f'{name}.{k}'
            c = charges[k] if charges else None
            l = Leg(o, k, d, c)
            o.legs.append(l)
            axes.append([l])
    n = Net()
    n.occs.append(o)
    return TVal(n, axes)


# ----------------------------------------------------------------------
# operations
def transpose(v, perm):
    if sorted(perm) != list(range(v.rank)):
        raise LegError(f'transpose {perm} of a rank-{v.rank} tensor')
    return TVal(v.net, [v.axes[p] for p in perm])


def conj(v):
    out, _ = v.clone(flip_conj=True)
    return out


def _pair_axes(net, ax_a, ax_b, what):
    if len(ax_a) != len(ax_b):
        raise LegError(f'{what}: contracted axes have different composite structure ({ax_a} vs {ax_b})')
    for a, b in zip(ax_a, ax_b):
        net.pairs.append((a, b))


def tensordot(a, b, axes_a, axes_b, what='tensordot'):
    for x in axes_a:
        if not 0 <= x < a.rank:
            raise LegError(f'{what}: axis {x} out of range for a rank-{a.rank} tensor')
    for x in axes_b:
        if not 0 <= x < b.rank:
            raise LegError(f'{what}: axis {x} out of range for a rank-{b.rank} tensor')
    if len(axes_a) != len(axes_b) or len(set(axes_a)) != len(axes_a) or len(set(axes_b)) != len(axes_b):
        raise LegError(f'{what}: malformed axes {axes_a} / {axes_b}')
    if any(o in a.net.occs for o in b.net.occs):
        b, _ = b.clone()
    net = a.net.merged(b.net)
    for x, y in zip(axes_a, axes_b):
        _pair_axes(net, a.axes[x], b.axes[y], what)
    out = [a.axes[i] for i in range(a.rank) if i not in axes_a] + \
          [b.axes[i] for i in range(b.rank) if i not in axes_b]
    return TVal(net, out)


def einsum(operands, in_labels, out_labels):
    """interleaved einsum: every label either appears once (kept) or exactly twice in the inputs (summed)"""
    vals = []
    seen_occs = []
    for v in operands:
        if any(o in seen_occs for o in v.net.occs):
            v, _ = v.clone()
        seen_occs += v.net.occs
        vals.append(v)
    net = vals[0].net
    for v in vals[1:]:
        net = net.merged(v.net)
    where = {}
    for v, labs in zip(vals, in_labels):
        if len(labs) != v.rank:
            raise LegError(f'einsum: {len(labs)} labels for a rank-{v.rank} operand')
        for ax, lab in zip(v.axes, labs):
            where.setdefault(lab, []).append(ax)
    out = []
    for lab, axs in where.items():
        if len(axs) == 2 and lab not in out_labels:
            _pair_axes(net, axs[0], axs[1], 'einsum')
        elif len(axs) == 1 and lab in out_labels:
            pass
        else:
            raise LegError(f'einsum: label {lab} is neither kept once nor summed over exactly two operands')
    for lab in out_labels:
        if lab not in where:
            raise LegError(f'einsum: output label {lab} does not occur in the inputs')
        out.append(where[lab][0])
    if len(set(out_labels)) != len(out_labels):
        raise LegError('einsum: repeated output label')
    return TVal(net, out)


def reshape(v, groups):
    """groups: list of lists of dimension symbols (the product of each list is one new axis); the single
    entry None stands for -1.  Atoms are consumed in row-major order and must match the symbols exactly."""
    atoms = v.atoms()
    n_sym = sum(len(g) for g in groups if g is not None)
    out = []
    pos = 0
    for gi, g in enumerate(groups):
        if g is None:
            rest_after = sum(len(x) for x in groups[gi + 1:] if x is not None)
            take = len(atoms) - pos - rest_after
            if take < 0:
                raise LegError('reshape: -1 group cannot be resolved')
            out.append(atoms[pos:pos + take])
            pos += take
            continue
        ax = []
        for sym in g:
            if sym == '1':
                continue
            if pos >= len(atoms):
                raise LegError(f'reshape: ran out of legs while matching dimension {sym}')
            lg_ = atoms[pos]
            same = (lg_.dim == sym) or (lg_.charge is not None and sym == f'len({lg_.charge[1]})')
            if not same:
                raise LegError(f'reshape: dimension {sym} requested where the next leg {atoms[pos]} has dimension '
                               f'{atoms[pos].dim} (row-major order of {[(str(a), a.dim) for a in atoms]})')
            ax.append(atoms[pos])
            pos += 1
        out.append(ax)
    if pos != len(atoms):
        raise LegError(f'reshape: {len(atoms) - pos} legs left over')
    return TVal(v.net, out)


def scale_axis(v, axis, sigma_id, exponent):
    """multiply by diag(sigma)**exponent along an (atomic) axis"""
    if len(v.axes[axis]) != 1:
        raise LegError('diagonal weight applied to a composite axis')
    net = Net()
    net.occs, net.pairs, net.scalars, net.rules = v.net.occs, list(v.net.pairs), list(v.net.scalars), list(v.net.rules)
    net.weights = {k: dict(w) for k, w in v.net.weights.items()}
    leg = v.axes[axis][0]
    w = net.weights.setdefault(leg, {})
    w[sigma_id] = w.get(sigma_id, Fraction(0)) + Fraction(exponent)
    return TVal(net, v.axes)


# ----------------------------------------------------------------------
# canonical forms
def canon(v, rename=None):
    """(open legs per axis, sorted contracted pairs, conjugated occurrences) with occurrence names"""
    rn = rename or (lambda s: s)

    def nm(l):
        return rn(l.name())
    pairs = sorted(tuple(sorted((nm(a), nm(b)))) for a, b in v.net.pairs)
    opens = [tuple(nm(l) for l in ax) for ax in v.axes]
    conjs = sorted({rn(o.name) for o in v.net.occs if o.conj})
    return {'open': opens, 'pairs': pairs, 'conj': conjs}


def closed_form(v):
    """canonical closed network (no open legs expected): set of pairs"""
    if any(v.axes):
        raise LegError('network is not closed')
    return sorted(tuple(sorted((a.name(), b.name()))) for a, b in v.net.pairs)


def apply_rules(v):
    """Rewrite Q-R (U-sigma-V) pairs contracted over their bond by the network of the factorised matrix.
    Returns (TVal, list of applied rule descriptions, list of problems)."""
    net = v.net
    applied, problems = [], []
    axes = [list(a) for a in v.axes]
    pairs = list(net.pairs)
    occs = list(net.occs)
    weights = {k: dict(w) for k, w in net.weights.items()}
    for r in list(net.rules):
        if r.left_occ not in occs or r.right_occ not in occs:
            continue
        bp = None
        for (a, b) in pairs:
            if {a, b} == {r.left_bond, r.right_bond}:
                bp = (a, b)
        if bp is None:
            continue
        if r.kind == 'svd':
            tot = Fraction(0)
            for leg in (r.left_bond, r.right_bond):
                tot += weights.get(leg, {}).get(r.sigma_id, Fraction(0))
            if tot != 1:
                problems.append(f'singular values enter with total exponent {tot} on the new bond (expected 1)')
                continue
        extra_w = [leg for leg in (r.left_bond, r.right_bond)
                   if any(k != r.sigma_id for k in weights.get(leg, {}))]
        if extra_w:
            problems.append('foreign diagonal weight on a factorisation bond')
            continue
        pairs.remove(bp)
        for leg in (r.left_bond, r.right_bond):
            weights.pop(leg, None)
        # splice in M
        m, lmap = r.m_val.clone()
        mirror = {}
        for k, tgt in r.row_map.items():
            mirror[k] = lmap[tgt]
        for k, tgt in r.col_map.items():
            mirror[k] = lmap[tgt]
        occs = [o for o in occs if o not in (r.left_occ, r.right_occ)] + m.net.occs
        pairs = [(mirror.get(a, a), mirror.get(b, b)) for a, b in pairs] + m.net.pairs
        axes = [[mirror.get(l, l) for l in ax] for ax in axes]
        for k, w in list(weights.items()):
            if k in mirror:
                weights[mirror[k]] = weights.pop(k)
        for k, w in m.net.weights.items():
            weights[k] = dict(w)
        applied.append(r.kind)
    n = Net()
    n.occs, n.pairs, n.weights, n.scalars = occs, pairs, weights, list(net.scalars)
    n.rules = [r for r in net.rules if r.left_occ in occs and r.right_occ in occs]
    return TVal(n, axes), applied, problems
