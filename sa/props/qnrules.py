"""Rules for the quantum-number helpers of qnumber.py that every sparsity rule takes for granted: the leg engine types
`qnumber_flatten([a, b])` as "a varies slowest", the block rules read `is_qsparse` as the library's own check."""
import ast
from ..defuse import before as _before

from ..loader import norm, AnalysisError
from .common import where

EXISTS = {'np.any', 'any', 'np.count_nonzero', 'np.flatnonzero', 'np.nonzero', 'np.argwhere'}
SUMS = {'np.sum', 'sum', 'np.add.reduce', 'np.nansum', 'np.mean', 'np.prod', 'np.trace'}


def _strip_not(e):
    """`not X`, `X == 0`, `not bool(X)` -> (X, negated?)"""
    neg = False
    while True:
        if isinstance(e, ast.UnaryOp) and isinstance(e.op, ast.Not):
            e, neg = e.operand, not neg
        elif isinstance(e, ast.Call) and norm(e.func) == 'bool' and len(e.args) == 1:
            e = e.args[0]
        elif isinstance(e, ast.Compare) and len(e.ops) == 1 and isinstance(e.ops[0], ast.Eq) and norm(e.comparators[0]) in ('0', 'False'):
            e, neg = e.left, not neg
        else:
            return e, neg


def qnumber_rules(chk, repo, rid):
    chk.rule(rid, 'quantum-number helpers (qnumber.py): qnumber_outer_sum folds the lists from the left with np.add.outer(T, next) '
                  '(axis k of the result ranges over list k), starting with the first list and visiting all others; '
                  'qnumber_flatten flattens that tensor in row-major order; is_qsparse answers an EXISTENCE question - is there an '
                  'entry that is non-zero in the tensor and carries a non-zero total quantum number - so its reduction is any / '
                  'count_nonzero over a selection that involves both the tensor and the outer sum, never a sum of signed charges '
                  '(which can cancel)')
    n = 0
    # ---- qnumber_outer_sum
    fi = repo.func('qnumber.qnumber_outer_sum')
    p = fi.params[0]
    rets = [r for r in ast.walk(fi.node) if isinstance(r, ast.Return) and r.value is not None]
    red = [c for c in ast.walk(fi.node) if isinstance(c, ast.Call) and norm(c.func) in ('functools.reduce', 'reduce') and
           len(c.args) >= 2 and norm(c.args[0]) == 'np.add.outer' and norm(c.args[1]) == p]
    outer = [c for c in ast.walk(fi.node) if isinstance(c, ast.Call) and norm(c.func) == 'np.add.outer' and len(c.args) == 2]
    ok, det = False, ''
    if red:
        ok = True
    elif len(outer) == 1:
        c = outer[0]
        loops = [l for l in ast.walk(fi.node) if isinstance(l, ast.For) and any(x is c for x in ast.walk(l))]
        asg = [s for s in ast.walk(fi.node) if isinstance(s, ast.Assign) and s.value is c and isinstance(s.targets[0], ast.Name)]
        if loops and asg and isinstance(loops[0].target, ast.Name):
            T, v = asg[0].targets[0].id, loops[0].target.id
            it = norm(loops[0].iter)
            elem = norm(c.args[1])
            init = [s for s in fi.node.body if isinstance(s, ast.Assign) and norm(s.targets[0]) == T and _before(fi.node, s, loops[0])]
            first_ok = len(init) == 1 and norm(init[0].value) == f'{p}[0]'
            order_ok = norm(c.args[0]) == T
            cover_ok = (it == f'range(1, len({p}))' and elem == f'{p}[{v}]') or (it == f'{p}[1:]' and elem == v)
            ret_ok = any(norm(r.value) == T for r in rets)
            ok = first_ok and order_ok and cover_ok and ret_ok
            det = f'start `{norm(init[0].value) if init else None}`, step `{norm(c)}` over `{it}`'
        else:
            raise AnalysisError('qnumber_outer_sum: accumulation loop not recognised')
    else:
        raise AnalysisError('qnumber_outer_sum: np.add.outer accumulation not found')
    chk.ob(rid, where(repo, fi, fi.node), 'qnumber_outer_sum: left fold of np.add.outer over all lists in order (axis k <-> list k)', ok, det,
           key=f'{rid}|outer-sum')
    n += 1
    # ---- qnumber_flatten
    fi = repo.func('qnumber.qnumber_flatten')
    rets = [r for r in ast.walk(fi.node) if isinstance(r, ast.Return) and r.value is not None]
    ok = False
    det = norm(rets[0].value) if rets else ''
    if len(rets) == 1:
        v = rets[0].value
        p = fi.params[0]
        base = f'qnumber_outer_sum({p})'
        forms = {f'{base}.reshape(-1)', f'{base}.ravel()', f'{base}.flatten()', f'np.ravel({base})', f'np.reshape({base}, -1)',
                 f'{base}.reshape((-1,))', f'np.reshape({base}, (-1,))'}
        ok = norm(v) in forms
        if not ok and isinstance(v, ast.Name):
            d_ = [s for s in fi.node.body if isinstance(s, ast.Assign) and norm(s.targets[0]) == v.id]
            ok = len(d_) == 1 and norm(d_[0].value) in forms
    chk.ob(rid, where(repo, fi, fi.node), 'qnumber_flatten: the outer sum flattened in row-major (default) order', ok, det,
           key=f'{rid}|flatten')
    n += 1
    # ---- is_qsparse
    fi = repo.func('qnumber.is_qsparse')
    A, Q = fi.params[0], fi.params[1]
    rets = [r for r in ast.walk(fi.node) if isinstance(r, ast.Return) and r.value is not None]
    if len(rets) != 1:
        raise AnalysisError('is_qsparse: single return not found')
    from ..defuse import local_defs, expand
    e = expand(rets[0].value, local_defs(fi.node))
    core, neg = _strip_not(e)
    kind = None
    operand = None
    if isinstance(core, ast.Call):
        f = norm(core.func)
        if f in EXISTS and core.args:
            kind, operand = 'exists', core.args[0]
        elif isinstance(core.func, ast.Attribute) and core.func.attr == 'any' and not core.args:
            kind, operand = 'exists', core.func.value
        elif f in SUMS and core.args:
            kind, operand = 'sum', core.args[0]
        elif isinstance(core.func, ast.Attribute) and core.func.attr in ('sum', 'mean', 'prod') and not core.args:
            kind, operand = 'sum', core.func.value
        elif f in ('np.all', 'all') and core.args:
            kind, operand = 'forall', core.args[0]
    if kind is None:
        raise AnalysisError(f'is_qsparse: reduction `{norm(core)[:60]}` not recognised')
    txt = norm(operand)
    uses_both = A in {x.id for x in ast.walk(operand) if isinstance(x, ast.Name)} and f'qnumber_outer_sum({Q})' in txt
    nonneg = txt.startswith(('np.abs(', 'abs(', 'np.logical_and(')) or any(isinstance(x, ast.Compare) for x in [operand]) or \
        (isinstance(operand, ast.BinOp) and isinstance(operand.op, ast.BitAnd))
    if kind == 'exists':
        ok = neg and uses_both
        det = f'`{norm(e)[:90]}`'
    elif kind == 'sum':
        ok = neg and uses_both and nonneg
        det = f'`{norm(e)[:90]}`: a sum of signed values vanishes when they cancel'
    else:
        ok = (not neg) and uses_both and any(isinstance(x, ast.Compare) for x in ast.walk(operand))
        det = f'`{norm(e)[:90]}`'
    chk.ob(rid, where(repo, fi, rets[0]), 'is_qsparse: true exactly when NO entry is both non-zero and charged (existential reduction over a '
           'selection involving the tensor and the outer sum of the quantum numbers)', ok, det, key=f'{rid}|is-qsparse')
    n += 1
    return n
