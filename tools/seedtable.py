#!/usr/bin/env python3
"""Regenerates the table of DESIGN.md section 13 from seeded/*/meta.json (between the SEEDTABLE markers)."""
import json
import os
import re

VERIF = os.path.dirname(os.path.dirname(os.path.abspath(__file__)))


def short(text, n):
    text = ' '.join(text.split())
    text = re.sub(r'^(\*\*)?[-*# ]*', '', text)
    return text if len(text) <= n else text[:n - 1] + '…'


def what(d):
    p = os.path.join(d, 'notes.md')
    if not os.path.exists(p):
        return ''
    lines = [l for l in open(p).read().splitlines() if l.strip()]
    if len(lines) > 1 and re.match(r'\**\s*need(ed|s) to manifest', lines[0], flags=re.I):
        lines = lines[1:]      # notes that open with the 'Needed to manifest:' line: the description follows
    title = lines[0].lstrip('# ').strip() if lines else ''
    title = re.sub(r'^C\d\d\s*/?\s*', '', title)
    title = re.sub(r'^(seeded )?(defect|change|seed)\s*\d*\s*[-:–—]*\s*', '', title, flags=re.I)
    title = re.sub(r'^C\d\d[- ]\d\s*[-:–—]*\s*', '', title)
    return title


def needs(text):
    text = re.sub(r'^\**\s*(needed|needs)( to manifest)?( in values)?\**\s*:\s*', '', ' '.join(text.split()), flags=re.I)
    text = re.sub(r'^\**\s*(manifests when|trigger)\**\s*:\s*', '', text, flags=re.I)
    return text


def main():
    base = os.path.join(VERIF, 'seeded')
    rows = []
    for sid in sorted(os.listdir(base)):
        d = os.path.join(base, sid)
        mp = os.path.join(d, 'meta.json')
        if not os.path.exists(mp):
            continue
        m = json.load(open(mp))
        fr = m.get('first_run', {})
        rules = []
        own = m['breaks_property']
        for r in m.get('first_reports', {}).get(own, [])[:1]:
            mm = re.search(r'rule=(\S+)', r)
            if mm:
                rules.append(mm.group(1))
        others = [p for p in m.get('checks_reporting_violation', []) if p != own]
        first = fr.get('own_check', '?')
        if fr.get('other_checks_reporting'):
            first += ' (' + ', '.join(fr['other_checks_reporting']) + ' reported)'
        rows.append(f"| {sid} | {short(what(d), 95)} | {short(needs(m.get('needs_to_manifest', '')), 140)} | {first} | "
                    f"{fr.get('rule_added_afterwards') or '—'} | {', '.join(rules) or '—'} | {', '.join(others) or '—'} |")
    head = ('| seed | change | needs, to manifest | own check at first run | rule added because of it | own check now reports '
            '(first rule) | other checks reporting now |\n|---|---|---|---|---|---|---|\n')
    table = head + '\n'.join(rows) + '\n'
    p = os.path.join(VERIF, 'DESIGN.md')
    s = open(p).read()
    a, b = '<!-- SEEDTABLE BEGIN -->\n', '<!-- SEEDTABLE END -->'
    if a in s and b in s:
        s = s[:s.index(a) + len(a)] + table + s[s.index(b):]
        open(p, 'w').write(s)
    n_missed = sum(1 for r in rows if '| silent' in r or '| analysis-error' in r)
    print(f'{len(rows)} seeds, {n_missed} first missed by their own check')


if __name__ == '__main__':
    main()
