"""Canonical local names: rules that relate roles must not depend on how a local variable is called.

`canonical(fi, value_roles, loop_roles)` returns a copy of the FuncInfo whose body has selected locals renamed to
role names.  A local gets a role when its (single) defining expression matches a pattern, e.g. `X = H.nsites` -> L,
`X = compute_right_operator_blocks(psi, H)` -> BR; a loop target gets a role when its iterable matches, e.g.
`for X in (0, 1)` -> direction.  Renaming is skipped when the role name is already in use for something else.
"""
import ast
import copy

from .match import pmatch
from .loader import norm


class _Ren(ast.NodeTransformer):
    def __init__(self, m):
        self.m = m

    def visit_Name(self, node):
        if node.id in self.m:
            node.id = self.m[node.id]
        return node

    def visit_arg(self, node):
        return node


def discover(fnode, value_roles=(), loop_roles=()):
    roles = {}
    used = {n.id for n in ast.walk(fnode) if isinstance(n, ast.Name)} | {a.arg for a in fnode.args.args}
    params = {a.arg for a in fnode.args.args}
    defs = {}
    for n in ast.walk(fnode):
        if isinstance(n, ast.Assign) and len(n.targets) == 1 and isinstance(n.targets[0], ast.Name):
            defs.setdefault(n.targets[0].id, []).append(n.value)
    for name, vals in defs.items():
        if name in params:
            continue
        for patt, role in value_roles:
            if any(pmatch(patt, v) is not None for v in vals):
                roles[name] = role
                break
    for n in ast.walk(fnode):
        if isinstance(n, (ast.For, ast.comprehension)) and isinstance(n.target, ast.Name):
            for patt, role in loop_roles:
                if pmatch(patt, n.iter) is not None:
                    roles[n.target.id] = role
    # drop renamings that would capture another variable
    out = {}
    for name, role in roles.items():
        if name == role:
            continue
        if role in used and role not in roles:
            continue
        if list(roles.values()).count(role) > 1:
            continue
        out[name] = role
    return out


class CanonFunc:
    """FuncInfo look-alike with a renamed body"""

    def __init__(self, fi, node, mapping):
        self.__dict__.update(fi.__dict__)
        self.node = node
        self.renamed = mapping
        self.params = [a.arg for a in node.args.args]


def canonical(fi, value_roles=(), loop_roles=()):
    m = discover(fi.node, value_roles, loop_roles)
    if not m:
        return fi
    node = _Ren(m).visit(copy.deepcopy(fi.node))
    return CanonFunc(fi, node, m)


SWEEP_VALUE_ROLES = [
    ('__h.nsites', 'L'),
    ('len(__x.A)', 'L'),
    ('compute_right_operator_blocks(__p, __h)', 'BR'),
    ('[None for __u in range(__l)]', 'BL'),
]
ARITH_VALUE_ROLES = [
    ('__x.nsites', 'L'),
    ('len(__x.qd)', 'd'),
]
CLASS_L_ROLES = [('self.L', 'L')]
DIRECTION_LOOP = [('(0, 1)', 'direction')]
