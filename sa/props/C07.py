"""C07 - molecular Hamiltonians, both build paths (structural part)."""
import ast

from ..loader import norm, AnalysisError
from ..taint import Taint
from .. import typestate as ts
from .. import tables as tb
from .common import where, run_id_typestate

CLASSES = ['MolecularOpGraphNodes', 'SpinMolecularOpGraphNodes']
ADD_TERM = ['hamiltonian._molecular_hamiltonian_graph_add_term',
            'hamiltonian._spin_molecular_hamiltonian_graph_add_term']
DRIVERS = {'hamiltonian.molecular_hamiltonian_mpo': '_molecular_hamiltonian_graph_add_term',
           'hamiltonian.spin_molecular_hamiltonian_mpo': '_spin_molecular_hamiltonian_graph_add_term'}
EXPECTED_FAMILIES = {'identity_l', 'identity_r', 'a_dag_l', 'a_ann_l', 'a_dag_r', 'a_ann_r',
                     'a_dag_a_dag_l', 'a_ann_a_ann_l', 'a_dag_a_ann_l',
                     'a_dag_a_dag_r', 'a_ann_a_ann_r', 'a_dag_a_ann_r'}


def rule_R2(chk, repo):
    rid = 'C07.R2'
    chk.rule(rid, 'node-family tables: for each of the 12 node families of both node classes the loop nest '
                  '(iterables, skip guards, key tuples; loop variables canonicalised) that creates the family in '
                  '__init__ equals the loop nest that exports its ids in copy_nids; the exported value is the id '
                  'of the node under the same key; every created family is registered in the node list of '
                  'generate_graph; get() maps each operator pair and side to the family of that name.')
    n = 0
    for cname in CLASSES:
        ci = repo.cls(cname)
        init = ci.methods.get('__init__')
        cp = ci.methods.get('copy_nids')
        gg = ci.methods.get('generate_graph')
        get = ci.methods.get('get')
        if not (init and cp and gg and get):
            raise AnalysisError(f'{cname}: __init__/copy_nids/generate_graph/get not all present')
        from ..canon import canonical, CLASS_L_ROLES
        from ..normal import class_method
        cp = class_method(cp)
        gg = class_method(gg)
        init = class_method(init)
        created, cleaves = tb.family_nests(init.node, tb.self_attr_root('self'))
        created.pop('L', None)
        exported, eleaves = tb.family_nests(cp.node, tb.self_attr_root('target', 'nids_'))
        fams = set(created)
        if not fams:
            raise AnalysisError(f'{cname}.__init__: no node family found')
        chk.ob(rid, where(repo, init, init.node), f'{cname}: families created == families exported',
               set(created) == set(exported),
               f'created only: {sorted(set(created) - set(exported))}; exported only: {sorted(set(exported) - set(created))}',
               key=f'{rid}|{cname}|family-set')
        chk.ob(rid, where(repo, init, init.node), f'{cname}: the 12 documented families are present',
               fams == EXPECTED_FAMILIES, f'found {sorted(fams)}', key=f'{rid}|{cname}|expected-families')
        for f in sorted(fams):
            a = created.get(f, set())
            b = exported.get(f, set())
            ok = (a == b)
            chk.ob(rid, where(repo, cp, cp.node), f'{cname}.{f}: creation nest == export nest', ok,
                   '' if ok else tb.describe_diff(a, b), key=f'{rid}|{cname}|{f}|nest')
            n += 1
        # created leaves are OpGraphNode(...) ; exported leaves read the same key
        for fam, s, cvars, keys in cleaves:
            if isinstance(s.value, ast.Dict):
                continue
            if fam == 'L':
                continue
            ok = isinstance(s.value, ast.Call) and ts.callee_name(s.value) == 'OpGraphNode'
            chk.ob(rid, where(repo, init, s), f'{cname}.{fam}: created entry is a graph node', ok,
                   norm(s.value)[:60], key=f'{rid}|{cname}|{fam}|create-leaf|{norm(s.targets[0])}')
        for fam, s, cvars, keys in eleaves:
            if isinstance(s.value, ast.Dict):
                continue
            v = s.value
            ok = False
            if isinstance(v, ast.Attribute) and v.attr == 'nid':
                root, vkeys = tb.subscript_chain(v.value)
                ok = (tb.self_attr_root('self')(root) == fam and
                      [norm(k) for k in vkeys] == [norm(k) for k in keys])
            chk.ob(rid, where(repo, cp, s), f'{cname}.{fam}: exported id is the id of the node under the same key',
                   ok, f'`{norm(s)[:90]}`', key=f'{rid}|{cname}|{fam}|export-leaf|{norm(s.targets[0])}')
        # registration in generate_graph
        reg = None
        for node in ast.walk(gg.node):
            if isinstance(node, ast.Call) and norm(node.func) == 'OpGraph' and node.args:
                reg = node
                break
        if reg is None:
            raise AnalysisError(f'{cname}.generate_graph: OpGraph(...) construction not found')
        registered = {x.attr for x in ast.walk(reg.args[0]) if isinstance(x, ast.Attribute) and
                      isinstance(x.value, ast.Name) and x.value.id == 'self'}
        if isinstance(reg.args[0], ast.Name):
            # the node list is built first: every statement before the construction that feeds that list counts
            # (extend / append / +=, directly or through a loop over a tuple of tables)
            lst = reg.args[0].id
            for st_ in gg.node.body:
                if st_.lineno >= reg.lineno:
                    break
                feeds = any((isinstance(x, ast.Call) and isinstance(x.func, ast.Attribute) and
                             x.func.attr in ('extend', 'append') and norm(x.func.value) == lst) or
                            (isinstance(x, (ast.Assign, ast.AugAssign)) and
                             norm(x.targets[0] if isinstance(x, ast.Assign) else x.target) == lst) for x in ast.walk(st_))
                if feeds:
                    registered |= {x.attr for x in ast.walk(st_) if isinstance(x, ast.Attribute) and
                                   isinstance(x.value, ast.Name) and x.value.id == 'self'}
        chk.ob(rid, where(repo, gg, reg), f'{cname}: every created family is in the node list of the graph',
               fams <= registered, f'missing: {sorted(fams - registered)}', key=f'{rid}|{cname}|registered')
        # nested families must be flattened with two levels, flat ones with list(...values())
        # terminal nodes
        term_ok = len(reg.args) >= 3 and norm(reg.args[2]) == '[self.identity_l[0].nid, self.identity_r[L].nid]'
        chk.ob(rid, where(repo, gg, reg), f'{cname}: terminals are identity_l[0] and identity_r[L]', term_ok,
               norm(reg.args[2]) if len(reg.args) >= 3 else '', key=f'{rid}|{cname}|terminals')
        # get(): operator pair -> family of that name
        n += check_get(chk, repo, rid, cname, get, fams)
    chk.floor(rid, n, 2 * 12 + 12)


OID_WORD = {'C': 'dag', 'A': 'ann'}


def check_get(chk, repo, rid, cname, get, fams):
    n = 0
    rets = []

    def walk(stmts, conds):
        for s in stmts:
            if isinstance(s, ast.If):
                walk(s.body, conds + [s.test])
                walk(s.orelse, conds)
            elif isinstance(s, ast.Return):
                rets.append((s, conds))
    walk(get.node.body, [])
    seen_pairs = {}
    for r, conds in rets:
        if not isinstance(r.value, ast.IfExp):
            continue
        # operator ids from the innermost condition
        c = conds[-1]
        oids = []
        if isinstance(c, ast.Compare) and len(c.ops) == 1 and isinstance(c.ops[0], ast.Eq):
            rhs = c.comparators[0]
            for x in (rhs.elts if isinstance(rhs, ast.Tuple) else [rhs]):
                if isinstance(x, ast.Attribute) and x.attr in OID_WORD:
                    oids.append(x.attr)
        if not oids:
            raise AnalysisError(f'{cname}.get: cannot read operator ids from `{norm(c)}`')
        words = sorted([OID_WORD[o] for o in oids], key=lambda w: 0 if w == 'dag' else 1)
        base = 'a_' + '_a_'.join(words)
        left, right = r.value.body, r.value.orelse
        lroot, lkeys = tb.subscript_chain(left)
        rroot, rkeys = tb.subscript_chain(right)
        lf = tb.self_attr_root('self')(lroot)
        rf = tb.self_attr_root('self')(rroot)
        side_ok = norm(r.value.test) in ('connection == "left"', "connection == 'left'")
        ok = side_ok and lf == base + '_l' and rf == base + '_r' and lf in fams and rf in fams and \
            [norm(k) for k in lkeys] == [norm(k) for k in rkeys]
        chk.ob(rid, where(repo, get, r), f'{cname}.get: operators {tuple(oids)} -> family {base}_l / {base}_r', ok,
               f'`{norm(r.value)[:100]}`', key=f'{rid}|{cname}|get|{",".join(oids)}')
        seen_pairs[tuple(oids)] = [norm(k) for k in lkeys]
        n += 1
    need = {('C',), ('A',), ('C', 'C'), ('A', 'A'), ('C', 'A'), ('A', 'C')}
    chk.ob(rid, where(repo, get, get.node), f'{cname}.get covers all six operator combinations',
           set(seen_pairs) == need, f'found {sorted(seen_pairs)}', key=f'{rid}|{cname}|get|coverage')
    # (A, C) must address the (C, A) family with swapped orbital arguments
    if ('C', 'A') in seen_pairs and ('A', 'C') in seen_pairs:
        ca = seen_pairs[('C', 'A')][0]
        ac = seen_pairs[('A', 'C')][0]
        parts_ca = [p.strip() for p in ca.strip('()').split(',')]
        parts_ac = [p.strip() for p in ac.strip('()').split(',')]
        h = len(parts_ca) // 2
        ok = parts_ac == parts_ca[h:] + parts_ca[:h]
        chk.ob(rid, where(repo, get, get.node), f'{cname}.get: (A, C) uses the (C, A) family with swapped indices', ok,
               f'(C,A) key {ca}; (A,C) key {ac}', key=f'{rid}|{cname}|get|swap')
        n += 1
    return n


def rule_R3(chk, repo):
    rid = 'C07.R3'
    chk.rule(rid, 'term insertion: on every non-raising path of both *_graph_add_term functions exactly one edge '
                  'is added with add_connect_edge(OpGraphEdge(<fresh id>, ..., [(op, coeff)])) carrying the '
                  'coefficient unchanged; in the drivers both coefficient tensors (tkin, vint through gint*) reach a '
                  'coefficient slot in both branches of `optimize`.')
    n = 0
    for q in ADD_TERM:
        fi = repo.func(q)
        if 'coeff' not in fi.params:
            raise AnalysisError(f'{q}: parameter `coeff` not found')

        def is_sink(call):
            if ts.callee_name(call) != 'add_connect_edge' or not call.args:
                return False
            a = call.args[0]
            return isinstance(a, ast.Call) and ts.callee_name(a) == 'OpGraphEdge'
        results, nraise = ts.check_exactly_once(fi, is_sink)
        if not results:
            raise AnalysisError(f'{q}: no non-raising exit found')
        paths = 0
        for r in results:
            ok = (r['lo'] == 1 and r['hi'] == 1)
            paths += 1
            chk.ob(rid, f'pytenet/{fi.module}.py:{fi.name}:{r["line"]}',
                   f'{fi.name}: exactly one edge on path [{", ".join(r["facts"])[:140]}]', ok,
                   f'edges added on this path: between {r["lo"]} and {r["hi"]} (sites {r["sites"]})',
                   key=f'{rid}|{q}|path|{";".join(r["facts"])}')
        n += paths
        # the coefficient slot of every inserted edge is exactly `coeff`
        for call in ast.walk(fi.node):
            if isinstance(call, ast.Call) and ts.callee_name(call) == 'OpGraphEdge':
                ok = False
                if len(call.args) >= 3 and isinstance(call.args[2], ast.List) and len(call.args[2].elts) == 1:
                    el = call.args[2].elts[0]
                    ok = isinstance(el, ast.Tuple) and len(el.elts) == 2 and norm(el.elts[1]) == 'coeff'
                chk.ob(rid, where(repo, fi, call), f'{fi.name}: edge carries the coefficient unchanged', ok,
                       f'`{norm(call.args[2])[:60]}`' if len(call.args) >= 3 else '',
                       key=f'{rid}|{q}|slot|{norm(call)[:150]}')
                n += 1
    for q, helper in DRIVERS.items():
        fi = repo.func(q)
        branch = None
        for s in fi.node.body:
            if isinstance(s, ast.If) and norm(s.test) == 'optimize':
                branch = s
        if branch is None:
            raise AnalysisError(f'{q}: `if optimize:` not found')
        for param in ('tkin', 'vint'):
            T = Taint(repo, fi, [param], None)
            for bname, body in (('optimize', branch.body), ('explicit', branch.orelse)):
                hit = None
                for s in body:
                    for c in ast.walk(s):
                        if not isinstance(c, ast.Call):
                            continue
                        nm = ts.callee_name(c)
                        slot = None
                        if nm == 'OpChain' and len(c.args) >= 3:
                            slot = c.args[2]
                        elif nm == helper and len(c.args) >= 4:
                            slot = c.args[3]
                        if slot is not None and T.expr_tainted(slot):
                            hit = c
                ok = hit is not None
                chk.ob(rid, where(repo, fi, hit or branch), f'{fi.name}: `{param}` reaches a coefficient slot in the '
                       f'{bname} branch', ok, f'slot at line {hit.lineno}' if hit else 'no tainted coefficient slot',
                       key=f'{rid}|{q}|{param}|{bname}')
                n += 1
    n += rule_R3b(chk, repo, rid)
    chk.floor(rid, n, 40)


def run(chk, repo, tier):
    chk.rule('C07.R1', 'id allocation typestate over both node-class constructors, both generate_graph methods and '
                       'both term-insertion functions: on every path (all L, since the loops are abstracted by '
                       'fixpoints) each node/edge id handed to a constructor has been advanced since its last use.')
    fis = []
    for c in CLASSES:
        ci = repo.cls(c)
        fis += [ci.methods['__init__'], ci.methods['generate_graph']]
    fis += [repo.func(q) for q in ADD_TERM]
    run_id_typestate(chk, repo, 'C07.R1', fis, 103)
    rule_R2(chk, repo)
    rule_R3(chk, repo)
    from .C07ranges import rule_R4
    rule_R4(chk, repo)
    rule_R5(chk, repo)
    from .C07charges import rule_R6, rule_R8
    rule_R6(chk, repo)
    rule_R8(chk, repo)
    from . import support
    support.chain_compiler_rules(chk, repo, 'C07.R7')
    # molecular part of hamiltonian.py: everything except the lattice-model constructors of C06 and the private helpers
    # that only they use
    import ast as _ast
    lattice = {'ising_mpo', 'heisenberg_xxz_mpo', 'heisenberg_xxz_spin1_mpo', 'bose_hubbard_mpo', 'fermi_hubbard_mpo',
               'linear_fermionic_mpo', '_local_opchains_to_mpo'}
    mol = {q_: f_ for q_, f_ in repo.funcs.items() if f_.module == 'hamiltonian' and f_.name not in lattice and
           (f_.cls is not None or not f_.name.startswith('_') or 'olecular' in f_.name)}
    refs = {n_.id for f_ in mol.values() for n_ in _ast.walk(f_.node) if isinstance(n_, _ast.Name)}
    only = set(mol) | {q_ for q_, f_ in repo.funcs.items() if f_.module == 'hamiltonian' and f_.cls is None and f_.name in refs
                       and f_.name not in lattice}
    support.storage_type_rules(chk, repo, 'C07.R9', {'hamiltonian'}, only=only)
    support.graph_table_rules(chk, repo, 'C07.R10', ('OpGraph',))
    chk.undecided += ['operator equality of the optimised and explicit construction', 'unitarity of the gauge matrices',
                      'index ranges of the keys used by the term-insertion functions (only generate_graph / copy_nids are covered by C07.R4)']
    chk.trust('naming convention a_dag ~ creation (C), a_ann ~ annihilation (A) for the get() rule')
    return ('Static rules over hamiltonian.py (molecular constructions): path-sensitive id typestate (found F2), '
            'family-table agreement between creation / export / registration / lookup, exactly-once edge insertion '
            'per path of the term functions, coefficient taint from tkin/vint into both build paths.',
            'instances = allocation sites, families x {nest, leaf}, paths of the term functions (partitioned by the '
            'branch conditions taken), coefficient slots; distinct = distinct keys')


def rule_R3b(chk, repo, rid='C07.R3'):
    """a term may only be skipped on a condition about the very coefficient that is inserted"""
    from ..defuse import dominating_conditions
    n = 0
    for q, helper in DRIVERS.items():
        fi = repo.func(q)
        T = Taint(repo, fi, ['tkin', 'vint'], None)
        for c in ast.walk(fi.node):
            if not isinstance(c, ast.Call):
                continue
            nm = ts.callee_name(c)
            slot = None
            if nm == 'OpChain' and len(c.args) >= 3:
                slot = c.args[2]
            elif nm == helper and len(c.args) >= 4:
                slot = c.args[3]
            if slot is None or not T.expr_tainted(slot):
                continue
            # raw (unexpanded) dominating tests
            conds = _dominating_tests(fi.node, c)
            bad = []
            for t in conds:
                for sub in ast.walk(t):
                    if isinstance(sub, (ast.Subscript, ast.Name)) and T.expr_tainted(sub) and \
                            not isinstance(getattr(sub, 'ctx', None), ast.Store):
                        # allowed: the inserted coefficient itself (or a name holding it)
                        if norm(sub) == norm(slot):
                            continue
                        if isinstance(sub, ast.Name) and isinstance(slot, ast.Name):
                            continue
                        if isinstance(sub, ast.Name) and sub.id in ('tkin', 'vint') and isinstance(t, ast.Compare) and \
                                'shape' in norm(t):
                            continue
                        # sub-expressions of an allowed expression
                        if any(norm(sub) == norm(x) for x in ast.walk(slot)):
                            continue
                        bad.append((norm(t), norm(sub)))
            ok = not bad
            chk.ob(rid, where(repo, fi, c), f'{fi.name}: the term with coefficient `{norm(slot)[:40]}` is skipped only on conditions '
                   f'about that coefficient or about indices', ok,
                   '; '.join(f'condition `{t[:60]}` tests `{s_[:40]}`' for t, s_ in bad[:2]),
                   key=f'{rid}|{q}|skip|{nm}|{norm(slot)[:60]}')
            n += 1
    return n


def _dominating_tests(fnode, target):
    out = None

    def walk(stmts, conds):
        nonlocal out
        conds = list(conds)
        for s in stmts:
            if out is not None:
                return
            if isinstance(s, ast.If):
                walk(s.body, conds + [s.test])
                if out is not None:
                    return
                walk(s.orelse, conds + [s.test])
                if out is not None:
                    return
                if s.body and isinstance(s.body[-1], (ast.Continue, ast.Return, ast.Break, ast.Raise)):
                    conds = conds + [s.test]
            elif isinstance(s, (ast.For, ast.While)):
                walk(s.body, conds)
            else:
                if any(n is target for n in ast.walk(s)):
                    out = conds
                    return
    walk(fnode.body, [])
    return out or []


# ---------------------------------------------------------------------------------------
def rule_R5(chk, repo, rid='C07.R5'):
    """gauge transform: the two halves are mirror images; creation operators transform with u, annihilation with conj(u)"""
    chk.rule(rid, 'orbital gauge transform: the blocks that fill the left matrix (families connected to the right terminal, '
                  'keys [..][i]) and the blocks that fill the right matrix (families connected to the left terminal, keys '
                  '[..][i + 2]) are mirror images of each other block by block (same families, same key patterns, same matrix '
                  'elements); pure creation families are transformed with u, pure annihilation families with conj(u)')
    from ..normal import wrap, inline_procedures
    fi = repo.func('hamiltonian.molecular_hamiltonian_orbital_gauge_transform')
    from ..normal import continue_to_nested_if
    fi = wrap(fi, inline_procedures({n_: f_.node for n_, f_ in repo.modules[fi.module].functions.items()}),
              continue_to_nested_if)
    halves = {}
    cur = None
    for s in fi.node.body:
        if isinstance(s, ast.Assign) and isinstance(s.targets[0], ast.Name) and isinstance(s.value, ast.Call) and \
                norm(s.value.func) == 'np.identity':
            cur = s.targets[0].id
            halves[cur] = {'init': s, 'stmts': []}
            continue
        if cur is not None:
            halves[cur]['stmts'].append(s)
    if len(halves) != 2:
        raise AnalysisError('gauge transform: the two matrices v_l / v_r not found')
    names = list(halves)

    def blocks(mat, stmts):
        out = []
        for top in stmts:
            for node in ast.walk(top):
                if not isinstance(node, ast.If):
                    continue
                assigns = [x for x in node.body if isinstance(x, ast.Assign)]
                stores = [x for x in assigns if isinstance(x.targets[0], ast.Subscript) and norm(x.targets[0].value) == mat]
                if not stores:
                    continue
                lookups = {}
                fam = None
                for x in assigns:
                    if isinstance(x.targets[0], ast.Tuple) and isinstance(x.value, ast.Subscript) and \
                            norm(x.value.value).endswith('.nid_map'):
                        var = norm(x.targets[0].elts[1])
                        root, keys = tb.subscript_chain(x.value.slice)
                        fam = root.attr if isinstance(root, ast.Attribute) else None
                        lookups[var] = [norm(k) for k in keys]
                entries = []
                for x in stores:
                    idx = x.targets[0].slice
                    ij = [norm(e) for e in idx.elts] if isinstance(idx, ast.Tuple) else [norm(idx)]
                    entries.append((tuple(ij), norm(x.value)))
                out.append({'fam': fam, 'lookups': lookups, 'entries': entries, 'node': node})
        return out
    bl = {m: blocks(m, halves[m]['stmts']) for m in names}
    # which half uses the *_r families?
    def side(b):
        fams = {x['fam'] for x in b if x['fam']}
        return 'r' if all(f.endswith('_r') for f in fams) else ('l' if all(f.endswith('_l') for f in fams) else '?')
    sides = {m: side(bl[m]) for m in names}
    if set(sides.values()) != {'r', 'l'}:
        raise AnalysisError(f'gauge transform: halves do not separate into _r / _l families ({sides})')
    mr = [m for m in names if sides[m] == 'r'][0]
    ml = [m for m in names if sides[m] == 'l'][0]

    def canon_block(b, mat, second_key):
        # rename index variables j0, j1, ... by their lookup pattern; second-level key -> <pos>
        ren = {}
        for var, keys in b['lookups'].items():
            k2 = list(keys[:-1]) + ['<pos>' if keys[-1] == second_key else keys[-1]]
            ren[var] = 'J[' + ']['.join(k2) + ']'
        ents = []
        for ij, val in b['entries']:
            ents.append((tuple(ren.get(v, v) for v in ij), val))
        return (b['fam'][:-2] if b['fam'] else None, tuple(sorted(ents)))
    ca = [canon_block(b, mr, 'i') for b in bl[mr]]
    cb = [canon_block(b, ml, 'i + 2') for b in bl[ml]]
    n = 0
    sa_, sb_ = set(ca), set(cb)
    for b, c in zip(bl[mr], ca):
        ok = c in sb_
        chk.ob(rid, where(repo, fi, b['node']), f'gauge transform: block of family {b["fam"]} ({len(b["entries"])} entries) has '
               f'a mirror image in the other half', ok, '' if ok else f'no block of {c[0]}_l with the same key pattern and '
               f'matrix elements', key=f'{rid}|mirror|{mr}|{c[0]}|{hash(c) & 0xffff if False else len(c[1])}|{n}')
        n += 1
    for b, c in zip(bl[ml], cb):
        ok = c in sa_
        chk.ob(rid, where(repo, fi, b['node']), f'gauge transform: block of family {b["fam"]} ({len(b["entries"])} entries) has '
               f'a mirror image in the other half', ok, '' if ok else f'no block of {c[0]}_r with the same key pattern and '
               f'matrix elements', key=f'{rid}|mirror|{ml}|{c[0]}|{len(c[1])}|{n}')
        n += 1
    # conjugation convention for pure families
    for m in names:
        for b in bl[m]:
            base = (b['fam'] or '')[:-2]
            ops = [w for w in base.split('_') if w in ('dag', 'ann')]
            if not ops or len(set(ops)) != 1:
                continue
            want_conj = ops[0] == 'ann'
            okc = all(('.conj()' in val) == want_conj for _, val in b['entries'])
            chk.ob(rid, where(repo, fi, b['node']), f'gauge transform: family {b["fam"]} is transformed with '
                   f'{"conj(u)" if want_conj else "u"}', okc, '; '.join(v for _, v in b['entries'][:2]),
                   key=f'{rid}|conj|{m}|{b["fam"]}|{n}')
            n += 1
    # spectator orbitals: every site other than i and i + 1 is visited by each half
    from ..affine import try_affine, Affine
    Ls = Affine.sym('L')
    for m in names:
        loops = [l for l in halves[m]['stmts'] if isinstance(l, ast.For) and isinstance(l.iter, ast.Call) and
                 norm(l.iter.func) == 'range']
        ivs = []
        for l in loops:
            a = l.iter.args
            lo = try_affine(a[0]) if len(a) == 2 else Affine.const(0)
            hi = try_affine(a[-1], {}, attr_syms={'h.nsites': 'L'}) if True else None
            if hi is None and norm(a[-1]) in ('h.nsites', f'{fi.params[0]}.nsites'):
                hi = Ls
            ivs.append((lo, hi, l))
        want = {(str(Affine.const(0)), str(Affine.sym('i'))), (str(Affine.sym('i') + Affine.const(2)), str(Ls))}
        got = {(str(lo), str(hi)) for lo, hi, _ in ivs}
        bad = [l for lo, hi, l in ivs if (str(lo), str(hi)) not in want]
        chk.ob(rid, where(repo, fi, bad[0] if bad else (loops[0] if loops else fi.node)), f'gauge transform ({m}): the loops over '
               f'the spectator orbital k cover exactly the sites [0, i) and [i + 2, L) - every site except the rotated pair', 
               got == want and not bad, f'ranges {sorted(got)}', key=f'{rid}|spectators|{m}')
        n += 1
    chk.floor(rid, n, 30)
    return n
