"""May-write and may-share analysis on a typed abstract heap (DESIGN.md 4.1).

* locals: flow-sensitive (strong updates), per function activation;
* heap: one monotone points-to store per entry-point analysis (weak updates), iterated to a fixpoint;
* repository calls: the callee body is analysed with the abstract arguments of the call site
  (full context sensitivity; allocation sites are qualified by the call string);
* constants are tracked (ints, strings, bools, None) so that `fill='postpone'`, `mode == 'left'`,
  `len([a, b])`, `range(1, 2)` select the feasible paths only.

Nothing of pytenet is executed: every transfer function below works on syntax.
"""
import ast

from .absint import Domain, Interp
from .loader import AnalysisError, norm

# ----------------------------------------------------------------------
# types
IMM = ('imm',)
ARR = ('arr',)
UNK = ('unk',)
CALLABLE = ('callable',)
RNG = ('rng',)
SEQ = ('seq',)     # 1-D sequence of scalars (python list or ndarray): slices alias, elements are scalars


def T_list(t):
    return ('list', t)


def T_dict(t):
    return ('dict', t)


def T_set(t):
    return ('set', t)


def T_tuple(*ts):
    return ('tuple', tuple(ts))


def T_obj(c):
    return ('obj', c)


_GN = T_dict(T_obj('OpGraphNode'))
_FAM = T_dict(T_dict(T_obj('OpGraphNode')))
CLASS_FIELDS = {
    'MPS': {'qd': SEQ, 'qD': T_list(SEQ), 'A': T_list(ARR)},
    'MPO': {'qd': SEQ, 'qD': T_list(SEQ), 'A': T_list(ARR), 'nid_map': T_dict(IMM)},
    'OpChain': {'oids': T_list(IMM), 'qnums': T_list(IMM), 'coeff': IMM, 'istart': IMM},
    'OpGraphNode': {'nid': IMM, 'eids': T_tuple(T_list(IMM), T_list(IMM)), 'qnum': IMM},
    'OpGraphEdge': {'eid': IMM, 'nids': T_list(IMM), 'opics': T_list(IMM)},
    'OpGraph': {'nodes': T_dict(T_obj('OpGraphNode')), 'edges': T_dict(T_obj('OpGraphEdge')),
                'nid_terminal': T_list(IMM)},
    'OpHalfchain': {'oids': IMM, 'qnums': IMM, 'nidl': IMM},
    'UNode': {'oid': IMM, 'qnum0': IMM, 'qnum1': IMM, 'nidl': IMM},
    'AutOpNode': {'nid': IMM, 'eids': T_tuple(T_list(IMM), T_list(IMM)), 'qnum': IMM},
    'AutOpEdge': {'eid': IMM, 'nids': T_list(IMM), 'opics': T_list(IMM), 'active': CALLABLE},
    'AutOp': {'nodes': T_dict(T_obj('AutOpNode')), 'edges': T_dict(T_obj('AutOpEdge')),
              'nid_terminal': T_list(IMM)},
    'OpTreeEdge': {'oid': IMM, 'coeff': IMM, 'node': T_obj('OpTreeNode')},
    'OpTreeNode': {'children': T_list(T_obj('OpTreeEdge')), 'qnum': IMM},
    'OpTree': {'root': T_obj('OpTreeNode'), 'istart': IMM},
    'BipartiteGraph': {'num_u': IMM, 'num_v': IMM, 'adj_u': T_list(T_list(IMM)), 'adj_v': T_list(T_list(IMM))},
    'HopcroftKarp': {'graph': T_obj('BipartiteGraph'), 'matched_pairs_u': T_list(IMM),
                     'matched_pairs_v': T_list(IMM), 'dist': T_dict(IMM)},
    'MolecularOpGraphNodes': {'L': IMM, 'identity_l': _GN, 'identity_r': _GN, 'a_dag_l': _FAM, 'a_ann_l': _FAM,
                              'a_dag_r': _FAM, 'a_ann_r': _FAM, 'a_dag_a_dag_l': _FAM, 'a_ann_a_ann_l': _FAM,
                              'a_dag_a_ann_l': _FAM, 'a_dag_a_dag_r': _FAM, 'a_ann_a_ann_r': _FAM,
                              'a_dag_a_ann_r': _FAM},
}
CLASS_FIELDS['SpinMolecularOpGraphNodes'] = CLASS_FIELDS['MolecularOpGraphNodes']

ANNOT_TYPES = {
    'int': IMM, 'float': IMM, 'str': IMM, 'bool': IMM, 'complex': IMM,
    'np.ndarray': ARR, 'Sequence[int]': SEQ, 'Sequence[float]': SEQ,
    'Sequence[Sequence[int]]': T_list(SEQ),
    'Sequence[tuple]': T_list(IMM), 'Sequence[tuple[int, int]]': T_list(IMM),
    'Sequence[tuple[int, float]]': T_list(IMM),
    'Mapping': T_dict(ARR),
    'np.random.Generator': RNG,
    'Sequence[OpChain]': T_list(T_obj('OpChain')), 'Sequence[OpTree]': T_list(T_obj('OpTree')),
    'Sequence[OpGraphNode]': T_list(T_obj('OpGraphNode')), 'Sequence[OpGraphEdge]': T_list(T_obj('OpGraphEdge')),
    'Sequence[AutOpNode]': T_list(T_obj('AutOpNode')), 'Sequence[AutOpEdge]': T_list(T_obj('AutOpEdge')),
    'Sequence[OpTreeEdge]': T_list(T_obj('OpTreeEdge')), 'Sequence[OpHalfchain]': T_list(T_obj('OpHalfchain')),
    'Union[Sequence[tuple[int, float]], Callable[int, Sequence[tuple[int, float]]]]': T_list(IMM),
    'Union[bool, Callable[int, bool]]': CALLABLE,
}
# unannotated parameters: one line of reason each
PARAM_NAME_TYPES = {
    'tol': IMM, 'tol_split': IMM, 'dt': IMM, 'alpha': IMM, 'scale': IMM, 'mode': IMM, 'svd_distr': IMM,
    'numiter': IMM, 'numeig': IMM, 'hermitian': IMM, 'fill': IMM, 'dtype': IMM, 'optimize': IMM,
    'connection': IMM, 'ftype': IMM, 'size': IMM, 'L': IMM,        # scalars / strings by documentation
    'coeff': ARR,            # linear_fermionic_mpo: coefficient vector (array-like)
    'Afunc': CALLABLE,       # krylov: matrix-free callback
    'rng': RNG,
    'node': T_obj('OpTreeNode'),   # OpTreeEdge.__init__ (checked by isinstance in the code)
    'child': T_obj('OpTreeEdge'),  # OpTreeNode.add_child (checked by isinstance)
}
SELF_OTHER = {'other'}   # `other` has the class of `self` (checked by isinstance / documented)


class Loc:
    __slots__ = ('root', 'path', 'ty', 'implicit', 'parent', 'payload')

    def __init__(self, root, path, ty, implicit, parent=None, payload=None):
        self.root = root
        self.path = path
        self.ty = ty
        self.implicit = implicit
        self.parent = parent
        self.payload = payload

    @property
    def kind(self):
        return self.ty[0]

    def is_param(self):
        return self.root[0] == 'P'

    def describe(self):
        if self.root[0] == 'P':
            return self.root[1] + ''.join(self.path)
        if self.root[0] == 'N':
            return f'<new {self.kind} @{self.root[1]}>' + ''.join(self.path)
        return f'<{self.root[0]} {self.root[1]}>'

    def __repr__(self):
        return self.describe()


NOCONST = type('NoConst', (), {'__repr__': lambda s: '?'})()


class Val:
    __slots__ = ('locs', 'const')

    def __init__(self, locs=frozenset(), const=NOCONST):
        self.locs = locs if isinstance(locs, frozenset) else frozenset(locs)
        self.const = const

    def __eq__(self, o):
        return isinstance(o, Val) and self.locs == o.locs and _ceq(self.const, o.const)

    def __hash__(self):
        try:
            return hash((self.locs, self.const if self.const is NOCONST else repr(self.const)))
        except TypeError:
            return hash(self.locs)

    def __repr__(self):
        return f'Val({set(self.locs) or ""}{"" if self.const is NOCONST else " =" + repr(self.const)})'


def _ceq(a, b):
    if a is NOCONST or b is NOCONST:
        return a is b
    return type(a) is type(b) and a == b


IMMV = Val()


def vjoin(a, b):
    if a is None:
        return b
    if b is None:
        return a
    c = a.const if _ceq(a.const, b.const) else NOCONST
    return Val(a.locs | b.locs, c)


# ----------------------------------------------------------------------
# library classification
NP_FRESH = {
    'array', 'zeros', 'ones', 'full', 'empty', 'identity', 'eye', 'arange', 'linspace', 'diag', 'kron', 'block',
    'concatenate', 'hstack', 'vstack', 'stack', 'cumsum', 'cumprod', 'argsort', 'sort', 'sqrt', 'exp', 'log',
    'tensordot', 'dot', 'vdot', 'inner', 'outer', 'matmul', 'intersect1d', 'union1d', 'unique', 'where', 'abs',
    'absolute', 'conj', 'conjugate', 'copy', 'zeros_like', 'ones_like', 'empty_like', 'full_like', 'sum', 'prod',
    'trace', 'any', 'all', 'allclose', 'isclose', 'array_equal', 'max', 'min', 'amax', 'amin', 'argmax',
    'argmin', 'mean', 'pad', 'tile', 'repeat', 'append', 'delete', 'insert', 'roll', 'round', 'floor', 'ceil',
    'sign', 'angle', 'add', 'subtract', 'multiply', 'divide', 'negative', 'power', 'mod', 'maximum', 'minimum',
    'nonzero', 'flatnonzero', 'count_nonzero', 'searchsorted', 'bincount', 'meshgrid', 'indices', 'tril', 'triu',
    'finfo', 'iinfo', 'iscomplexobj', 'isrealobj', 'ndim', 'shape', 'size', 'result_type', 'promote_types',
    'cos', 'sin', 'tan', 'cosh', 'sinh', 'tanh', 'arccos', 'arcsin', 'arctan', 'logical_and', 'logical_or',
    'logical_not', 'equal', 'not_equal', 'less', 'greater', 'isnan', 'isinf', 'isfinite', 'lexsort', 'diff',
    'cross', 'einsum_path', 'fromiter', 'frombuffer', 'fromfunction', 'complex128', 'float64', 'int64', 'int32',
    'complex64', 'float32', 'bool_', 'errstate', 'seterr', 'in1d', 'isin', 'setdiff1d', 'average', 'std', 'var',
    'median', 'ptp', 'clip', 'real_if_close', 'nan_to_num', 'vectorize', 'array_split_NOT', 'diagflat', 'vander',
}
NP_VIEW = {
    'asarray', 'asanyarray', 'ascontiguousarray', 'asfortranarray', 'asarray_chkfinite', 'require',
    'reshape', 'ravel', 'squeeze', 'transpose', 'swapaxes', 'moveaxis', 'rollaxis', 'expand_dims',
    'atleast_1d', 'atleast_2d', 'atleast_3d', 'broadcast_to', 'broadcast_arrays', 'real', 'imag', 'diagonal',
    'split', 'array_split', 'hsplit', 'vsplit', 'dsplit', 'flip', 'flipud', 'fliplr', 'rot90', 'trim_zeros',
    'permute_dims', 'matrix_transpose', 'take_along_axis_NOT',
}
NP_MUTATE_ARG0 = {'copyto', 'put', 'place', 'putmask', 'fill_diagonal', 'put_along_axis'}

ARR_METHOD_VIEW = {'reshape', 'transpose', 'swapaxes', 'view', 'ravel', 'squeeze', 'diagonal', 'newbyteorder',
                   'getfield'}
ARR_METHOD_FRESH = {'copy', 'conj', 'conjugate', 'astype', 'flatten', 'sum', 'dot', 'tolist', 'all', 'any',
                    'max', 'min', 'mean', 'round', 'cumsum', 'cumprod', 'argsort', 'nonzero', 'trace', 'prod',
                    'item', 'tobytes', 'argmax', 'argmin', 'std', 'var', 'clip', 'repeat', 'take', 'compress',
                    'choose', 'searchsorted', 'tostring', 'toarray', 'todense', 'tocsr', 'tocsc', 'multiply',
                    'conjugate', 'getH', 'power', 'ptp', 'dump', 'dumps', '__abs__'}
ARR_METHOD_MUTATE = {'fill', 'sort', 'put', 'itemset', 'resize', 'partition', 'setfield', 'setflags', 'byteswap'}
LIST_METHOD_MUTATE_STORE = {'append', 'extend', 'insert', 'add', 'update', 'setdefault', 'put', 'appendleft',
                            'difference_update', 'intersection_update', 'symmetric_difference_update'}
LIST_METHOD_MUTATE = {'remove', 'pop', 'clear', 'sort', 'reverse', 'discard', 'popitem', 'get_nowait'} | \
    LIST_METHOD_MUTATE_STORE
CONTAINER_METHOD_PURE_ELEMS = {'pop', 'get', 'copy', 'keys', 'values', 'items', 'union', 'intersection',
                               'difference', 'symmetric_difference', '__iter__'}
CONTAINER_METHOD_PURE_IMM = {'index', 'count', 'empty', 'isdisjoint', 'issubset', 'issuperset', 'qsize', 'full',
                             'startswith', 'endswith', 'format', 'join', 'split', 'strip', 'lower', 'upper'}

KNOWN_METHOD_NAMES = ARR_METHOD_VIEW | ARR_METHOD_FRESH | ARR_METHOD_MUTATE | LIST_METHOD_MUTATE | \
    CONTAINER_METHOD_PURE_ELEMS | CONTAINER_METHOD_PURE_IMM

BUILTIN_IMM = {'len', 'int', 'float', 'complex', 'abs', 'min', 'max', 'isinstance', 'print', 'str', 'hash',
               'bool', 'all', 'any', 'round', 'divmod', 'pow', 'repr', 'id', 'callable', 'hasattr', 'ord', 'chr',
               'type', 'issubclass', 'format', 'bin', 'hex',
               'ValueError', 'RuntimeError', 'KeyError', 'NotImplementedError', 'AssertionError', 'TypeError',
               'IndexError', 'Exception', 'RuntimeWarning', 'UserWarning', 'DeprecationWarning'}
BUILTIN_CONTAINER = {'sorted', 'list', 'tuple', 'set', 'frozenset', 'reversed', 'iter'}


class Frame:
    def __init__(self, fi, ctx, parent_env=None):
        self.fi = fi
        self.ctx = ctx              # call string (tuple of site ids)
        self.parent_env = parent_env
        self.ret = None


class Engine:
    def __init__(self, repo):
        self.repo = repo
        self.reset()

    def reset(self):
        self.H = {}
        self.lens = {}
        self.writes = {}         # Loc -> set of site strings
        self.locs = {}
        self.changed = False
        self.cache = {}
        self.rec_summary = {}
        self.stack = []
        self.assumed = set()
        self.closures = {}
        self.resolved_calls = 0
        self.called = set()          # qualified names of repository functions analysed in this run
        self.ext_called = set()      # dotted names of library functions called
        self.opaque_calls = 0
        self.lib_calls = 0

    # ------------------------------------------------------------------
    # locations
    def mkloc(self, root, path, ty, implicit, parent=None, payload=None):
        key = (root, path)
        l = self.locs.get(key)
        if l is None:
            l = Loc(root, path, ty, implicit, parent, payload)
            self.locs[key] = l
        return l

    def new(self, site, frame, ty, implicit=False, length=None):
        l = self.mkloc(('N', site, frame.ctx), (), ty, implicit)
        if length is not None:
            old = self.lens.get(l, length)
            if old != length:
                length = None
            if self.lens.get(l, 'unset') != length:
                self.lens[l] = length
        else:
            self.lens.setdefault(l, None)
        return l

    def param_loc(self, name, ty):
        return self.mkloc(('P', name), (), ty, True)

    def child(self, loc, field, ty):
        """implicit child of an implicit location, with folding of recursive class types"""
        if ty == IMM:
            return None
        if ty[0] == 'obj':
            a = loc
            while a is not None:
                if a.ty == ty:
                    return a
                a = a.parent
        if len(loc.path) >= 6:
            return loc
        return self.mkloc(loc.root, loc.path + (field,), ty, True, loc)

    def field_type(self, loc, field):
        ty = loc.ty
        if ty[0] == 'obj':
            f = CLASS_FIELDS.get(ty[1], {})
            name = field[1:]
            if name in f:
                return f[name]
            return UNK
        if ty[0] in ('list', 'dict', 'set'):
            return ty[1]
        if ty[0] == 'tuple':
            if field.startswith('[') and field[1:-1].lstrip('-').isdigit():
                i = int(field[1:-1])
                if -len(ty[1]) <= i < len(ty[1]):
                    return ty[1][i]
            out = None
            return UNK
        if ty[0] == 'unk':
            return UNK
        return IMM

    def load(self, loc, field):
        out = set(self.H.get((loc, field), ()))
        if loc.implicit:
            ty = self.field_type(loc, field)
            f = field
            if loc.ty[0] in ('list', 'dict', 'set', 'unk') and field.startswith('['):
                f = '[*]'
            c = self.child(loc, f, ty)
            if c is not None:
                out.add(c)
        return out

    def elems(self, loc, idx=None):
        """element locations for a subscript / iteration"""
        k = loc.kind
        if k == 'arr' or k == 'rng':
            return {loc}
        if k == 'seq':
            return set()
        if k in ('list', 'dict', 'set', 'tuple', 'unk'):
            out = set()
            known = self.lens.get(loc) is not None
            if idx is not None and known and isinstance(idx, int):
                n = self.lens[loc]
                if idx < 0:
                    idx += n
                out |= self.load(loc, f'[{idx}]')
                out |= set(self.H.get((loc, '[*]'), ()))
            else:
                for (l, f), v in list(self.H.items()):
                    if l is loc and f.startswith('['):
                        out |= v
                if loc.implicit:
                    out |= self.load(loc, '[*]')
            if k == 'unk':
                out.add(loc)
            return out
        return set()

    def store(self, loc, field, val):
        if not val.locs:
            return
        cur = self.H.get((loc, field))
        if cur is None:
            self.H[(loc, field)] = set(val.locs)
            self.changed = True
        elif not val.locs <= cur:
            cur |= val.locs
            self.changed = True

    def store_elem(self, loc, idx, val):
        if isinstance(idx, int) and self.lens.get(loc) is not None:
            n = self.lens[loc]
            if idx < 0:
                idx += n
            self.store(loc, f'[{idx}]', val)
        else:
            self.store(loc, '[*]', val)

    def write(self, loc, site):
        if loc.kind in ('imm', 'callable', 'rng'):
            return
        s = self.writes.get(loc)
        if s is None:
            self.writes[loc] = {site}
            self.changed = True
        elif site not in s and len(s) < 6:
            s.add(site)

    def mutate_len(self, loc):
        if self.lens.get(loc) is not None:
            self.lens[loc] = None
            self.changed = True

    # ------------------------------------------------------------------
    def site(self, frame, node):
        return f'{frame.fi.module}.py:{getattr(node, "lineno", 0)}:{getattr(node, "col_offset", 0)}'

    def where(self, frame, node):
        return f'pytenet/{frame.fi.module}.py:{frame.fi.qual.split(".", 1)[1]}:{getattr(node, "lineno", 0)}'

    # ------------------------------------------------------------------
    # entry point
    def analyse(self, fi, param_types=None, const_args=None):
        """Analyse function `fi` as an entry point.  Returns dict(ret=Val, writes={Loc: sites})."""
        self.reset()
        args = {}
        for p in fi.params:
            ty = (param_types or {}).get(p) or self.param_type(fi, p)
            if p == 'cls' and fi.is_classmethod:
                args[p] = Val({self.class_loc(self.repo.classes[fi.cls])})
                continue
            if ty == IMM:
                v = IMMV
                if const_args and p in const_args:
                    v = Val(frozenset(), const_args[p])
                args[p] = v
            else:
                args[p] = Val({self.param_loc(p, ty)})
        ret = None
        for rnd in range(12):
            self.changed = False
            self.cache = {}
            frame = Frame(fi, ())
            ret = self.run_body(fi, dict(args), frame)
            if not self.changed:
                break
        else:
            raise AnalysisError(f'effects: no fixpoint for {fi.qual}')
        return {'ret': ret, 'writes': dict(self.writes), 'args': args}

    def param_type(self, fi, p):
        if p == 'self':
            return T_obj(fi.cls)
        ann = fi.annotations.get(p)
        if ann in ANNOT_TYPES:
            return ANNOT_TYPES[ann]
        if ann in self.repo.classes:
            return T_obj(ann)
        if ann is not None:
            base = ann.split('[')[0]
            if base in self.repo.classes:
                return T_obj(base)
        d = fi.defaults.get(p)
        if ann is None and d is not None and isinstance(d, ast.Constant) and \
                isinstance(d.value, (int, float, str, bool, complex)) and d.value is not None:
            return IMM
        if p in SELF_OTHER and fi.cls:
            return T_obj(fi.cls)
        if ann is None and p in PARAM_NAME_TYPES:
            return PARAM_NAME_TYPES[p]
        return UNK

    def class_loc(self, ci):
        return self.mkloc(('F', 'class', ci.name), (), CALLABLE, False, payload=('class', ci))

    def func_loc(self, fi, self_val=None):
        if self_val is None:
            return self.mkloc(('F', 'func', fi.qual), (), CALLABLE, False, payload=('func', fi, None))
        key = ('F', 'bound', fi.qual, self_val.locs)
        return self.mkloc(key, (), CALLABLE, False, payload=('func', fi, self_val))

    def closure_loc(self, node, env, frame):
        key = ('F', 'closure', id(node), id(env))
        self.closures[id(env)] = env
        return self.mkloc(key, (), CALLABLE, False, payload=('closure', node, env, frame))

    def ext_loc(self, dotted):
        return self.mkloc(('F', 'ext', dotted), (), CALLABLE, False, payload=('ext', dotted))

    # ------------------------------------------------------------------
    def run_body(self, fi, env, frame):
        dom = EffDomain(self, frame)
        body = fi.node.body if not isinstance(fi.node, ast.Lambda) else None
        flow = Interp(dom).run(body, env)
        ret = frame.ret
        if flow.normal is not None:
            ret = vjoin(ret, Val(frozenset(), None))
        return ret if ret is not None else IMMV

    def call_repo(self, fi, argvals, kwvals, frame, node, self_val=None, closure_env=None, closure_frame=None):
        params = list(fi.params) if not isinstance(fi.node, ast.Lambda) else [a.arg for a in fi.node.args.args]
        env = {}
        pos = list(argvals)
        if self_val is not None:
            pos = [self_val] + pos
        for p, v in zip(params, pos):
            env[p] = v
        for k, v in kwvals.items():
            if k in params:
                env[k] = v
        defaults = fi.defaults if not isinstance(fi.node, ast.Lambda) else {}
        ann = getattr(fi, 'annotations', {}) or {}
        for p in list(env):
            if ann.get(p) in ('int', 'float', 'complex', 'bool', 'str') and env[p].locs:
                env[p] = Val(frozenset(), env[p].const)     # scalar by annotation
        for p in params:
            if p not in env:
                if p in defaults:
                    dframe = Frame(fi, frame.ctx)
                    env[p] = EffDomain(self, dframe).ev(defaults[p], {})
                else:
                    env[p] = IMMV
        key = (fi.qual if not isinstance(fi.node, ast.Lambda) else id(fi.node),
               tuple(env[p] for p in params), id(closure_env) if closure_env is not None else 0)
        if key in self.cache:
            return self.cache[key]
        if key in self.stack:
            return self.rec_summary.get(key, IMMV)
        if len(self.stack) > 40:
            raise AnalysisError(f'effects: call depth exceeded at {fi.qual}')
        sid = self.site(frame, node)
        ctx = frame.ctx if sid in frame.ctx else (frame.ctx + (sid,))[-4:]
        nf = Frame(fi, ctx, closure_env)
        self.stack.append(key)
        try:
            self.resolved_calls += 1
            self.called.add(fi.qual)
            if isinstance(fi.node, ast.Lambda):
                dom = EffDomain(self, nf)
                ret = dom.ev(fi.node.body, env)
            else:
                ret = self.run_body(fi, env, nf)
        finally:
            self.stack.pop()
        old = self.rec_summary.get(key)
        new = vjoin(old, ret)
        if old is None or new != old:
            self.rec_summary[key] = new
            if old is not None:
                self.changed = True
        self.cache[key] = new
        return new

    # ------------------------------------------------------------------
    # reachability
    def reachable(self, val, depth=6):
        seen = set()
        todo = [(l, 0) for l in val.locs]
        while todo:
            l, d = todo.pop()
            if l in seen:
                continue
            seen.add(l)
            if d >= depth or l.kind in ('callable',):
                continue
            nxt = set()
            for (ll, f), v in self.H.items():
                if ll is l:
                    nxt |= v
            if l.implicit:
                if l.kind == 'obj':
                    for f in CLASS_FIELDS.get(l.ty[1], {}):
                        nxt |= self.load(l, '.' + f)
                elif l.kind in ('list', 'dict', 'set', 'unk'):
                    nxt |= self.load(l, '[*]')
                elif l.kind == 'tuple':
                    for i in range(len(l.ty[1])):
                        nxt |= self.load(l, f'[{i}]')
            for n in nxt:
                todo.append((n, d + 1))
        return seen


class FakeFunc:
    """FuncInfo-like wrapper for lambdas / nested defs."""

    def __init__(self, node, outer):
        self.node = node
        self.module = outer.module
        self.cls = outer.cls
        self.qual = f'{outer.qual}.<{getattr(node, "name", "lambda")}@{node.lineno}>'
        self.name = getattr(node, 'name', '<lambda>')
        self.params = [a.arg for a in node.args.args]
        self.defaults = {}
        nd = len(node.args.defaults)
        for a, d in zip(node.args.args[len(node.args.args) - nd:], node.args.defaults):
            self.defaults[a.arg] = d
        self.annotations = {}
        self.is_classmethod = False
        self.is_property = False


# ======================================================================
class EffDomain(Domain):
    def __init__(self, eng, frame):
        self.eng = eng
        self.frame = frame

    # ---- state ----
    def copy(self, st):
        return dict(st)

    def join(self, a, b):
        out = {}
        for k in set(a) | set(b):
            va, vb = a.get(k), b.get(k)
            out[k] = vjoin(va, vb)
        return out

    def eq(self, a, b):
        return a == b

    # ---- names ----
    def lookup(self, name, st, node=None):
        if name in st:
            return st[name]
        env = self.frame.parent_env
        if env is not None and name in env:
            return env[name]
        eng = self.eng
        r = eng.repo.resolve_name(self.frame.fi.module, name)
        if r:
            if r[0] == 'func':
                return Val({eng.func_loc(r[1])})
            if r[0] == 'class':
                return Val({eng.class_loc(r[1])})
            if r[0] == 'ext':
                d = r[1]
                if d == 'numpy' or d.startswith('numpy.'):
                    d = 'np' + d[5:]
                return Val({eng.ext_loc(d)})
        if name in BUILTIN_IMM or name in BUILTIN_CONTAINER or name in ('range', 'enumerate', 'zip', 'map', 'filter', 'next',
                                                                            'sum', 'dict', 'super', 'object'):
            return Val({eng.ext_loc('builtins.' + name)})
        if name in ('True', 'False', 'None'):
            return Val(frozenset(), {'True': True, 'False': False, 'None': None}[name])
        # unbound name on this path (e.g. defined in another branch)
        return IMMV

    # ---- expressions ----
    def ev(self, e, st):
        eng = self.eng
        if isinstance(e, ast.Constant):
            return Val(frozenset(), e.value)
        if isinstance(e, ast.Name):
            return self.lookup(e.id, st, e)
        if isinstance(e, ast.Attribute):
            return self.ev_attr(e, st)
        if isinstance(e, ast.Subscript):
            return self.ev_subscript(e, st)
        if isinstance(e, ast.Call):
            return self.ev_call(e, st)
        if isinstance(e, (ast.List, ast.Tuple, ast.Set)):
            vals = [self.ev(x, st) for x in e.elts]
            if isinstance(e, ast.Tuple) and all(not v.locs for v in vals):
                if all(v.const is not NOCONST for v in vals):
                    return Val(frozenset(), tuple(v.const for v in vals))
                return IMMV
            kind = {ast.List: 'list', ast.Tuple: 'tuple', ast.Set: 'set'}[type(e)]
            ty = (kind, UNK) if kind != 'tuple' else ('tuple', tuple(UNK for _ in vals))
            l = eng.new(eng.site(self.frame, e), self.frame, ty, length=len(vals) if kind != 'set' else None)
            for i, v in enumerate(vals):
                if eng.lens.get(l) is not None:
                    eng.store(l, f'[{i}]', v)
                else:
                    eng.store(l, '[*]', v)
            return Val({l})
        if isinstance(e, ast.Dict):
            l = eng.new(eng.site(self.frame, e), self.frame, T_dict(UNK))
            for k, v in zip(e.keys, e.values):
                if k is not None:
                    self.ev(k, st)
                eng.store(l, '[*]', self.ev(v, st))
            return Val({l})
        if isinstance(e, (ast.ListComp, ast.SetComp, ast.GeneratorExp, ast.DictComp)):
            return self.ev_comp(e, st)
        if isinstance(e, ast.BinOp):
            return self.ev_binop(e, st)
        if isinstance(e, ast.UnaryOp):
            v = self.ev(e.operand, st)
            if isinstance(e.op, ast.Not):
                return Val(frozenset(), (not v.const) if v.const is not NOCONST and not v.locs else NOCONST)
            if v.const is not NOCONST and isinstance(v.const, (int, float, complex)) and not isinstance(v.const, bool):
                return Val(frozenset(), -v.const if isinstance(e.op, ast.USub) else v.const)
            if self._arrayish(v):
                return Val({eng.new(eng.site(self.frame, e), self.frame, ARR)})
            return IMMV
        if isinstance(e, ast.Compare):
            return self.ev_compare(e, st)
        if isinstance(e, ast.BoolOp):
            vals = [self.ev(x, st) for x in e.values]
            out = None
            for v in vals:
                out = vjoin(out, v)
            consts = [v.const for v in vals]
            if all(c is not NOCONST for c in consts) and not out.locs:
                r = consts[0]
                for c in consts[1:]:
                    r = (r and c) if isinstance(e.op, ast.And) else (r or c)
                return Val(frozenset(), r)
            if isinstance(e.op, ast.And) and any(c is not NOCONST and not c for c in consts):
                return Val(frozenset(), False)
            if isinstance(e.op, ast.Or) and any(c is not NOCONST and c is True for c in consts):
                return Val(frozenset(), True)
            return Val(out.locs)
        if isinstance(e, ast.IfExp):
            t = self.ev(e.test, st)
            if t.const is not NOCONST and not t.locs:
                return self.ev(e.body if t.const else e.orelse, st)
            return vjoin(self.ev(e.body, st), self.ev(e.orelse, st))
        if isinstance(e, ast.JoinedStr):
            for x in e.values:
                if isinstance(x, ast.FormattedValue):
                    self.ev(x.value, st)
            return IMMV
        if isinstance(e, ast.Lambda):
            return Val({eng.closure_loc(e, st, self.frame)})
        if isinstance(e, ast.Starred):
            return self.ev(e.value, st)
        if isinstance(e, ast.Slice):
            for x in (e.lower, e.upper, e.step):
                if x is not None:
                    self.ev(x, st)
            return IMMV
        raise AnalysisError(f'effects: unsupported expression {e.__class__.__name__} at '
                            f'{self.eng.where(self.frame, e)}')

    def _arrayish(self, v):
        return any(l.kind in ('arr', 'unk', 'seq') for l in v.locs)

    def _containerish(self, v):
        return [l for l in v.locs if l.kind in ('list', 'tuple', 'set', 'dict')]

    def ev_binop(self, e, st):
        eng = self.eng
        a = self.ev(e.left, st)
        b = self.ev(e.right, st)
        ca, cb = self._containerish(a), self._containerish(b)
        if ca or cb:
            # list + list, n * list, set & set ... : fresh container holding the operands' elements
            kind = (ca or cb)[0].kind
            l = eng.new(eng.site(self.frame, e), self.frame, (kind, UNK) if kind != 'tuple' else T_list(UNK))
            n = None
            if isinstance(e.op, ast.Add) and ca and cb and len(ca) == 1 and len(cb) == 1 and \
                    eng.lens.get(ca[0]) is not None and eng.lens.get(cb[0]) is not None:
                pass
            for c in ca + cb:
                eng.store(l, '[*]', Val(eng.elems(c)))
            return Val({l})
        if a.locs or b.locs:
            if self._arrayish(a) or self._arrayish(b) or any(l.kind == 'obj' for l in a.locs | b.locs):
                if any(l.kind == 'obj' for l in a.locs):
                    # operator overloading on repository classes (__add__, __sub__, __matmul__)
                    m = {ast.Add: '__add__', ast.Sub: '__sub__', ast.MatMult: '__matmul__', ast.Mult: '__mul__'}.get(type(e.op))
                    out = None
                    for l in a.locs:
                        if l.kind == 'obj' and l.ty[1] in eng.repo.classes and m in eng.repo.classes[l.ty[1]].methods:
                            fi = eng.repo.classes[l.ty[1]].methods[m]
                            out = vjoin(out, eng.call_repo(fi, [b], {}, self.frame, e, self_val=Val({l})))
                    if out is not None:
                        return out
                return Val({eng.new(eng.site(self.frame, e), self.frame, ARR)})
            return IMMV
        if a.const is not NOCONST and b.const is not NOCONST:
            try:
                op = type(e.op)
                x, y = a.const, b.const
                r = {ast.Add: lambda: x + y, ast.Sub: lambda: x - y, ast.Mult: lambda: x * y,
                     ast.FloorDiv: lambda: x // y, ast.Mod: lambda: x % y, ast.Div: lambda: x / y,
                     ast.Pow: lambda: x ** y if abs(y) < 64 else NOCONST}.get(op, lambda: NOCONST)()
                if isinstance(r, (int, float, str, bool, complex, tuple)) and (not isinstance(r, (str, tuple)) or len(r) < 64):
                    return Val(frozenset(), r)
            except Exception:
                pass
        return IMMV

    def ev_compare(self, e, st):
        vals = [self.ev(e.left, st)] + [self.ev(c, st) for c in e.comparators]
        if len(vals) == 2 and all(v.const is not NOCONST and not v.locs for v in vals):
            x, y = vals[0].const, vals[1].const
            op = e.ops[0]
            try:
                if isinstance(op, ast.Eq):
                    r = (x == y)
                elif isinstance(op, ast.NotEq):
                    r = (x != y)
                elif isinstance(op, ast.Lt):
                    r = x < y
                elif isinstance(op, ast.LtE):
                    r = x <= y
                elif isinstance(op, ast.Gt):
                    r = x > y
                elif isinstance(op, ast.GtE):
                    r = x >= y
                elif isinstance(op, ast.Is):
                    r = x is y
                elif isinstance(op, ast.IsNot):
                    r = x is not y
                elif isinstance(op, ast.In):
                    r = x in y
                elif isinstance(op, ast.NotIn):
                    r = x not in y
                else:
                    return IMMV
                return Val(frozenset(), bool(r))
            except Exception:
                return IMMV
        if len(vals) == 2 and isinstance(e.ops[0], (ast.Is, ast.IsNot)) and vals[1].const is None and not vals[1].locs:
            v = vals[0]
            if v.locs and v.const is NOCONST:
                return Val(frozenset(), isinstance(e.ops[0], ast.IsNot))
        return IMMV

    def ev_comp(self, e, st):
        eng = self.eng
        st2 = dict(st)
        for g in e.generators:
            it = self.ev(g.iter, st2)
            self.bind_target(g.target, self.iter_elems(it, g.iter), st2, e)
            for c in g.ifs:
                self.ev(c, st2)
        if isinstance(e, ast.DictComp):
            self.ev(e.key, st2)
            v = self.ev(e.value, st2)
            l = eng.new(eng.site(self.frame, e), self.frame, T_dict(UNK))
        else:
            v = self.ev(e.elt, st2)
            kind = 'set' if isinstance(e, ast.SetComp) else 'list'
            l = eng.new(eng.site(self.frame, e), self.frame, (kind, UNK))
        eng.store(l, '[*]', v)
        return Val({l})

    def iter_elems(self, v, node=None):
        out = set()
        for l in v.locs:
            out |= self.eng.elems(l)
        if v.const is not NOCONST and isinstance(v.const, tuple) and len(set(map(type, v.const))) == 1 and \
                len(set(v.const)) == 1:
            return Val(out, v.const[0])
        return Val(out)

    def ev_attr(self, e, st):
        eng = self.eng
        base = self.ev(e.value, st)
        out = set()
        const = NOCONST
        for l in base.locs:
            k = l.kind
            if k == 'obj':
                ci = eng.repo.classes.get(l.ty[1])
                if ci and e.attr in ci.methods:
                    m = ci.methods[e.attr]
                    if m.is_property:
                        r = eng.call_repo(m, [], {}, self.frame, e, self_val=Val({l}))
                        out |= r.locs
                        continue
                    out.add(eng.func_loc(m, Val({l})))
                    continue
                out |= eng.load(l, '.' + e.attr)
            elif k == 'callable':
                p = l.payload
                if p and p[0] == 'class':
                    ci = p[1]
                    if e.attr in ci.methods:
                        m = ci.methods[e.attr]
                        out.add(eng.func_loc(m, Val({l}) if m.is_classmethod else None))
                    elif e.attr in ci.class_attrs:
                        # class-level constant tables (dict of enums): immutable by convention
                        pass
                elif p and p[0] == 'ext':
                    out.add(eng.ext_loc(p[1] + '.' + e.attr))
                elif p and p[0] == 'func' and p[2] is not None:
                    pass
            elif k in ('arr', 'unk', 'seq'):
                if e.attr in ('T', 'real', 'imag', 'flat', 'base', 'mT'):
                    out.add(l)
                elif e.attr in ('shape', 'ndim', 'dtype', 'size', 'nbytes', 'itemsize', 'strides'):
                    pass
                elif k == 'unk' and e.attr in KNOWN_METHOD_NAMES:
                    out.add(eng.mkloc(('F', 'meth', l.root, l.path, e.attr), (), CALLABLE, False,
                                      payload=('method', l, e.attr)))
                elif k == 'unk':
                    out |= eng.load(l, '.' + e.attr)
                    ms = [fi for fi in eng.repo.funcs.values() if fi.cls and fi.name == e.attr]
                    for m in ms:
                        if m.is_property:
                            r = eng.call_repo(m, [], {}, self.frame, e, self_val=Val({l}))
                            out |= r.locs
                        else:
                            out.add(eng.func_loc(m, Val({l})))
                    out.add(eng.mkloc(('F', 'meth', l.root, l.path, e.attr), (), CALLABLE, False,
                                      payload=('method', l, e.attr)))
                else:
                    out.add(eng.mkloc(('F', 'meth', l.root, l.path, e.attr), (), CALLABLE, False,
                                      payload=('method', l, e.attr)))
            elif k in ('list', 'dict', 'set', 'tuple', 'rng'):
                out.add(eng.mkloc(('F', 'meth', l.root, l.path, e.attr), (), CALLABLE, False,
                                  payload=('method', l, e.attr)))
        if not base.locs and base.const is not NOCONST and isinstance(base.const, (int, float, complex)):
            pass
        return Val(out, const)

    def const_index(self, node, st):
        v = self.ev(node, st)
        if v.const is not NOCONST and isinstance(v.const, int) and not isinstance(v.const, bool) and not v.locs:
            return v.const
        return None

    def ev_subscript(self, e, st):
        eng = self.eng
        base = self.ev(e.value, st)
        if isinstance(e.value, ast.Name):
            rk = st.get('#rank:' + e.value.id)
            if rk is not None and rk.const is not NOCONST:
                idxs = e.slice.elts if isinstance(e.slice, ast.Tuple) else [e.slice]
                if len(idxs) == rk.const and not any(isinstance(x, ast.Slice) for x in idxs):
                    vs = [self.ev(x, st) for x in idxs]
                    if all(not v.locs for v in vs):
                        return IMMV      # full integer index of an array of known rank: a scalar
        is_slice = isinstance(e.slice, ast.Slice)
        idx = None
        idx_has_locs = False
        if not is_slice:
            if isinstance(e.slice, ast.Tuple):
                for x in e.slice.elts:
                    self.ev(x, st)
            else:
                iv = self.ev(e.slice, st)
                idx_has_locs = bool(iv.locs)
                if iv.const is not NOCONST and isinstance(iv.const, int) and not isinstance(iv.const, bool) and not iv.locs:
                    idx = iv.const
        else:
            self.ev(e.slice, st)
        out = set()
        for l in base.locs:
            k = l.kind
            if k in ('arr', 'rng'):
                out.add(l)
            elif k == 'seq':
                if is_slice or isinstance(e.slice, ast.Tuple) or idx_has_locs:
                    out.add(l)       # slice / fancy index: treated as a view; plain index: a scalar
            elif k in ('list', 'tuple') and is_slice:
                n = eng.new(eng.site(self.frame, e), self.frame, T_list(l.ty[1] if k == 'list' else UNK))
                eng.store(n, '[*]', Val(eng.elems(l)))
                out.add(n)
            elif k in ('list', 'tuple', 'dict', 'set'):
                out |= eng.elems(l, idx)
            elif k == 'unk':
                out.add(l)
                out |= eng.load(l, '[*]')
        if base.const is not NOCONST and isinstance(base.const, (tuple, str)) and idx is not None and not base.locs:
            try:
                return Val(frozenset(), base.const[idx])
            except Exception:
                pass
        return Val(out)

    # ---- calls ----
    def ev_call(self, e, st):
        eng = self.eng
        # receiver-sensitive evaluation for attribute calls
        fv = self.ev(e.func, st)
        args = [self.ev(a, st) for a in e.args]
        kwargs = {k.arg: self.ev(k.value, st) for k in e.keywords if k.arg is not None}
        for k in e.keywords:
            if k.arg is None:
                self.ev(k.value, st)
        if not fv.locs:
            # call of an unresolvable value (e.g. enum class defined locally) -> immutable result
            if isinstance(e.func, ast.Name) and e.func.id in st:
                return IMMV
            if isinstance(e.func, ast.Attribute):
                return self.method_on_imm(e, args)
            raise AnalysisError(f'effects: cannot resolve callee `{norm(e.func)}` at {eng.where(self.frame, e)}')
        out = None
        for f in fv.locs:
            if f.kind != 'callable':
                # calling an object: __call__ of repository classes
                if f.kind == 'obj' and f.ty[1] in eng.repo.classes and '__call__' in eng.repo.classes[f.ty[1]].methods:
                    m = eng.repo.classes[f.ty[1]].methods['__call__']
                    out = vjoin(out, eng.call_repo(m, args, kwargs, self.frame, e, self_val=Val({f})))
                elif f.kind in ('list', 'tuple') and f.implicit:
                    # a value documented as "sequence or callable returning a sequence" (AutOpEdge.opics)
                    eng.opaque_calls += 1
                    eng.assumed.add('A-callback: opaque callables do not write their arguments and return fresh values')
                    out = vjoin(out, self.fresh_container(e, 'list', IMMV))
                elif f.kind == 'unk':
                    eng.opaque_calls += 1
                    eng.assumed.add('A-callback: opaque callables do not write their arguments and return fresh values')
                    out = vjoin(out, Val({eng.new(eng.site(self.frame, e), self.frame, ARR)}))
                continue
            p = f.payload
            if p is None:
                # opaque callable parameter
                eng.opaque_calls += 1
                eng.assumed.add('A-callback: opaque callables do not write their arguments and return fresh values')
                out = vjoin(out, Val({eng.new(eng.site(self.frame, e), self.frame, ARR)}))
            elif p[0] == 'func':
                fi, selfv = p[1], p[2]
                out = vjoin(out, eng.call_repo(fi, args, kwargs, self.frame, e, self_val=selfv))
            elif p[0] == 'class':
                out = vjoin(out, self.instantiate(p[1], args, kwargs, e))
            elif p[0] == 'closure':
                node, cenv, cframe = p[1], p[2], p[3]
                ff = FakeFunc(node, cframe.fi)
                out = vjoin(out, eng.call_repo(ff, args, kwargs, self.frame, e, closure_env=cenv))
            elif p[0] == 'ext':
                eng.lib_calls += 1
                out = vjoin(out, self.call_ext(p[1], args, kwargs, e, st))
            elif p[0] == 'method':
                eng.lib_calls += 1
                out = vjoin(out, self.call_method(p[1], p[2], args, kwargs, e))
        return out if out is not None else IMMV

    def method_on_imm(self, e, args):
        # e.g. `x.conj()` on a scalar, `s.format()`, `T[0,0,0].real`
        return IMMV

    def instantiate(self, ci, args, kwargs, e):
        eng = self.eng
        if any(b in ('IntEnum', 'Enum') for b in ci.bases):
            return IMMV
        l = eng.new(eng.site(self.frame, e), self.frame, T_obj(ci.name))
        init = ci.methods.get('__init__')
        if init is not None:
            eng.call_repo(init, args, kwargs, self.frame, e, self_val=Val({l}))
        return Val({l})

    def fresh(self, e, ty=ARR, tag=''):
        return Val({self.eng.new(self.eng.site(self.frame, e) + tag, self.frame, ty)})

    def fresh_container(self, e, kind, elem_val, tag=''):
        l = self.eng.new(self.eng.site(self.frame, e) + tag, self.frame, (kind, UNK))
        self.eng.store(l, '[*]', elem_val)
        return Val({l})

    def call_ext(self, dotted, args, kwargs, e, st):
        eng = self.eng
        eng.ext_called.add(dotted)
        name = dotted.split('.')[-1]
        mod = dotted.split('.')[0]
        a0 = args[0] if args else IMMV
        if mod == 'builtins':
            if name == 'len':
                if len(a0.locs) == 1:
                    (l,) = a0.locs
                    n = eng.lens.get(l)
                    if n is not None:
                        return Val(frozenset(), n)
                return IMMV
            if name == 'isinstance':
                return self.fold_isinstance(e, args, st)
            if name in ('int', 'float', 'bool', 'str', 'abs') and a0.const is not NOCONST and not a0.locs:
                try:
                    return Val(frozenset(), {'int': int, 'float': float, 'bool': bool, 'str': str, 'abs': abs}[name](a0.const))
                except Exception:
                    return IMMV
            if name in ('min', 'max') and args and all(a.const is not NOCONST and not a.locs for a in args) and len(args) > 1:
                try:
                    return Val(frozenset(), (min if name == 'min' else max)(a.const for a in args))
                except Exception:
                    return IMMV
            if name in ('min', 'max'):
                # min/max over a container of objects returns one of them
                out = set()
                for a in args:
                    for l in a.locs:
                        out |= {x for x in eng.elems(l) if x.kind not in ('arr',)} if l.kind != 'arr' else set()
                return Val(out)
            if name == 'sum':
                if any(self._arrayish(Val(eng.elems(l))) or l.kind in ('arr', 'unk') for l in a0.locs):
                    return self.fresh(e)
                if len(args) > 1 and self._arrayish(args[1]):
                    return self.fresh(e)
                return IMMV
            if name in BUILTIN_IMM:
                return IMMV
            if name in BUILTIN_CONTAINER:
                kind = {'sorted': 'list', 'list': 'list', 'tuple': 'list', 'set': 'set', 'frozenset': 'set',
                        'reversed': 'list', 'iter': 'list'}[name]
                return self.fresh_container(e, kind, self.iter_elems(a0) if args else IMMV)
            if name == 'range':
                if args and all(a.const is not NOCONST and isinstance(a.const, int) and not a.locs for a in args):
                    try:
                        r = range(*[a.const for a in args])
                        if len(r) <= 64:
                            return Val(frozenset(), ('__range__', len(r)))
                    except Exception:
                        pass
                return IMMV
            if name == 'enumerate':
                t = eng.new(eng.site(self.frame, e) + 't', self.frame, ('tuple', (IMM, UNK)), length=2)
                eng.store(t, '[1]', self.iter_elems(a0))
                return self.fresh_container(e, 'list', Val({t}))
            if name == 'zip':
                t = eng.new(eng.site(self.frame, e) + 't', self.frame, ('tuple', tuple(UNK for _ in args)),
                            length=len(args))
                for i, a in enumerate(args):
                    eng.store(t, f'[{i}]', self.iter_elems(a))
                return self.fresh_container(e, 'list', Val({t}))
            if name == 'map' and e.args and norm(e.args[0]) in ('np.array', 'np.copy', 'numpy.array', 'numpy.copy'):
                # map(np.array, xs): every element is a fresh array
                t = eng.new(eng.site(self.frame, e) + 'm', self.frame, ARR)
                return self.fresh_container(e, 'list', Val({t}))
            if name in ('map', 'filter'):
                out = IMMV
                for a in args[1:]:
                    out = vjoin(out, self.iter_elems(a))
                return self.fresh_container(e, 'list', out)
            if name == 'dict':
                l = eng.new(eng.site(self.frame, e), self.frame, T_dict(UNK))
                if args:
                    for x in a0.locs:
                        eng.store(l, '[*]', Val(eng.elems(x)))
                for v in kwargs.values():
                    eng.store(l, '[*]', v)
                return Val({l})
            if name == 'next':
                # next(it[, default]): an element of the iterated container, or the default
                out = self.iter_elems(a0) if args else IMMV
                for a in args[1:]:
                    out = vjoin(out, a)
                return out
            if name in ('super', 'object'):
                return IMMV
        if dotted in ('copy.copy',):
            out = set()
            for l in a0.locs:
                n = eng.new(eng.site(self.frame, e), self.frame, l.ty)
                if l.kind == 'obj':
                    fields = set(CLASS_FIELDS.get(l.ty[1], {}))
                    fields |= {f[1:] for (ll, f) in eng.H if ll is l and f.startswith('.')}
                    for f in fields:
                        eng.store(n, '.' + f, Val(eng.load(l, '.' + f)))
                elif l.kind in ('list', 'dict', 'set', 'tuple', 'unk'):
                    eng.store(n, '[*]', Val(eng.elems(l) - {l}))
                out.add(n)
            return Val(out)
        if dotted in ('copy.deepcopy',):
            out = set()
            for l in a0.locs:
                out.add(eng.new(eng.site(self.frame, e), self.frame, l.ty, implicit=True))
            return Val(out)
        if dotted in ('itertools.chain', 'itertools.chain.from_iterable'):
            # the elements of the arguments (chain) / of the elements of the argument (from_iterable), in one sequence
            out = IMMV
            for a in args:
                el = self.iter_elems(a)
                out = vjoin(out, self.iter_elems(el) if dotted.endswith('from_iterable') else el)
            return self.fresh_container(e, 'list', out)
        if dotted.startswith('itertools.') or dotted in ('itertools',):
            out = IMMV
            for a in args:
                out = vjoin(out, self.iter_elems(a))
            if not out.locs:
                return IMMV
            t = eng.new(eng.site(self.frame, e) + 't', self.frame, T_list(UNK))
            eng.store(t, '[*]', Val(out.locs))
            return self.fresh_container(e, 'list', Val({t}))
        if dotted.startswith('warnings.'):
            return IMMV
        if dotted.startswith('queue.') or dotted == 'queue.Queue':
            return Val({eng.new(eng.site(self.frame, e), self.frame, T_list(UNK))})
        if mod in ('np', 'numpy', 'scipy', 'sparse'):
            return self.call_numpy(dotted, name, args, kwargs, e)
        if mod in ('collections', 'typing', 'enum'):
            return IMMV
        eng.assumed.add(f'unclassified external call {dotted}: assumed pure with a fresh result')
        return self.fresh(e)

    def call_numpy(self, dotted, name, args, kwargs, e):
        eng = self.eng
        a0 = args[0] if args else IMMV
        if 'out' in kwargs:
            for l in kwargs['out'].locs:
                eng.write(l, eng.where(self.frame, e) + f' ({dotted} out=)')
            return Val(kwargs['out'].locs)
        # scipy's overwrite_a / overwrite_b / overwrite_x: permission to destroy the argument (a view included)
        ow = [(k, v) for k, v in kwargs.items() if k.startswith('overwrite_') and v.const is not False]
        for k, _ in ow:
            pos = {'overwrite_a': 0, 'overwrite_x': 0, 'overwrite_b': 1}.get(k)
            if pos is not None and pos < len(args):
                for l in args[pos].locs:
                    eng.write(l, eng.where(self.frame, e) + f' ({dotted} {k}=True)')
        if dotted.startswith('np.random') or '.random.' in dotted:
            return self.fresh(e, RNG if name == 'default_rng' else ARR)
        if dotted.startswith('np.linalg.') or dotted.startswith('scipy.linalg.') or dotted.startswith('scipy.sparse.linalg'):
            if name in ('svd',):
                return self.fresh_tuple(e, 3)
            if name in ('qr', 'eigh', 'eig', 'eigh_tridiagonal', 'slogdet', 'lstsq', 'polar', 'schur', 'rq', 'lu'):
                return self.fresh_tuple(e, 2)
            if name in ('norm', 'det', 'cond', 'matrix_rank'):
                return IMMV
            return self.fresh(e)
        if dotted in ('scipy.linalg.eigh_tridiagonal', 'scipy.linalg.expm'):
            return self.fresh_tuple(e, 2) if name == 'eigh_tridiagonal' else self.fresh(e)
        if name in NP_MUTATE_ARG0 or dotted.endswith('.at'):
            for l in a0.locs:
                eng.write(l, eng.where(self.frame, e) + f' ({dotted})')
            return IMMV
        if name == 'einsum':
            # einsum in the interleaved form: a pure relabelling (no summed label) may return a view
            ops = [a for a in args if a.locs]
            sub = [a for a in e.args if isinstance(a, ast.Tuple)]
            if len(sub) >= 2:
                ins = [tuple(norm(x) for x in s.elts) for s in sub[:-1]]
                outl = tuple(norm(x) for x in sub[-1].elts)
                labels = [x for s in ins for x in s]
                if len(ins) == 1 and sorted(labels) == sorted(outl):
                    return Val(a0.locs)
            return self.fresh(e)
        if name == 'array' and 'copy' in kwargs and kwargs['copy'].const is False:
            return Val(a0.locs) if a0.locs else self.fresh(e)
        if name in NP_VIEW:
            if a0.locs:
                views = {l for l in a0.locs if l.kind in ('arr', 'unk', 'seq')}
                if views:
                    return Val(views)
            return self.fresh(e)
        if dotted in ('np.add.outer', 'np.multiply.outer', 'np.subtract.outer'):
            return self.fresh(e)
        if name == 'where' and len(args) == 1:
            return self.fresh_tuple(e, 1)
        if name in ('nonzero',):
            return self.fresh_tuple(e, 1)
        if name in ('csr_array', 'csc_array', 'csr_matrix', 'csc_matrix', 'coo_array', 'coo_matrix', 'hstack',
                    'vstack', 'identity', 'eye', 'kron', 'diags', 'lil_matrix', 'lil_array'):
            return self.fresh(e)
        if name in NP_FRESH:
            return self.fresh(e)
        eng.assumed.add(f'unclassified numpy/scipy function {dotted}: assumed pure with a fresh result')
        return self.fresh(e)

    def fresh_tuple(self, e, n):
        eng = self.eng
        t = eng.new(eng.site(self.frame, e) + 'T', self.frame, ('tuple', tuple(ARR for _ in range(n))), length=n)
        for i in range(n):
            eng.store(t, f'[{i}]', Val({eng.new(eng.site(self.frame, e) + f'#{i}', self.frame, ARR)}))
        return Val({t})

    def fold_isinstance(self, e, args, st):
        eng = self.eng
        if len(e.args) != 2:
            return IMMV
        v = args[0]
        tnode = e.args[1]
        names = [norm(x) for x in (tnode.elts if isinstance(tnode, ast.Tuple) else [tnode])]
        if v.const is not NOCONST and not v.locs:
            m = {'int': int, 'float': float, 'complex': complex, 'str': str, 'bool': bool}
            if all(n in m for n in names):
                return Val(frozenset(), isinstance(v.const, tuple(m[n] for n in names)))
            return IMMV
        if v.locs and all(l.kind == 'obj' for l in v.locs) and all(n in eng.repo.classes for n in names):
            if all(l.ty[1] in names for l in v.locs):
                return Val(frozenset(), True)
            if all(l.ty[1] not in names for l in v.locs):
                return Val(frozenset(), False)
        if v.locs and all(l.kind in ('arr', 'list', 'dict', 'set', 'tuple') for l in v.locs) and \
                all(n in ('int', 'float', 'complex', 'str') for n in names):
            return Val(frozenset(), False)
        return IMMV

    def call_method(self, recv, name, args, kwargs, e):
        """builtin method `name` on receiver location `recv`"""
        eng = self.eng
        k = recv.kind
        w = eng.where(self.frame, e) + f' (.{name})'
        a0 = args[0] if args else IMMV
        if k == 'rng':
            return self.fresh(e)
        results = None
        if k in ('arr', 'unk', 'seq'):
            if name in ARR_METHOD_VIEW:
                results = vjoin(results, Val({recv}))
            elif name in ARR_METHOD_MUTATE:
                eng.write(recv, w)
                results = vjoin(results, IMMV)
            elif name in ARR_METHOD_FRESH:
                if name in ('tolist',):
                    results = vjoin(results, self.fresh_container(e, 'list', IMMV))
                elif name in ('item', 'all', 'any', 'trace', 'tobytes'):
                    results = vjoin(results, IMMV)
                else:
                    results = vjoin(results, self.fresh(e))
            elif k == 'seq' and name in CONTAINER_METHOD_PURE_IMM:
                results = vjoin(results, IMMV)
            elif k in ('arr', 'seq'):
                eng.assumed.add(f'unclassified ndarray method .{name}: assumed pure with a fresh result')
                results = vjoin(results, self.fresh(e))
        if k in ('list', 'dict', 'set', 'tuple', 'unk'):
            if name in LIST_METHOD_MUTATE:
                eng.write(recv, w)
                eng.mutate_len(recv)
                if name in LIST_METHOD_MUTATE_STORE:
                    for i, a in enumerate(args):
                        if name in ('extend', 'update', 'difference_update', 'intersection_update',
                                    'symmetric_difference_update'):
                            eng.store(recv, '[*]', self.iter_elems(a))
                            if recv.kind == 'dict':
                                for l in a.locs:
                                    eng.store(recv, '[*]', Val(eng.elems(l)))
                        elif name in ('insert', 'setdefault') and i == 0:
                            continue
                        else:
                            eng.store(recv, '[*]', a)
                if name in ('pop', 'setdefault', 'popitem', 'get_nowait'):
                    results = vjoin(results, Val(eng.elems(recv) - {recv}))
                else:
                    results = vjoin(results, IMMV)
            elif name == 'get' and k == 'list':
                # queue.Queue.get
                eng.write(recv, w)
                results = vjoin(results, Val(eng.elems(recv)))
            elif name in CONTAINER_METHOD_PURE_ELEMS:
                el = Val(eng.elems(recv) - {recv})
                if name in ('get',):
                    r = el
                    if len(args) > 1:
                        r = vjoin(r, args[1])
                    results = vjoin(results, r)
                elif name == 'items':
                    t = eng.new(eng.site(self.frame, e) + 't', self.frame, ('tuple', (IMM, UNK)), length=2)
                    eng.store(t, '[1]', el)
                    results = vjoin(results, self.fresh_container(e, 'list', Val({t})))
                elif name == 'keys':
                    results = vjoin(results, self.fresh_container(e, 'set', IMMV))
                else:
                    extra = IMMV
                    for a in args:
                        extra = vjoin(extra, self.iter_elems(a))
                    results = vjoin(results, self.fresh_container(e, recv.kind if recv.kind in ('list', 'set', 'dict') else 'list',
                                                                  vjoin(el, extra)))
            elif name in CONTAINER_METHOD_PURE_IMM:
                results = vjoin(results, IMMV)
            elif k != 'unk':
                raise AnalysisError(f'effects: method .{name} on a {k} is not classified ({w})')
        if results is None:
            if k == 'unk':
                eng.assumed.add(f'unclassified method .{name} on an untyped value: assumed pure with a fresh result')
                return self.fresh(e)
            return IMMV
        return results

    # ---- statements ----
    def bind_target(self, t, val, st, node):
        eng = self.eng
        if isinstance(t, ast.Name):
            st[t.id] = val
            st.pop('#rank:' + t.id, None)
        elif isinstance(t, (ast.Tuple, ast.List)):
            n = len(t.elts)
            for i, x in enumerate(t.elts):
                self.bind_target(x, self.unpack(val, i, n), st, node)
        elif isinstance(t, ast.Attribute):
            base = self.ev(t.value, st)
            w = eng.where(self.frame, node) + f' (store .{t.attr})'
            for l in base.locs:
                if l.kind in ('obj', 'unk'):
                    eng.store(l, '.' + t.attr, val)
                    eng.write(l, w)
                elif l.kind in ('arr', 'seq'):
                    eng.write(l, w)     # e.g. `A0.shape = ...`
        elif isinstance(t, ast.Subscript):
            base = self.ev(t.value, st)
            idx = None
            if isinstance(t.slice, ast.Slice):
                self.ev(t.slice, st)
            elif isinstance(t.slice, ast.Tuple):
                for x in t.slice.elts:
                    self.ev(x, st)
            else:
                idx = self.const_index(t.slice, st)
            w = eng.where(self.frame, node) + ' (subscript store)'
            for l in base.locs:
                if l.kind in ('arr', 'seq'):
                    eng.write(l, w)                # element store copies values
                elif l.kind in ('list', 'dict', 'tuple', 'set'):
                    eng.write(l, w)
                    if isinstance(t.slice, ast.Slice):
                        eng.store(l, '[*]', self.iter_elems(val))
                        eng.mutate_len(l)
                    else:
                        eng.store_elem(l, idx, val)
                        if l.kind == 'dict':
                            eng.mutate_len(l)
                elif l.kind == 'unk':
                    eng.write(l, w)
                    eng.store(l, '[*]', val)
        elif isinstance(t, ast.Starred):
            self.bind_target(t.value, val, st, node)
        else:
            raise AnalysisError(f'effects: unsupported assignment target {t.__class__.__name__}')

    def unpack(self, val, i, n):
        eng = self.eng
        out = set()
        for l in val.locs:
            if l.kind in ('tuple', 'list'):
                if eng.lens.get(l) == n:
                    out |= eng.elems(l, i)
                else:
                    out |= eng.elems(l)
            elif l.kind in ('arr', 'unk', 'rng', 'seq'):
                out |= eng.elems(l)
            elif l.kind in ('dict', 'set'):
                out |= eng.elems(l)
        c = NOCONST
        if val.const is not NOCONST and isinstance(val.const, tuple) and len(val.const) == n and not val.locs:
            c = val.const[i]
        return Val(out, c)

    def stmt(self, node, st):
        eng = self.eng
        st = dict(st)
        if isinstance(node, ast.Assign):
            if len(node.targets) == 1 and isinstance(node.targets[0], (ast.Tuple, ast.List)) and \
                    isinstance(node.value, (ast.Tuple, ast.List)) and \
                    len(node.value.elts) == len(node.targets[0].elts):
                vals = [self.ev(v, st) for v in node.value.elts]
                for t, v in zip(node.targets[0].elts, vals):
                    self.bind_target(t, v, st, node)
                return st
            v = self.ev(node.value, st)
            for t in node.targets:
                self.bind_target(t, v, st, node)
            return st
        if isinstance(node, ast.AnnAssign):
            if node.value is not None:
                self.bind_target(node.target, self.ev(node.value, st), st, node)
            return st
        if isinstance(node, ast.AugAssign):
            v = self.ev(node.value, st)
            t = node.target
            w = eng.where(self.frame, node) + ' (augmented assignment)'
            if isinstance(t, ast.Name):
                cur = self.lookup(t.id, st)
                if cur.locs:
                    for l in cur.locs:
                        eng.write(l, w)
                        if l.kind in ('list', 'set', 'dict', 'unk'):
                            eng.store(l, '[*]', self.iter_elems(v))
                            eng.mutate_len(l)
                    st[t.id] = Val(cur.locs)
                else:
                    if cur.const is not NOCONST and v.const is not NOCONST and not v.locs:
                        fake = ast.BinOp(left=ast.Constant(cur.const), op=node.op, right=ast.Constant(v.const))
                        ast.copy_location(fake, node)
                        ast.fix_missing_locations(fake)
                        st[t.id] = self.ev_binop(fake, st)
                    elif v.locs and self._arrayish(v):
                        st[t.id] = self.fresh(node)
                    else:
                        st[t.id] = IMMV
            elif isinstance(t, ast.Subscript):
                base = self.ev(t.value, st)
                if isinstance(t.slice, ast.Tuple):
                    for x in t.slice.elts:
                        self.ev(x, st)
                    idx = None
                elif isinstance(t.slice, ast.Slice):
                    self.ev(t.slice, st)
                    idx = None
                else:
                    idx = self.const_index(t.slice, st)
                for l in base.locs:
                    eng.write(l, w)
                    if l.kind in ('list', 'dict', 'tuple', 'unk'):
                        for el in eng.elems(l, idx):
                            if el is not l:
                                eng.write(el, w)       # in-place operator on the element
                                if el.kind in ('list', 'set'):
                                    eng.store(el, '[*]', self.iter_elems(v))
            elif isinstance(t, ast.Attribute):
                base = self.ev(t.value, st)
                for l in base.locs:
                    eng.write(l, w)
                    for el in eng.load(l, '.' + t.attr):
                        eng.write(el, w)
                        if el.kind in ('list', 'set'):
                            eng.store(el, '[*]', self.iter_elems(v))
            return st
        if isinstance(node, ast.Expr):
            self.ev(node.value, st)
            return st
        if isinstance(node, ast.Assert):
            self.note_ranks(node.test, st)
            t = self.ev(node.test, st)
            if node.msg is not None:
                self.ev(node.msg, st)
            if t.const is not NOCONST and not t.locs and not t.const:
                return None
            return self.refine(node.test, st, True)
        if isinstance(node, ast.Delete):
            for t in node.targets:
                if isinstance(t, ast.Subscript):
                    base = self.ev(t.value, st)
                    for l in base.locs:
                        eng.write(l, eng.where(self.frame, node) + ' (del)')
                        eng.mutate_len(l)
                elif isinstance(t, ast.Name):
                    st.pop(t.id, None)
            return st
        if isinstance(node, ast.FunctionDef):
            st[node.name] = Val({eng.closure_loc(node, st, self.frame)})
            return st
        if isinstance(node, ast.ClassDef):
            st[node.name] = IMMV
            return st
        if isinstance(node, (ast.Pass, ast.Import, ast.ImportFrom)):
            return st
        raise AnalysisError(f'effects: unsupported statement {node.__class__.__name__} at '
                            f'{eng.where(self.frame, node)}')

    def note_ranks(self, test, st):
        """`assert X.shape == (a, b)` / `assert X.ndim == n` / `assert len(s) == n` (s = X.shape): remember the
        rank of X so that a full integer index is known to produce a scalar, not a view."""
        if isinstance(test, ast.BoolOp) and isinstance(test.op, ast.And):
            for v in test.values:
                self.note_ranks(v, st)
            return
        if isinstance(test, ast.Compare) and len(test.ops) == 1 and isinstance(test.ops[0], ast.Eq):
            l, r = test.left, test.comparators[0]
            if isinstance(l, ast.Attribute) and isinstance(l.value, ast.Name):
                if l.attr == 'shape' and isinstance(r, ast.Tuple):
                    st['#rank:' + l.value.id] = Val(frozenset(), len(r.elts))
                elif l.attr == 'ndim' and isinstance(r, ast.Constant) and isinstance(r.value, int):
                    st['#rank:' + l.value.id] = Val(frozenset(), r.value)

    def refine(self, test, st, truth):
        """very small refinement: `x is None` / `x is not None` / isinstance on a name"""
        if isinstance(test, ast.Compare) and len(test.ops) == 1 and isinstance(test.left, ast.Name) and \
                isinstance(test.comparators[0], ast.Constant) and test.comparators[0].value is None:
            isnone = isinstance(test.ops[0], ast.Is)
            if isinstance(test.ops[0], (ast.Is, ast.IsNot)):
                v = self.lookup(test.left.id, st)
                st = dict(st)
                if isnone == truth:
                    st[test.left.id] = Val(frozenset(), None)
                else:
                    st[test.left.id] = Val(v.locs, NOCONST if v.const is None else v.const)
        return st

    def branch(self, test, st):
        t = self.ev(test, st)
        if t.const is not NOCONST and not t.locs:
            return (dict(st), None) if t.const else (None, dict(st))
        if len(t.locs) > 0 and t.const is NOCONST and all(l.kind in ('obj',) for l in t.locs):
            return dict(st), None
        # emptiness of containers with known length
        if len(t.locs) == 1:
            (l,) = t.locs
            n = self.eng.lens.get(l)
            if n is not None and l.kind in ('list', 'tuple'):
                return (dict(st), None) if n > 0 else (None, dict(st))
        return self.refine(test, st, True), self.refine(test, st, False)

    def loop_bind(self, node, st):
        st = dict(st)
        it = self.ev(node.iter, st)
        self.bind_target(node.target, self.iter_elems(it, node.iter), st, node)
        return st

    def loop_nonempty(self, node, st):
        it = self.ev(node.iter, st)
        if not it.locs and isinstance(it.const, tuple):
            if len(it.const) == 2 and it.const[0] == '__range__':
                return it.const[1] > 0
            return len(it.const) > 0
        if len(it.locs) == 1:
            (l,) = it.locs
            n = self.eng.lens.get(l)
            if n is not None and n > 0:
                return True
        return False

    def on_return(self, node, st):
        v = self.ev(node.value, st) if node.value is not None else Val(frozenset(), None)
        self.frame.ret = vjoin(self.frame.ret, v)
        return st

    def on_raise(self, node, st):
        if node.exc is not None:
            self.ev(node.exc, st)
        return st
