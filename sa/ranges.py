"""Index-range reasoning: loop-nest contexts as conjunctions of affine inequalities, entailment by Fourier-Motzkin.

Used by C07.R4: every key with which a node family is addressed lies in the range for which the family was created,
for every L of the documented domain (h = L // 2 is a symbol with 2h <= L <= 2h + 1).
"""
import ast
import copy
from fractions import Fraction

from .affine import Affine, try_affine
from .loader import norm, AnalysisError

H = 'L//2'


def h_facts():
    Ls, hs = Affine.sym('L'), Affine.sym(H)
    return [Ls - hs.scale(2), hs.scale(2) + Affine.const(1) - Ls]


def is_floor_sym(s):
    return '//' in s


def floor_facts(syms):
    """for every symbol of the form `<affine>//k`:  k*s <= <affine> <= k*s + k - 1"""
    out = []
    for s in syms:
        if not is_floor_sym(s):
            continue
        try:
            e = ast.parse(s, mode='eval').body
        except SyntaxError:
            continue
        if isinstance(e, ast.BinOp) and isinstance(e.op, ast.FloorDiv) and isinstance(e.right, ast.Constant) and \
                isinstance(e.right.value, int) and e.right.value > 0:
            num = try_affine(e.left)
            k = e.right.value
            if num is not None:
                sv = Affine.sym(s)
                out.append(num - sv.scale(k))
                out.append(sv.scale(k) + Affine.const(k - 1) - num)
    return out


# ----------------------------------------------------------------------
def _fm_infeasible(cons, max_rows=4000):
    """cons: list of Affine meaning e >= 0.  True if the system has no rational solution (Fourier-Motzkin)."""
    rows = []
    for c in cons:
        rows.append((dict(c.t), c.c))
    syms = sorted({s for t, _ in rows for s in t})
    for x in syms:
        pos, neg, rest = [], [], []
        for t, c in rows:
            a = t.get(x, 0)
            if a > 0:
                pos.append((t, c, a))
            elif a < 0:
                neg.append((t, c, a))
            else:
                rest.append((t, c))
        new = list(rest)
        for tp, cp, ap in pos:
            for tn, cn, an in neg:
                # ap*x + ... >= 0 ; an*x + ... >= 0 (an < 0): combine with multipliers (-an), ap
                t = {}
                for k in set(tp) | set(tn):
                    if k == x:
                        continue
                    v = tp.get(k, 0) * (-an) + tn.get(k, 0) * ap
                    if v != 0:
                        t[k] = v
                c = cp * (-an) + cn * ap
                new.append((t, c))
        # prune: constant rows and duplicates
        seen = set()
        rows = []
        for t, c in new:
            if not t:
                if c < 0:
                    return True
                continue
            # normalise by the first coefficient's absolute value
            k0 = sorted(t)[0]
            s = abs(t[k0])
            key = (tuple(sorted((k, Fraction(v) / s) for k, v in t.items())), Fraction(c) / s)
            if key in seen:
                continue
            seen.add(key)
            rows.append((t, c))
        if len(rows) > max_rows:
            return False        # give up: not proved
    for t, c in rows:
        if not t and c < 0:
            return True
    return False


def entails(facts, goal):
    """facts (list of Affine >= 0) |= goal >= 0 ?  (integers: the negation of goal >= 0 is goal <= -1)"""
    neg = -goal - Affine.const(1)
    allsyms = set(neg.syms())
    for f in facts:
        allsyms |= f.syms()
    facts = list(facts) + floor_facts(allsyms)
    rel = relevant(facts, neg)
    return _fm_infeasible(rel + [neg])


def relevant(facts, e):
    syms = set(e.syms())
    out = []
    changed = True
    while changed:
        changed = False
        for f in facts:
            if f in out:
                continue
            if not f.syms():
                continue
            if f.syms() & syms:
                out.append(f)
                syms |= f.syms()
                changed = True
    return out


# ----------------------------------------------------------------------
class Ctx:
    def __init__(self, cons=None, atoms=None, vars_=None):
        self.cons = list(cons or [])
        self.atoms = list(atoms or [])       # opaque guard texts known to hold
        self.vars = list(vars_ or [])

    def ext(self, cons=(), atoms=(), vars_=()):
        return Ctx(self.cons + list(cons), self.atoms + list(atoms), self.vars + list(vars_))


def aff(e, env=None):
    a = try_affine(e, env or {})
    return a


def range_bounds(call):
    """range(a, b) / range(b) -> (list of lower-bound exprs, list of (upper-bound expr, offset -1)) handling max/min"""
    args = call.args
    lo_e = [ast.Constant(0)] if len(args) == 1 else [args[0]]
    hi_e = [args[0]] if len(args) == 1 else [args[1]]

    def split(e, fn):
        # max(a, b) + c as lower bound -> [a + c, b + c]; min(a, b) + c as upper bound likewise
        c = 0
        base = e
        while isinstance(base, ast.BinOp) and isinstance(base.op, (ast.Add, ast.Sub)) and isinstance(base.right, ast.Constant) \
                and isinstance(base.right.value, int):
            c += base.right.value if isinstance(base.op, ast.Add) else -base.right.value
            base = base.left
        if isinstance(base, ast.Call) and isinstance(base.func, ast.Name) and base.func.id == fn:
            return [(a, c) for a in base.args]
        return [(e, 0)]
    return [x for e in lo_e for x in split(e, 'max')], [x for e in hi_e for x in split(e, 'min')]


def loop_constraints(node, env):
    """constraints contributed by `for target in iter` ; returns (cons, vars) or raises"""
    it = node.iter
    cons, vs = [], []

    def one(var, rng):
        los, his = range_bounds(rng)
        v = Affine.sym(var)
        for e, c in los:
            a = aff(e, env)
            if a is None:
                raise AnalysisError(f'loop bound `{norm(e)}` is not affine')
            cons.append(v - a - Affine.const(c))
        for e, c in his:
            a = aff(e, env)
            if a is None:
                raise AnalysisError(f'loop bound `{norm(e)}` is not affine')
            cons.append(a + Affine.const(c) - Affine.const(1) - v)
        vs.append(var)
    if isinstance(it, ast.Call) and norm(it.func) == 'range' and isinstance(node.target, ast.Name):
        one(node.target.id, it)
        return cons, vs
    if isinstance(it, ast.Call) and norm(it.func) == 'itertools.product' and isinstance(node.target, ast.Tuple) and \
            len(it.args) == len(node.target.elts):
        for t, a in zip(node.target.elts, it.args):
            if not isinstance(t, ast.Name):
                raise AnalysisError('loop target not a name')
            if isinstance(a, ast.Call) and norm(a.func) == 'range':
                one(t.id, a)
            elif isinstance(a, ast.Tuple) and all(isinstance(x, ast.Constant) and isinstance(x.value, int) for x in a.elts):
                vals = [x.value for x in a.elts]
                v = Affine.sym(t.id)
                cons.append(v - Affine.const(min(vals)))
                cons.append(Affine.const(max(vals)) - v)
                vs.append(t.id)
            else:
                raise AnalysisError(f'product factor `{norm(a)}` not recognised')
        return cons, vs
    raise AnalysisError(f'loop `{norm(it)[:60]}` not recognised')


def cond_constraints(test, truth, env):
    """affine constraints / atoms implied by test being `truth`"""
    if isinstance(test, ast.BoolOp) and isinstance(test.op, ast.And) and truth:
        cons, atoms = [], []
        for v in test.values:
            c, a = cond_constraints(v, True, env)
            cons += c
            atoms += a
        return cons, atoms
    if isinstance(test, ast.Compare) and len(test.ops) == 1:
        l, r = test.left, test.comparators[0]
        if not isinstance(l, ast.Tuple) and not isinstance(r, ast.Tuple):
            a, b = aff(l, env), aff(r, env)
            if a is not None and b is not None:
                op = type(test.ops[0])
                one = Affine.const(1)
                table = {
                    (ast.Lt, True): [b - a - one], (ast.Lt, False): [a - b],
                    (ast.LtE, True): [b - a], (ast.LtE, False): [a - b - one],
                    (ast.Gt, True): [a - b - one], (ast.Gt, False): [b - a],
                    (ast.GtE, True): [a - b], (ast.GtE, False): [b - a - one],
                    (ast.Eq, True): [a - b, b - a],
                }
                if (op, truth) in table:
                    return table[(op, truth)], []
                if op is ast.Eq and not truth:
                    return [], [f'NE|{a - b}']
                if op is ast.NotEq:
                    return ([a - b, b - a], []) if not truth else ([], [f'NE|{a - b}'])
    return [], [('T|' if truth else 'F|') + norm(test)]


def tighten(ctx):
    """x >= y together with x != y gives x >= y + 1"""
    extra = []
    for at in ctx.atoms:
        if at.startswith('NE|'):
            for c in ctx.cons:
                if str(c) == at[3:]:
                    extra.append(c - Affine.const(1))
                if str(-c) == at[3:]:
                    extra.append(c - Affine.const(1))
    ctx.cons += extra
    return ctx


class _Subst(ast.NodeTransformer):
    def __init__(self, m):
        self.m = m

    def visit_Name(self, node):
        if node.id in self.m:
            return copy.deepcopy(self.m[node.id])
        return node


def subst_text(text_node, mapping):
    return norm(_Subst(mapping).visit(copy.deepcopy(text_node)))
