#!/usr/bin/env python3
"""Differential validation of the load-time normalisation (sa/inline.py, sa/normal.py) - a test of the MACHINERY, not a
property check (no verdict about pytenet is derived from it).

Every rule reads the normalised syntax trees.  The normalisation claims to be behaviour preserving; a bug in it yields
wrong verdicts (one was found this way of thinking: a list display substituted for a formal parameter, DESIGN.md 15).
For every kept patch - the behaviour-preserving ones under benign/ (with their equivalence script) and the seeded ones
under seeded/ (with their demonstration) - this tool

  1. applies the patch to a scratch copy of /repo/pytenet,
  2. runs the script against that copy,
  3. writes the NORMALISED modules (ast.unparse of what the rules read) over a second scratch copy and runs the script
     again,
  4. compares: identical digest lines for benign patches, identical exit status (zero / non-zero) for seeded ones.

Usage: tools/normcheck.py [-j N] [name ...]        (names like benign/mps2-1, seeded/C06-8; default: all)
"""
import ast
import os
import re
import shutil
import subprocess
import sys
import tempfile
from concurrent.futures import ProcessPoolExecutor

VERIF = os.path.dirname(os.path.dirname(os.path.abspath(__file__)))
PY = '/venv/bin/python'
sys.path.insert(0, VERIF)


def run_script(script, cwd):
    env = dict(os.environ, PYTHONDONTWRITEBYTECODE='1', OMP_NUM_THREADS='2', OPENBLAS_NUM_THREADS='2')
    env.pop('PYTHONPATH', None)
    # scripts of the sub-agents may name their own (long gone) scratch worktree: point them at this copy
    txt = open(script).read()
    txt = re.sub(r'/tmp/(?:benign\d*|seed\d*)/[A-Za-z0-9_]+', cwd, txt)
    local = os.path.join(cwd, '_script.py')
    with open(local, 'w') as f:
        f.write(txt)
    r = subprocess.run([PY, local], cwd=cwd, env=env, capture_output=True, text=True, timeout=3600)
    out = r.stdout + r.stderr
    dig = re.findall(r'\b[0-9a-f]{32,}\b', out)
    return r.returncode, dig[-3:], out[-300:]


def one(name):
    d = os.path.join(VERIF, name)
    patch = os.path.join(d, 'patch.diff')
    script = os.path.join(d, 'equiv.py' if name.startswith('benign') else 'demo.py')
    if not (os.path.exists(patch) and os.path.exists(script)):
        return name, 'skipped', 'no script'
    base = tempfile.mkdtemp(prefix='normcheck_')
    try:
        a, b = os.path.join(base, 'a'), os.path.join(base, 'b')
        for x in (a, b):
            os.makedirs(x)
            shutil.copytree('/repo/pytenet', os.path.join(x, 'pytenet'))
            r = subprocess.run(['git', 'apply', patch], cwd=x, capture_output=True, text=True)
            if r.returncode != 0:
                return name, 'error', 'patch does not apply'
        # normalised sources over copy b
        from sa.loader import Repo
        os.environ['SA_NORMALISE'] = '1'
        repo = Repo(b)
        changed = []
        for mod in repo.modules.values():
            new = ast.unparse(mod.tree)
            old = ast.unparse(ast.parse(mod.source))
            if new != old:
                changed.append(mod.name)
                with open(os.path.join(b, 'pytenet', mod.name + '.py'), 'w') as f:
                    f.write(new + '\n')
        if not changed:
            return name, 'identity', 'normalisation leaves the patched tree unchanged'
        ra = run_script(script, a)
        rb = run_script(script, b)
        if name.startswith('benign'):
            ok = ra[0] == rb[0] == 0 and ra[1] == rb[1] and ra[1]
        else:
            ok = (ra[0] == 0) == (rb[0] == 0)
        return name, 'ok' if ok else 'MISMATCH', f'modules {changed}: plain exit {ra[0]} {ra[1][-1:]}, normalised exit {rb[0]} {rb[1][-1:]}' + \
            ('' if ok else f' | {rb[2]}')
    except Exception as ex:                                 # noqa
        return name, 'error', repr(ex)[:300]
    finally:
        shutil.rmtree(base, ignore_errors=True)


def main():
    args = sys.argv[1:]
    jobs = 8
    if '-j' in args:
        k = args.index('-j')
        jobs = int(args[k + 1])
        del args[k:k + 2]
    names = args or sorted(f'{k}/{x}' for k in ('benign', 'seeded') for x in os.listdir(os.path.join(VERIF, k))
                           if os.path.isdir(os.path.join(VERIF, k, x)))
    bad = 0
    counts = {}
    with ProcessPoolExecutor(jobs) as ex:
        for name, status, detail in ex.map(one, names):
            counts[status] = counts.get(status, 0) + 1
            if status not in ('identity',):
                print(f'{status:9s} {name}: {detail}')
            if status in ('MISMATCH', 'error'):
                bad += 1
    print(counts)
    return 1 if bad else 0


if __name__ == '__main__':
    sys.exit(main())
