"""C03 - MPS/MPO arithmetic vs. dense linear algebra (structural part)."""
import ast

from ..loader import norm, AnalysisError
from . import arith
from .C12 import split_tensor_rules
from .common import where


def run(chk, repo, tier):
    chk.rule('C03.R1', 'products: leg order / grouping of apply_operator and multiply_mpo (operator in-leg meets the state / '
                       'right operand, bond legs merged operator-first) and the matching label order')
    chk.rule('C03.R2', 'sums: block layout (first operand first along both bonds, physical axes untouched, zero blocks of '
                       'the right shapes), labels concatenated in the same order, alpha applied exactly once per chain in '
                       'the L == 1 and L > 1 branches')
    chk.rule('C03.R3', 'merging: physical legs merged left site first; split followed by merge reproduces the input layout '
                       'for every singular-value distribution (total exponent 1)')
    chk.rule('C03.R4', 'site-major ordering: site 0 is the most significant digit in as_vector, dense as_matrix, '
                       'OpChain.as_matrix, graph and tree contractions')
    n1 = arith.product_rules(chk, repo, 'C03.R1')
    n2 = arith.sum_rules(chk, repo, 'C03.R2')
    n3 = arith.merge_rules(chk, repo, 'C03.R3')
    n3 += split_tensor_rules(chk, repo, 'C03.R3')
    n4 = arith.ordering_rules(chk, repo, 'C03.R4')
    chk.rule('C03.R5', 'independence of site data: no list of site tensors / labels is built by repeating one mutable array; block '
                       'arrays of sums can hold the entries of both operands (dtype not taken from one operand)')
    n5 = arith.aliasing_rules(chk, repo, 'C03.R5') + arith.sum_dtype_rule(chk, repo, 'C03.R5')
    chk.floor('C03.R5', n5, 3)
    chk.rule('C03.R6', '(multi)linearity of the exact conversions and of the arithmetic: in as_vector, as_matrix (dense and sparse '
                       'path), identity, the sums, products, application and merges the entries of the site tensors are moved, '
                       'multiplied and added but never inspected - no comparison, magnitude, rounding, pruning or dtype test has a '
                       'tensor-valued operand (value taint from `.A` / `.data` / array parameters; shapes are not values)')
    n6 = arith.linearity_rules(chk, repo, 'C03.R6')
    chk.floor('C03.R6', n6, 12, hard_min=8)
    from . import support
    support.storage_type_rules(chk, repo, 'C03.R7', {'mps', 'mpo'})
    chk.floor('C03.R1', n1, 7)
    chk.floor('C03.R2', n2, 14)
    chk.floor('C03.R3', n3, 20)
    chk.floor('C03.R4', n4, 5)
    from . import qnrules
    qnrules.qnumber_rules(chk, repo, 'C03.R8')
    chk.undecided += ['dense equality up to rounding', 'the index arithmetic of the sparse as_matrix path (scipy.sparse reshapes are outside the '
                      'leg domain)', 'from_vector at tol = 0 numerically', 'MPO.identity beyond its layout']
    return ('Leg-domain evaluation of the product and merge code, AST layout rules for np.block / np.concatenate in the sums, '
            'argument-order rules for the dense conversions.', 'instances = layout / pairing / label facts per operation')
