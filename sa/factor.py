"""Factor x scale algebra and sign domain for the trailing 1x1 factor of orthonormalize / compress.

After the boundary call `X.A[e], T, X.qD[e] = local_orthonormalize_*(X.A[e], np.array([[[1]]]), ...)` the tail of
the branch is walked path by path.  Scalars are monomials  s * T^a * |T|^b  (s = +-1); every write to the boundary
tensor multiplies an accumulated scale; the returned factor r must satisfy on every path
  (1) r >= 0 in the sign domain (facts come from the branch conditions `m < 0` / its negation, abs(.) is >= 0),
  (2) r * scale == T  (as monomials, using |T| * (T/|T|) = T),
so that  factor * new boundary tensor  reproduces the trailing factor that was split off.
T is real by the documented argument (diagonal of R) for the QR sweeps; `.real` is the identity in the algebra.
"""
import ast
from fractions import Fraction

from .loader import norm, AnalysisError


class Mono:
    __slots__ = ('s', 'a', 'b')

    def __init__(self, s=1, a=0, b=0):
        self.s, self.a, self.b = s, Fraction(a), Fraction(b)

    def __mul__(self, o):
        return Mono(self.s * o.s, self.a + o.a, self.b + o.b)

    def inv(self):
        return Mono(self.s, -self.a, -self.b)

    def neg(self):
        return Mono(-self.s, self.a, self.b)

    def key(self):
        return (self.s, self.a, self.b)

    def __eq__(self, o):
        return isinstance(o, Mono) and self.key() == o.key()

    def __hash__(self):
        return hash(self.key())

    def __repr__(self):
        parts = []
        if self.a:
            parts.append('T' if self.a == 1 else f'T^{self.a}')
        if self.b:
            parts.append('|T|' if self.b == 1 else f'|T|^{self.b}')
        body = '*'.join(parts) or '1'
        return ('-' if self.s < 0 else '') + body


ONE = Mono()
TT = Mono(1, 1, 0)


def real_form(m):
    """for a real trailing factor T^2 = |T|^2: even powers of T are powers of |T|"""
    if m is None or m.a.denominator != 1:
        return m
    a = int(m.a)
    r = a % 2
    return Mono(m.s, r, m.b + (a - r))


class Tail:
    def __init__(self, tname, boundary_text, rank, real=False):
        self.real = real                   # the trailing factor is known to be real (documented for the QR sweeps)
        self.tname = tname
        self.boundary = boundary_text      # normalised text of the boundary tensor slot, e.g. self.A[-1]
        self.rank = rank
        self.paths = []                    # (scale Mono, returned expr value, facts, return node)

    def ev(self, e, env):
        v = self._ev(e, env)
        return real_form(v) if getattr(self, 'real', False) else v

    def _ev(self, e, env):
        """monomial value of a scalar expression, or None"""
        if isinstance(e, ast.Constant) and isinstance(e.value, (int, float)):
            if e.value == 1:
                return ONE
            if e.value == -1:
                return ONE.neg()
            return None
        if isinstance(e, ast.Name):
            return env.get(e.id)
        if isinstance(e, ast.Attribute) and e.attr == 'real':
            return self.ev(e.value, env)
        if isinstance(e, ast.Call) and norm(e.func) == 'np.real' and len(e.args) == 1 and not e.keywords:
            return self.ev(e.args[0], env)
        if isinstance(e, ast.Subscript) and isinstance(e.value, ast.Name) and e.value.id == self.tname:
            idx = e.slice.elts if isinstance(e.slice, ast.Tuple) else [e.slice]
            if len(idx) == self.rank and all(isinstance(x, ast.Constant) and x.value == 0 for x in idx):
                return TT
            return None
        if isinstance(e, ast.UnaryOp) and isinstance(e.op, ast.USub):
            v = self.ev(e.operand, env)
            return v.neg() if v is not None else None
        if isinstance(e, ast.BinOp) and isinstance(e.op, (ast.Mult, ast.Div)):
            a, b = self.ev(e.left, env), self.ev(e.right, env)
            if a is None or b is None:
                return None
            return a * (b if isinstance(e.op, ast.Mult) else b.inv())
        if isinstance(e, ast.Call) and norm(e.func) == 'np.sign' and len(e.args) == 1:
            v = self.ev(e.args[0], env)
            if v is None:
                return None
            return Mono(v.s, v.a, -v.a)       # sign(s T^a |T|^b) = s T^a |T|^-a for T != 0 (and 0 at T = 0)
        if isinstance(e, ast.Call) and norm(e.func) in ('abs', 'np.abs', 'np.absolute') and len(e.args) == 1:
            v = self.ev(e.args[0], env)
            if v is None:
                return None
            return Mono(1, 0, v.a + v.b)      # |s T^a |T|^b| = |T|^(a+b)
        return None

    def walk(self, stmts, env, scale, facts):
        for k, s in enumerate(stmts):
            if isinstance(s, (ast.Assert, ast.Pass)) or (isinstance(s, ast.Expr) and isinstance(s.value, ast.Constant)):
                continue
            if isinstance(s, ast.Return):
                self.paths.append((scale, s.value, dict(env), list(facts), s))
                return
            if isinstance(s, ast.Raise):
                return
            if isinstance(s, ast.If):
                t = s.test
                fact_t = fact_f = None
                flip = {ast.Lt: ast.Gt, ast.Gt: ast.Lt, ast.LtE: ast.GtE, ast.GtE: ast.LtE}
                if isinstance(t, ast.Compare) and len(t.ops) == 1 and isinstance(t.left, ast.Constant) and \
                        t.left.value == 0 and type(t.ops[0]) in flip:
                    # 0 > x  is  x < 0
                    t = ast.Compare(left=t.comparators[0], ops=[flip[type(t.ops[0])]()], comparators=[t.left])
                if isinstance(t, ast.Compare) and len(t.ops) == 1 and isinstance(t.comparators[0], ast.Constant) \
                        and t.comparators[0].value == 0:
                    m = self.ev(t.left, env)
                    if m is not None:
                        op = type(t.ops[0])
                        rel = {ast.Lt: ('<0', '>=0'), ast.LtE: ('<=0', '>0'), ast.Gt: ('>0', '<=0'),
                               ast.GtE: ('>=0', '<0')}.get(op)
                        if rel:
                            fact_t, fact_f = (m, rel[0]), (m, rel[1])
                rest = stmts[k + 1:]
                self.walk(list(s.body) + rest, dict(env), scale, facts + ([fact_t] if fact_t else []))
                self.walk(list(s.orelse) + rest, dict(env), scale, facts + ([fact_f] if fact_f else []))
                return
            if isinstance(s, ast.Assign) and len(s.targets) == 1:
                t = s.targets[0]
                if isinstance(t, ast.Name):
                    env[t.id] = self.ev(s.value, env)
                    continue
                if norm(t) == self.boundary:
                    # X = -X ; X = X * m ; X = m * X ; X = X / m
                    v = s.value
                    f = self.scale_of(v, env)
                    if f is None:
                        raise AnalysisError(f'write to the boundary tensor `{norm(s)[:70]}` is not a scalar multiple of it')
                    scale = scale * f
                    continue
                if isinstance(t, ast.Subscript) and norm(t.value).endswith('.qD'):
                    continue        # a bond label is stored: not part of the factor algebra (decided by the pairing rules)
                raise AnalysisError(f'statement `{norm(s)[:70]}` after the boundary call is not a recognised idiom')
            if isinstance(s, ast.AugAssign) and norm(s.target) == self.boundary and isinstance(s.op, (ast.Mult, ast.Div)):
                m = self.ev(s.value, env)
                if m is None:
                    raise AnalysisError(f'scale `{norm(s.value)[:50]}` applied to the boundary tensor is not a monomial in T')
                scale = scale * (m if isinstance(s.op, ast.Mult) else m.inv())
                continue
            if isinstance(s, ast.AugAssign) and isinstance(s.target, ast.Name):
                cur = env.get(s.target.id)
                m = self.ev(s.value, env)
                if cur is not None and m is not None and isinstance(s.op, (ast.Mult, ast.Div)):
                    env[s.target.id] = cur * (m if isinstance(s.op, ast.Mult) else m.inv())
                else:
                    env[s.target.id] = None
                continue
            raise AnalysisError(f'statement `{norm(s)[:70]}` after the boundary call is not a recognised idiom')
        # fell off the end: no return
        self.paths.append((scale, None, dict(env), list(facts), None))

    def scale_of(self, v, env):
        b = self.boundary
        if isinstance(v, ast.UnaryOp) and isinstance(v.op, ast.USub) and norm(v.operand) == b:
            return ONE.neg()
        if isinstance(v, ast.BinOp) and isinstance(v.op, (ast.Mult, ast.Div)):
            if norm(v.left) == b:
                m = self.ev(v.right, env)
                return None if m is None else (m if isinstance(v.op, ast.Mult) else m.inv())
            if norm(v.right) == b and isinstance(v.op, ast.Mult):
                return self.ev(v.left, env)
        if norm(v) == b:
            return ONE
        return None


def under_facts(m, facts):
    """a path that knows the sign of T knows |T|: with T < 0 (or <= 0) |T| = -T, with T >= 0 (or > 0) |T| = T"""
    if m is None or m.b.denominator != 1:
        return m
    for fm, rel in facts:
        if fm is None:
            continue
        sgn = None
        if fm == TT:
            sgn = -1 if rel in ('<0', '<=0') else 1
        elif fm == TT.neg():
            sgn = 1 if rel in ('<0', '<=0') else -1
        if sgn is not None:
            b = int(m.b)
            return Mono(m.s * (sgn ** abs(b)), m.a + b, 0)
    return m


def sign_nonneg(m, facts):
    """is the monomial value provably >= 0 under the path facts?"""
    if m is None:
        return False
    if m.a == 0 and m.s > 0:
        return True                 # a power of |T|
    for fm, rel in facts:
        if fm is None:
            continue
        # m == fm with fm >= 0 / > 0 ; m == -fm with fm < 0 / <= 0
        if m == fm and rel in ('>=0', '>0'):
            return True
        if m == fm.neg() and rel in ('<0', '<=0'):
            return True
    return False
