#!/usr/bin/env python3
"""Ad-hoc mutation helper: tools/mut.py <file> <old> <new> -- <check args...>
Copies /repo/pytenet to a scratch dir, applies one textual replacement (must match exactly once unless
--count N given), runs ./check with SA_REPO_ROOT pointing there, removes the scratch dir."""
import os, shutil, subprocess, sys, tempfile

def run(file, old, new, check_args, count=1, repo='/repo'):
    d = tempfile.mkdtemp(prefix='samut_')
    try:
        shutil.copytree(os.path.join(repo, 'pytenet'), os.path.join(d, 'pytenet'))
        p = os.path.join(d, 'pytenet', file)
        s = open(p).read()
        if s.count(old) != count:
            return None, f'pattern occurs {s.count(old)} times (expected {count})'
        open(p, 'w').write(s.replace(old, new))
        import py_compile
        py_compile.compile(p, doraise=True, cfile=os.path.join(d, 'x.pyc'))
        env = dict(os.environ, SA_REPO_ROOT=d, SA_EVIDENCE_DIR=os.path.join(d, 'evidence'))
        here = os.path.dirname(os.path.dirname(os.path.abspath(__file__)))
        r = subprocess.run([os.path.join(here, 'check')] + check_args, env=env, capture_output=True, text=True)
        return r.returncode, r.stdout + r.stderr
    finally:
        shutil.rmtree(d, ignore_errors=True)

if __name__ == '__main__':
    a = sys.argv[1:]
    count = 1
    if '--count' in a:
        k = a.index('--count')
        count = int(a[k + 1])
        del a[k:k + 2]
    i = a.index('--')
    rc, out = run(a[0], a[1], a[2], a[i+1:], count=count)
    print(out)
    print('exit', rc)
