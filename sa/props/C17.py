"""C17 - operator trees and state automata unfold to graphs (structural part)."""
import ast

from ..loader import norm, AnalysisError
from ..affine import Affine, try_affine
from .. import typestate as ts
from ..defuse import local_defs, expand, dominating_conditions, enclosing_loops
from ..match import pmatch, find
from .common import where, run_id_typestate


def loop_iter(fn, l):
    """the iterable of a loop, looked through a local that holds it (`sites = range(n) if .. else ..; for i in sites:`)"""
    it = l.iter
    if isinstance(it, ast.Name):
        d_ = [s_ for s_ in ast.walk(fn) if isinstance(s_, ast.Assign) and len(s_.targets) == 1 and norm(s_.targets[0]) == it.id]
        st = [n_ for n_ in ast.walk(fn) if isinstance(n_, ast.Name) and n_.id == it.id and isinstance(n_.ctx, ast.Store)]
        if len(d_) == 1 and len(st) == 1:
            return d_[0].value
    return it


def site_index_ok(fi, node, arg):
    """`arg` is the site being unrolled: an affine expression v + c in the variable v of an ENCLOSING loop over
    range(a, b) (possibly reversed) with a + c == 0 and b + c == length; lengths asserted in the function
    (`assert len(X) == e`) are used as facts"""
    a = try_affine(arg)
    if a is None:
        return False
    facts = {}
    for s_ in ast.walk(fi.node):
        if isinstance(s_, ast.Assert) and isinstance(s_.test, ast.Compare) and len(s_.test.ops) == 1 and \
                isinstance(s_.test.ops[0], ast.Eq) and isinstance(s_.test.left, ast.Call) and norm(s_.test.left.func) == 'len':
            v = try_affine(s_.test.comparators[0])
            if v is not None:
                facts[norm(s_.test.left.args[0])] = v
    for l in enclosing_loops(fi.node, node):
        if not (isinstance(l, ast.For) and isinstance(l.target, ast.Name) and a.coeff(l.target.id) == 1 and
                a.syms() == {l.target.id}):
            continue
        it = loop_iter(fi.node, l)
        if isinstance(it, ast.IfExp):
            its = [it.body, it.orelse]
        else:
            its = [it]
        good = True
        for x in its:
            if isinstance(x, ast.Call) and norm(x.func) == 'reversed' and len(x.args) == 1:
                x = x.args[0]
            if not (isinstance(x, ast.Call) and norm(x.func) == 'range' and 1 <= len(x.args) <= 2):
                good = False
                break
            lo = try_affine(x.args[0], len_syms=facts) if len(x.args) == 2 else Affine.const(0)
            hi = try_affine(x.args[-1], len_syms=facts)
            if lo is None or hi is None:
                good = False
                break
            c = Affine.const(a.c)
            if not (lo + c == Affine.const(0) and hi + c == Affine.sym('length')):
                good = False
                break
        if good:
            return True
    return False


def rule_R2(chk, repo):
    rid = 'C17.R2'
    chk.rule(rid, 'callable dispatch: every read of `.active` / `.opics` of an automaton edge inside from_automaton '
                  'has the form `E.f(i) if isinstance(E.f, Callable) else E.f` with `i` the variable of a loop over '
                  'range(length) (possibly reversed) - site-dependent edges are evaluated at the site being unrolled.')
    fi = _spelled(repo.func('opgraph.OpGraph.from_automaton'))
    # loop variables ranging over range(length)
    site_vars = set()
    for n in ast.walk(fi.node):
        if isinstance(n, ast.For) and isinstance(n.target, ast.Name):
            t = norm(n.iter)
            if 'range(length)' in t:
                site_vars.add(n.target.id)
    if not site_vars:
        raise AnalysisError('from_automaton: no loop over range(length) found')
    reads = []
    parents = {}
    for n in ast.walk(fi.node):
        for c in ast.iter_child_nodes(n):
            parents[c] = n
    for n in ast.walk(fi.node):
        if isinstance(n, ast.Attribute) and n.attr in ('active', 'opics') and isinstance(n.ctx, ast.Load):
            reads.append(n)
    # group reads by enclosing IfExp
    done = set()
    count = 0
    for r in reads:
        p = r
        ifexp = None
        while p in parents:
            p = parents[p]
            if isinstance(p, ast.IfExp):
                ifexp = p
                break
            if isinstance(p, ast.stmt):
                break
        if ifexp is not None and id(ifexp) in done:
            continue
        ok = False
        detail = f'`{norm(parents.get(r, r))[:80]}`'
        if ifexp is not None:
            done.add(id(ifexp))
            base = norm(r)
            t = ifexp.test
            body, orelse = ifexp.body, ifexp.orelse
            # the index is the variable of an ENCLOSING loop over range(length) (not merely a name that some other loop
            # over the sites uses)
            ok = (isinstance(t, ast.Call) and norm(t.func) == 'isinstance' and len(t.args) == 2 and
                  norm(t.args[0]) == base and norm(t.args[1]) == 'Callable' and
                  isinstance(body, ast.Call) and norm(body.func) == base and len(body.args) == 1 and
                  site_index_ok(fi, ifexp, body.args[0]) and norm(orelse) == base)
            detail = f'`{norm(ifexp)[:100]}`'
        chk.ob(rid, where(repo, fi, r), f'read of `{norm(r)}` goes through the site-indexed callable dispatch', ok,
               detail, key=f'{rid}|{norm(ifexp) if ifexp is not None else norm(r)}|{count}')
        count += 1
    chk.floor(rid, count, 3)


def list_len(e):
    """length of `n * [x]` as an affine term"""
    if isinstance(e, ast.BinOp) and isinstance(e.op, ast.Mult):
        for cnt, lst in ((e.left, e.right), (e.right, e.left)):
            if isinstance(lst, ast.List) and len(lst.elts) == 1:
                return try_affine(cnt), norm(lst.elts[0])
    return None, None


def rule_R3(chk, repo):
    rid = 'C17.R3'
    chk.rule(rid, 'identity padding: every call of _insert_opchain passes operator, coefficient and quantum-number '
                  'lists whose lengths satisfy the callee asserts (len(oids) == len(coeffs) == len(qnums) + 1) for '
                  'all values of the count, identities carry coefficient 1.0 and quantum number 0, and the count is '
                  'positive under the dominating guard; the recursion distance decreases by one per tree level and '
                  'starts at length - istart.')
    n = 0
    callee = repo.func('opgraph.OpGraph._insert_opchain')
    asserts = {norm(a.test) for a in callee.node.body if isinstance(a, ast.Assert)}
    need = {'len(oids) == len(coeffs)', 'len(oids) == len(qnums) + 1'}
    chk.ob(rid, where(repo, callee, callee.node), '_insert_opchain states its length contract', need <= asserts,
           f'asserts: {sorted(asserts)}', key=f'{rid}|contract')
    n += 1
    for q in ('opgraph.OpGraph._insert_subtree', 'opgraph.OpGraph.from_optrees'):
        fi = repo.func(q)
        for c in ast.walk(fi.node):
            if isinstance(c, ast.Call) and ts.callee_name(c) == '_insert_opchain':
                if len(c.args) != 6:
                    raise AnalysisError(f'{q}: _insert_opchain call with {len(c.args)} arguments')
                lo, eo = list_len(c.args[2])
                lc, ec = list_len(c.args[3])
                lq, eq = list_len(c.args[4])
                if lo is None or lc is None or lq is None:
                    raise AnalysisError(f'{q}: list arguments of _insert_opchain not of the form n * [x]')
                chk.ob(rid, where(repo, fi, c), f'{fi.name}: len(oids) == len(coeffs)', lo == lc, f'{lo} vs {lc}',
                       key=f'{rid}|{q}|len-oc|{norm(c.args[2])}')
                chk.ob(rid, where(repo, fi, c), f'{fi.name}: len(oids) == len(qnums) + 1', lo == lq + Affine.const(1),
                       f'{lo} vs {lq} + 1', key=f'{rid}|{q}|len-oq|{norm(c.args[2])}')
                chk.ob(rid, where(repo, fi, c), f'{fi.name}: padding operators are the identity with coefficient 1 and '
                       'quantum number 0', eo == 'oid_identity' and ec in ('1.0', '1') and eq == '0',
                       f'{eo}, {ec}, {eq}', key=f'{rid}|{q}|pad-values|{norm(c.args[2])}')
                chk.ob(rid, where(repo, fi, c), f'{fi.name}: identities are inserted downstream (direction 1)',
                       norm(c.args[5]) == '1', norm(c.args[5]), key=f'{rid}|{q}|pad-dir|{norm(c.args[2])}')
                # dominating guard: count > 0
                guard = dominating_tests(fi.node, c)
                cnt = norm(c.args[2].left if not isinstance(c.args[2].left, ast.List) else c.args[2].right)
                # (the count is an integer: `> 0`, `>= 1` and their mirrored spellings say the same)
                ok = any(g in (f'{cnt} > 0', f'{cnt} >= 1', f'0 < {cnt}', f'1 <= {cnt}') for g in guard)
                chk.ob(rid, where(repo, fi, c), f'{fi.name}: padding only when the count `{cnt}` is positive', ok,
                       f'dominating conditions: {guard}', key=f'{rid}|{q}|pad-guard|{cnt}')
                n += 5
    # recursion distance
    sub = repo.func('opgraph.OpGraph._insert_subtree')
    rec = [c for c in ast.walk(sub.node) if isinstance(c, ast.Call) and ts.callee_name(c) == '_insert_subtree']
    if not rec:
        raise AnalysisError('_insert_subtree: recursive call not found')
    for c in rec:
        a = try_affine(c.args[2]) if len(c.args) >= 3 else None
        ok = a is not None and a == Affine.sym('terminal_dist') - Affine.const(1)
        chk.ob(rid, where(repo, sub, c), '_insert_subtree: distance to the terminal decreases by one per level', ok,
               norm(c.args[2]) if len(c.args) >= 3 else '', key=f'{rid}|rec-dist')
        # child node of the tree edge being processed, under the node id used as the far end of the new graph edge
        loops_ = [l for l in enclosing_loops(sub.node, c) if isinstance(l, ast.For)]
        ev = norm(loops_[-1].target) if loops_ else None
        far = None
        for l in loops_[-1:]:
            for x in ast.walk(l):
                if isinstance(x, ast.Call) and ts.callee_name(x) == 'OpGraphEdge' and len(x.args) >= 2 and \
                        isinstance(x.args[1], ast.List) and len(x.args[1].elts) == 2:
                    far = norm(x.args[1].elts[1])
        ok2 = len(c.args) >= 2 and ev is not None and norm(c.args[0]) == f'{ev}.node' and norm(c.args[1]) == far and \
            bool(loops_) and norm(loops_[-1].iter).endswith('.children')
        chk.ob(rid, where(repo, sub, c), '_insert_subtree: recursion continues at the child node under the new graph node',
               ok2, norm(c)[:80], key=f'{rid}|rec-args')
        n += 2
    top = repo.func('opgraph.OpGraph.from_optrees')
    calls = [c for c in ast.walk(top.node) if isinstance(c, ast.Call) and ts.callee_name(c) == '_insert_subtree']
    if not calls:
        raise AnalysisError('from_optrees: _insert_subtree call not found')
    for c in calls:
        a = try_affine(c.args[2]) if len(c.args) >= 3 else None
        tl = [l for l in enclosing_loops(top.node, c) if isinstance(l, ast.For)]
        tv = norm(tl[-1].target) if tl else 'tree'
        ok = a is not None and a == Affine.sym('length') - Affine.sym(f'{tv}.istart')
        chk.ob(rid, where(repo, top, c), 'from_optrees: initial distance is length - istart', ok,
               norm(c.args[2]) if len(c.args) >= 3 else '', key=f'{rid}|init-dist')
        n += 1
    # leaf handling: distance 0 must coincide with the terminal node
    leaf_assert = any(isinstance(a, ast.Assert) and 'nid_terminal[1]' in norm(a.test) and 'nid_root' in norm(a.test)
                      for a in ast.walk(sub.node))
    chk.ob(rid, where(repo, sub, sub.node), '_insert_subtree: a leaf at distance 0 must be the terminal node', leaf_assert,
           '', key=f'{rid}|leaf-terminal')
    # node creation and terminal hook-up are selected by the same condition (distance > 1)
    n += 1
    chk.floor(rid, n, 15)


def dominating_tests(fnode, target):
    out = None

    def walk(stmts, conds):
        nonlocal out
        for s in stmts:
            if out is not None:
                return
            if isinstance(s, ast.If):
                walk(s.body, conds + [norm(s.test)])
                walk(s.orelse, conds + ['not (' + norm(s.test) + ')'])
            elif isinstance(s, (ast.For, ast.While)):
                walk(s.body, conds)
            else:
                for n in ast.walk(s):
                    if n is target:
                        out = conds
                        return
    walk(fnode.body, [])
    return out or []


def fold(e, env):
    """constant folding of a small expression under env (name -> constant); returns the constant or the folded node"""
    if isinstance(e, ast.Constant):
        return e.value
    if isinstance(e, ast.Name) and e.id in env:
        return env[e.id]
    if isinstance(e, ast.UnaryOp) and isinstance(e.op, ast.USub):
        v = fold(e.operand, env)
        return -v if isinstance(v, int) else e
    if isinstance(e, ast.BinOp) and isinstance(e.op, (ast.Add, ast.Sub)):
        l, r = fold(e.left, env), fold(e.right, env)
        if isinstance(l, int) and isinstance(r, int):
            return l + r if isinstance(e.op, ast.Add) else l - r
        return e
    if isinstance(e, ast.Compare) and len(e.ops) == 1:
        l, r = fold(e.left, env), fold(e.comparators[0], env)
        if isinstance(l, int) and isinstance(r, int):
            op = e.ops[0]
            return {ast.Eq: l == r, ast.NotEq: l != r, ast.Lt: l < r, ast.Gt: l > r, ast.LtE: l <= r,
                    ast.GtE: l >= r}.get(type(op), None)
        return e
    if isinstance(e, ast.IfExp):
        t = fold(e.test, env)
        if isinstance(t, bool):
            return fold(e.body if t else e.orelse, env)
        return e
    return e


def frontier_rule(fi, d):
    """reachability sweep of from_automaton for direction == d"""
    dloops = [l for l in ast.walk(fi.node) if isinstance(l, ast.For) and isinstance(l.target, ast.Name) and
              l.target.id == 'direction']
    if len(dloops) != 1:
        raise AnalysisError('from_automaton: loop over the two directions not found')
    body = dloops[0].body
    env = {'direction': d}
    # layer list: initialised with the start terminal
    init = [s_ for s_ in body if isinstance(s_, ast.Assign) and isinstance(s_.targets[0], ast.Name) and
            (pmatch('[set([__AUT.nid_terminal[__T]])]', s_.value) or pmatch('[{__AUT.nid_terminal[__T]}]', s_.value))]
    if len(init) != 1:
        raise AnalysisError('from_automaton: initial layer list of the reachability sweep not found')
    lay = init[0].targets[0].id
    m = pmatch('[set([__AUT.nid_terminal[__T]])]', init[0].value) or pmatch('[{__AUT.nid_terminal[__T]}]', init[0].value)
    tnode = ast.parse(m['__T'], mode='eval').body
    term = fold(tnode, env)
    sweeps = [l for l in body if isinstance(l, ast.For)]
    if len(sweeps) != 1:
        raise AnalysisError('from_automaton: site loop of the reachability sweep not found')
    sw = sweeps[0]
    it_expr = sw.iter
    if isinstance(it_expr, ast.Name):
        # the site order held in a local of the direction loop
        d_ = [s_ for s_ in body if isinstance(s_, ast.Assign) and len(s_.targets) == 1 and norm(s_.targets[0]) == it_expr.id]
        if len(d_) == 1:
            it_expr = d_[0].value
    it = fold(it_expr, env)
    order = {'range(length)': 'asc', 'reversed(range(length))': 'desc'}.get(norm(it) if isinstance(it, ast.AST) else '')
    # frontier: the set iterated by the node loop
    fr_end = None
    nloops = [l for l in sw.body if isinstance(l, ast.For)]
    defs = {norm(s_.targets[0]): s_.value for s_ in sw.body if isinstance(s_, ast.Assign) and len(s_.targets) == 1}
    if len(nloops) == 1:
        src = nloops[0].iter
        if isinstance(src, ast.Name) and src.id in defs:
            src = defs[src.id]
        if isinstance(src, ast.Subscript) and norm(src.value) == lay:
            fr_end = fold(src.slice, env)
    # growth: which statement extends the layer list for this direction
    grow_end = None

    def setg(v):
        nonlocal grow_end
        if grow_end is None or grow_end == v:
            grow_end = v
        else:
            grow_end = 'undecided'      # the list is extended in more than one way

    def grow(stmts):
        for s_ in stmts:
            if isinstance(s_, ast.If):
                t = fold(s_.test, env)
                if isinstance(t, bool):
                    grow(s_.body if t else s_.orelse)
                elif any(isinstance(x, ast.Name) and x.id == lay for b_ in (s_.body + s_.orelse) for x in ast.walk(b_)):
                    setg('undecided')   # the layer list is changed under a condition on run-time values
            elif isinstance(s_, ast.Expr) and isinstance(s_.value, ast.Call) and norm(s_.value.func) == f'{lay}.append':
                setg(-1)
            elif isinstance(s_, ast.Assign) and norm(s_.targets[0]) == lay:
                if pmatch(f'[__C] + {lay}', s_.value) is not None:
                    setg(0)
                elif pmatch(f'{lay} + [__C]', s_.value) is not None:
                    setg(-1)
                else:
                    setg('undecided')
    grow([s_ for s_ in sw.body if not isinstance(s_, ast.For)])
    # a reversal of the whole list after the sweep (possibly only for one direction)
    flipped = False

    def flips(stmts):
        nonlocal flipped
        for s_ in stmts:
            if isinstance(s_, ast.If):
                t = fold(s_.test, env)
                if isinstance(t, bool):
                    flips(s_.body if t else s_.orelse)
                elif any(isinstance(x, ast.Name) and x.id == lay for b_ in (s_.body + s_.orelse) for x in ast.walk(b_)):
                    setg('undecided')
            elif isinstance(s_, ast.Expr) and isinstance(s_.value, ast.Call) and norm(s_.value.func) == f'{lay}.reverse' and \
                    not s_.value.args:
                flipped = not flipped
            elif isinstance(s_, ast.Assign) and norm(s_.targets[0]) == lay and \
                    norm(s_.value) in (f'{lay}[::-1]', f'list(reversed({lay}))'):
                flipped = not flipped
            elif isinstance(s_, ast.Assign) and norm(s_.targets[0]) == lay:
                setg('undecided')
    after = body[body.index(sw) + 1:]
    flips(after)
    # the list must end up ordered by layer from left to right: the sweep order itself for the ascending sweep, the
    # reversed sweep order for the descending one.  Extending at the end keeps sweep order, extending at the front
    # reverses it; a reversal of the finished list flips once more.  The frontier is the most recently added layer.
    want_reversed = (d == 0)
    is_reversed = None
    if grow_end in (0, -1):
        is_reversed = (grow_end == 0) != flipped
    want_end = grow_end if grow_end in (0, -1) else (-1 if d == 1 else 0)
    # every site is evaluated: edge activity may depend on the site, so the sweep has no early exit
    exits = [x for b_ in sw.body for x in ast.walk(b_) if isinstance(x, (ast.Break, ast.Return))
             and not any(isinstance(l, (ast.For, ast.While)) and any(x is y for y in ast.walk(l)) for b2 in sw.body
                         for l in ast.walk(b2) if isinstance(l, (ast.For, ast.While)))]
    ok = term == 1 - d and order == ('asc' if d == 1 else 'desc') and fr_end == want_end and grow_end in (0, -1) and \
        is_reversed == want_reversed and not exits
    return ok, (f'start terminal {term}, site order {order}, frontier index {fr_end!r}, list extended at {grow_end!r}' +
                (', reversed after the sweep' if flipped else '') +
                (f', early exit from the site loop at line {exits[0].lineno}' if exits else ''))


class _Spell(ast.NodeTransformer):
    """one spelling for constructs the rules compare as text: callable(x) is isinstance(x, Callable);
    a.intersection(b) is a & b (for the sets of reachable nodes)"""

    def visit_Call(self, node):
        self.generic_visit(node)
        if isinstance(node.func, ast.Name) and node.func.id == 'callable' and len(node.args) == 1 and not node.keywords:
            return ast.fix_missing_locations(ast.copy_location(
                ast.Call(func=ast.Name(id='isinstance', ctx=ast.Load()), args=[node.args[0], ast.Name(id='Callable', ctx=ast.Load())],
                         keywords=[]), node))
        if isinstance(node.func, ast.Attribute) and node.func.attr == 'intersection' and len(node.args) == 1 and not node.keywords:
            return ast.fix_missing_locations(ast.copy_location(
                ast.BinOp(left=node.func.value, op=ast.BitAnd(), right=node.args[0]), node))
        return node


def _spelled(fi):
    import copy
    from ..canon import CanonFunc
    return CanonFunc(fi, _Spell().visit(copy.deepcopy(fi.node)), dict(getattr(fi, 'renamed', {}) or {}))


def rule_R4(chk, repo):
    rid = 'C17.R4'
    chk.rule(rid, 'automaton unrolling (roles, not names; local definitions expanded): the edge added at site i runs '
                  'from MAP[i][ACT[i].index(E.nids[0])] to the node created for layer i+1, under the skip-guards '
                  '"E inactive at site i" and "E.nids[0] not in ACT[i]"; new nodes enumerate ACT[i+1]; E ranges over the '
                  'incoming edges eids[0] of the automaton node; ACT is the element-wise intersection of forward and '
                  'backward reachability; reachability in direction d starts at terminal 1-d and follows eids[d] -> nids[d].')
    from ..canon import canonical, DIRECTION_LOOP
    fi = _spelled(canonical(repo.func('opgraph.OpGraph.from_automaton'), (), DIRECTION_LOOP))
    from .common import position_table_view
    from ..canon import CanonFunc
    node_v, tables_ = position_table_view(fi.node)
    if tables_:
        fi = CanonFunc(fi, node_v, dict(getattr(fi, 'renamed', {}) or {}))
    edge_calls = [c for c in ast.walk(fi.node) if isinstance(c, ast.Call) and ts.callee_name(c) == 'OpGraphEdge']
    if len(edge_calls) != 1:
        raise AnalysisError(f'from_automaton: expected one OpGraphEdge construction, found {len(edge_calls)}')
    ec = edge_calls[0]
    if len(ec.args) < 3:
        raise AnalysisError('from_automaton: OpGraphEdge(eid, nids, opics) expected')
    loops = enclosing_loops(fi.node, ec)
    if not loops:
        raise AnalysisError('from_automaton: edge construction is not inside a loop')
    # definitions local to the innermost loops around the edge construction (roles, not names)
    defs = local_defs(loops[-1].body)
    # plain second names for an element of a table (`prev = MAP[i]`) defined in an enclosing loop, whose table is not rebound
    # inside that loop, are expanded as well
    for l_ in loops[:-1]:
        rebound = {x.id for x in ast.walk(l_) if isinstance(x, ast.Name) and isinstance(x.ctx, ast.Store)}
        for k_, v_ in local_defs(l_.body).items():
            if k_ not in defs and isinstance(v_, (ast.Subscript, ast.Name)) and \
                    not ({x.id for x in ast.walk(v_) if isinstance(x, ast.Name)} & (rebound - {getattr(l_.target, 'id', None)})):
                defs[k_] = v_
    ends = expand(ec.args[1], defs)
    b = pmatch('[__MAP[__I1][__ACT[__I2].index(__E.nids[__K])], __NODE.nid]', ends)
    if b is None:
        raise AnalysisError(f'from_automaton: edge end points `{norm(ends)[:120]}` not of the recognised shape')
    site = None
    for l in loops:
        if isinstance(l, ast.For) and isinstance(l.target, ast.Name) and norm(l.iter) in ('range(length)',):
            site = l.target.id
    if site is None:
        raise AnalysisError('from_automaton: site loop `for i in range(length)` around the edge construction not found')
    ok = b['__I1'] == site and b['__I2'] == site and b['__K'] == '0'
    chk.ob(rid, where(repo, fi, ec), 'source node: position of E.nids[0] in ACT[i] is looked up in MAP[i] (same layer i)',
           ok, f'end points `{norm(ends)[:110]}` with site variable `{site}`', key=f'{rid}|source-index')
    conds = dominating_conditions(fi.node, ec, defs) or []
    E, ACT = b['__E'], b['__ACT']
    g_source = f'{E}.nids[0] in {ACT}[{site}]' in conds
    act_disp = f'{E}.active({site}) if isinstance({E}.active, Callable) else {E}.active'
    g_active = act_disp in conds
    chk.ob(rid, where(repo, fi, ec), 'edge creation is skipped when the source node is not active in layer i', g_source,
           f'dominating conditions: {conds}', key=f'{rid}|guard-source')
    chk.ob(rid, where(repo, fi, ec), 'edge creation is skipped for edges inactive at site i', g_active,
           f'dominating conditions: {conds}', key=f'{rid}|guard-active')
    op = expand(ec.args[2], defs)
    op_ok = norm(op) == f'{E}.opics({site}) if isinstance({E}.opics, Callable) else {E}.opics'
    chk.ob(rid, where(repo, fi, ec), 'edge operators are those of E evaluated at site i', op_ok, norm(op)[:100],
           key=f'{rid}|opics')
    # loops: E over incoming edges of the automaton node NA; NA over ACT[i+1]; NODE created per NA
    e_loop = [l for l in loops if isinstance(l, ast.For) and norm(l.target) == E]
    na = None
    inc_ok = False
    if e_loop:
        m = pmatch('[__AUT.edges[__y] for __y in __NA.eids[__D]]', e_loop[0].iter)
        if m is None:
            m = pmatch('__NA.eids[__D]', e_loop[0].iter)
        if m is not None:
            inc_ok = m['__D'] == '0'
            na = m['__NA']
    chk.ob(rid, where(repo, fi, ec), 'E ranges over the incoming edges (eids[0]) of the automaton node', inc_ok,
           norm(e_loop[0].iter)[:80] if e_loop else 'loop over E not found', key=f'{rid}|incoming')
    n_loop = [l for l in loops if isinstance(l, ast.For) and na is not None and norm(l.target) == na]
    tgt_ok = False
    if n_loop:
        m = pmatch('[__AUT.nodes[__x] for __x in __ACT2[__J]]', n_loop[0].iter)
        if m is not None:
            tgt_ok = m['__ACT2'] == ACT and m['__J'] == f'{site} + 1'
    elif na is not None:
        # `for x in ACT[i + 1]: NA = AUT.nodes[x]` - the loop over the ids with the node looked up in its body
        for l in loops:
            if isinstance(l, ast.For) and isinstance(l.target, ast.Name) and l.body and isinstance(l.body[0], ast.Assign) and \
                    norm(l.body[0].targets[0]) == na and \
                    sum(1 for x in ast.walk(l) if isinstance(x, ast.Name) and x.id == na and isinstance(x.ctx, ast.Store)) == 1:
                m = pmatch(f'__AUT.nodes[{l.target.id}]', l.body[0].value)
                m2 = pmatch('__ACT2[__J]', l.iter)
                if m is not None and m2 is not None:
                    n_loop = [l]
                    tgt_ok = m2['__ACT2'] == ACT and m2['__J'] == f'{site} + 1'
    chk.ob(rid, where(repo, fi, ec), 'new nodes enumerate the active automaton nodes of layer i+1', tgt_ok,
           norm(n_loop[0].iter)[:80] if n_loop else 'loop over automaton nodes not found', key=f'{rid}|target-layer')
    # the new graph node is created in that loop and appended to the layer map in enumeration order
    node_name = b['__NODE']
    created = [s for l in n_loop for s in l.body if isinstance(s, ast.Assign) and norm(s.targets[0]) == node_name and
               isinstance(s.value, ast.Call) and ts.callee_name(s.value) == 'OpGraphNode']
    appended = [c for l in n_loop for s in l.body for c in ast.walk(s) if isinstance(c, ast.Call) and
                isinstance(c.func, ast.Attribute) and c.func.attr == 'append' and c.args and
                norm(c.args[0]) in (f'{node_name}.nid',)]
    chk.ob(rid, where(repo, fi, ec), 'one graph node per active automaton node, recorded in the layer map in the same order',
           len(created) == 1 and len(appended) == 1, '', key=f'{rid}|layer-map')
    qn_ok = bool(created) and len(created[0].value.args) >= 4 and norm(created[0].value.args[3]) == f'{na}.qnum'
    chk.ob(rid, where(repo, fi, ec), 'graph node inherits the quantum number of the automaton node', qn_ok, '',
           key=f'{rid}|qnum')
    # ACT = forward & backward, layer-wise
    inter_ok = False
    if ACT in defs or True:
        for s in ast.walk(fi.node):
            if isinstance(s, ast.Assign) and norm(s.targets[0]) == ACT:
                m = pmatch('[sorted(list(__a & __b)) for __a, __b in zip(__F[0], __F[1])]', s.value) or \
                    pmatch('[sorted(__a & __b) for __a, __b in zip(__F[0], __F[1])]', s.value) or \
                    pmatch('[sorted(list(__a & __b)) for __a, __b in zip(*__F)]', s.value) or \
                    pmatch('[sorted(__a & __b) for __a, __b in zip(*__F)]', s.value)
                inter_ok = m is not None
    chk.ob(rid, where(repo, fi, fi.node), 'active nodes per layer = forward-reachable AND backward-reachable', inter_ok,
           '', key=f'{rid}|intersection')
    asserts = {norm(a.test) for a in ast.walk(fi.node) if isinstance(a, ast.Assert)}
    chk.ob(rid, where(repo, fi, fi.node), 'layer count and both terminal layers are asserted',
           {f'len({ACT}) == length + 1', f'{ACT}[0] == [autop.nid_terminal[0]]',
            f'{ACT}[-1] == [autop.nid_terminal[1]]'} <= asserts, f'{sorted(asserts)}', key=f'{rid}|asserts')
    # reachability sweep per direction
    start = find('set([__AUT.nid_terminal[1 - direction]])', fi.node) or find('{__AUT.nid_terminal[1 - direction]}', fi.node)
    follow = [l for l in ast.walk(fi.node) if isinstance(l, ast.For) and pmatch('__AUT.nodes[__n].eids[direction]', l.iter) is not None]
    add_ok = bool(find('__S.add(__e.nids[direction])', fi.node))
    dirs = [l for l in ast.walk(fi.node) if isinstance(l, ast.For) and pmatch(
        'range(length) if direction == 1 else reversed(range(length))', loop_iter(fi.node, l)) is not None]
    chk.ob(rid, where(repo, fi, fi.node), 'reachability in direction d starts at terminal 1-d and follows eids[d] -> nids[d], '
           'visiting sites in ascending (d=1) resp. descending (d=0) order',
           bool(start) and bool(follow) and add_ok and bool(dirs), '', key=f'{rid}|reach-sweep')
    # frontier / growth agreement, per value of the direction (constant folding of `direction`)
    for d in (0, 1):
        ok_f, detail = frontier_rule(fi, d)
        chk.ob(rid, where(repo, fi, fi.node), f'reachability, direction {d}: the sweep starts at terminal {1 - d}, visits the '
               f'sites {"ascending" if d == 1 else "descending"}, reads its frontier from the end at which it extends the layer list, '
               f'leaves the list ordered by layer from left to right, one layer per site without early exit', ok_f, detail, key=f'{rid}|reach-frontier|{d}')
    chk.floor(rid, 13, 13)


def rule_R5(chk, repo):
    rid = 'C17.R5'
    chk.rule(rid, 'independence of the summands: in the loop over the trees (from_optrees) and over the children of a tree '
                  'node (_insert_subtree) no local carries a value from an earlier iteration - every name assigned in the '
                  'loop body is bound on every path of the current iteration before it is read (definite assignment '
                  'relative to the loop entry), so each tree / child is attached with the ids computed for it')
    from .. import defassign
    n = 0
    for q, it_pat in (('opgraph.OpGraph.from_optrees', None), ('opgraph.OpGraph._insert_subtree', None)):
        fi = repo.func(q)
        loops = [l for l in fi.node.body if isinstance(l, ast.For)]
        if len(loops) != 1:
            raise AnalysisError(f'{q}: expected one top-level loop, found {len(loops)}')
        found, nreads = defassign.loop_carried(fi.node, loops[0])
        if nreads < 5:
            raise AnalysisError(f'{q}: loop body has only {nreads} reads; the anchored loop changed')
        bad = {}
        for node, name, why in found:
            bad.setdefault(name, node)
        chk.ob(rid, where(repo, fi, loops[0]), f'{fi.name}: `for {norm(loops[0].target)} in {norm(loops[0].iter)}` has no '
               f'loop-carried local ({nreads} reads)', not bad,
               '; '.join(f'`{k}` read at line {v.lineno} may stem from an earlier iteration' for k, v in sorted(bad.items())),
               key=f'{rid}|{q}')
        n += 1
    return n


def rule_R7(chk, repo):
    rid = 'C17.R7'
    chk.rule(rid, 'value-independent structure of the tree insertion: in from_optrees, _insert_subtree and _insert_opchain no '
                  'comparison, filter or truth test has a coefficient-valued operand (a branch with coefficient 0 is still a '
                  'branch of the tree: skipping it would leave its parent without the edge and identity padding that make the '
                  'graph consistent)')
    from ..taint import Taint

    def src(e):
        return isinstance(e, ast.Attribute) and e.attr in ('coeff', 'coeffs') and isinstance(e.ctx, ast.Load)
    n = 0
    for q in ('opgraph.OpGraph.from_optrees', 'opgraph.OpGraph._insert_subtree', 'opgraph.OpGraph._insert_opchain'):
        fi = repo.func(q)
        T = Taint(repo, fi, [p for p in fi.params if p in ('coeffs', 'coeff')], src)
        in_assert = set()
        for a in ast.walk(fi.node):
            if isinstance(a, ast.Assert):
                in_assert |= {id(x) for x in ast.walk(a)}
        bad = []
        for c in ast.walk(fi.node):
            if id(c) in in_assert:
                continue
            if isinstance(c, ast.Compare):
                ops = [c.left] + list(c.comparators)
                if any(T.expr_tainted(o) for o in ops if not isinstance(o, ast.Constant)):
                    bad.append(c)
            elif isinstance(c, (ast.If, ast.IfExp, ast.While)) and not isinstance(c.test, (ast.Compare, ast.BoolOp)) and \
                    T.expr_tainted(c.test):
                bad.append(c.test)
        chk.ob(rid, where(repo, fi, bad[0] if bad else fi.node), f'{fi.name}: no coefficient value steers which nodes / edges are '
               f'created', not bad, '; '.join(f'`{norm(b)[:50]}` (line {b.lineno})' for b in bad[:3]), key=f'{rid}|{q}')
        n += 1
    return n


def run(chk, repo, tier):
    # support rules first: what they establish is reported even if a later rule cannot follow a restructured routine
    from . import support
    support.graph_table_rules(chk, repo, 'C17.R8')
    from .C16 import rule_R6 as edge_sum_rule
    edge_sum_rule(chk, repo, 'C17.R9', 'opgraph.OpGraphEdge.__init__')
    support.container_rules(chk, repo, 'C17.R10', ['optree.OpTreeNode.__init__', 'autop.AutOp.__init__', 'opgraph.OpGraph.__init__'])
    chk.rule('C17.R1', 'id allocation typestate in from_automaton, _insert_opchain, _insert_subtree and from_optrees '
                       '(path-sensitive: the reuse of the terminal id in _insert_subtree is correlated with the '
                       'condition under which no node is created).')
    fis = [repo.func(q) for q in ('opgraph.OpGraph.from_automaton', 'opgraph.OpGraph._insert_opchain',
                                  'opgraph.OpGraph._insert_subtree', 'opgraph.OpGraph.from_optrees')]
    run_id_typestate(chk, repo, 'C17.R1', fis, 12)
    rule_R2(chk, repo)
    rule_R3(chk, repo)
    rule_R4(chk, repo)
    rule_R5(chk, repo)
    rule_R7(chk, repo)
    from . import kronrule
    kronrule.analyse(chk, repo, 'C17.R6')
    chk.undecided += ['denotation of the unrolled graph (sum over automaton paths / padded trees)',
                      'dense meaning of chains, trees and graphs under an operator map']
    return ('Static rules over opgraph.py (from_automaton, tree insertion): id typestate, callable dispatch at the '
            'unrolled site, list-length algebra of identity padding against the callee asserts, recursion distance, '
            'guards and co-indexing of the automaton unrolling.',
            'instances = allocation sites, attribute reads, call sites with their length equations, guard sets; '
            'distinct = distinct keys')
