"""Sweep wiring (DESIGN.md 4.3): affine slot typing, validity / canonical-form intervals with derived and
checked loop invariants, event schedules of the TDVP integrators.

Conventions (from the docstrings, confirmed by the leg engine):
  A[k]  : site k, bonds (k, k+1)            qD[k] : label of bond k            H.A[k] : MPO site k
  BL[k] : left environment of bond k (depends on sites < k)
  BR[k] : right environment of bond k+1 (depends on sites > k)
State of the interval machine (all affine in L and the current loop variable):
  hi : BL[0..hi] are up to date          lo : BR[lo..L-1] are up to date
  a  : sites < a are left-isometric      b  : sites > b are right-isometric
"""
import ast
from fractions import Fraction

from .affine import Affine, try_affine
from .loader import norm, AnalysisError
from .shapes import Ctx, nonneg
from .match import pmatch

L = Affine.sym('L')
ONE = Affine.const(1)
ZERO = Affine.const(0)


class Report:
    def __init__(self):
        self.items = []     # (kind, node, ok, text)

    def add(self, kind, node, ok, text):
        self.items.append((kind, node, bool(ok), text))


class Undecided(AnalysisError):
    pass


class EmptinessUndecided(AnalysisError):
    pass


def le(x, y, ctx):
    """decide x <= y; returns True/False; raises Undecided if neither x<=y nor x>y is provable"""
    if nonneg(y - x, ctx):
        return True
    if nonneg(x - y - ONE, ctx):
        return False
    raise Undecided(f'cannot order {x} and {y} under the loop intervals')


def amin(x, y, ctx):
    if nonneg(y - x, ctx):
        return x
    if nonneg(x - y, ctx):
        return y
    raise Undecided(f'cannot order {x} and {y} under the loop intervals')


def amax(x, y, ctx):
    if nonneg(y - x, ctx):
        return y
    if nonneg(x - y, ctx):
        return x
    raise Undecided(f'cannot order {x} and {y} under the loop intervals')


def eq(x, y):
    return x == y


class State:
    __slots__ = ('hi', 'lo', 'a', 'b')

    def __init__(self, hi, lo, a, b):
        self.hi, self.lo, self.a, self.b = hi, lo, a, b

    def copy(self):
        return State(self.hi, self.lo, self.a, self.b)

    def subst(self, var, val):
        return State(*(x.subst(var, val) for x in (self.hi, self.lo, self.a, self.b)))

    def tup(self):
        return (self.hi, self.lo, self.a, self.b)

    def __eq__(self, o):
        return self.tup() == o.tup()

    def __repr__(self):
        return f'(BL valid <= {self.hi}, BR valid >= {self.lo}, left-iso < {self.a}, right-iso > {self.b})'


def index_affine(e, length, env):
    """affine form of an index expression; negative constants are normalised with the container length"""
    a = try_affine(e, env)
    if a is None:
        return None
    if a.is_const() and a.c < 0:
        a = a + length
    return a


class Event:
    def __init__(self, kind, node, **kw):
        self.kind = kind
        self.node = node
        self.__dict__.update(kw)

    def __repr__(self):
        d = {k: v for k, v in self.__dict__.items() if k not in ('kind', 'node')}
        return f'{self.kind}{d}'


def dt_locals(fn, dtname='dt'):
    """locals with exactly one definition that is a multiple of dt (`dt_half = 0.5*dt`): name -> Affine in dt"""
    stores = {}
    for n in ast.walk(fn):
        if isinstance(n, ast.Name) and isinstance(n.ctx, ast.Store):
            stores[n.id] = stores.get(n.id, 0) + 1
    env = {}
    for n in ast.walk(fn):
        if isinstance(n, ast.Assign) and len(n.targets) == 1 and isinstance(n.targets[0], ast.Name) \
                and stores.get(n.targets[0].id) == 1 and stores.get(dtname, 0) == 0:
            a = try_affine(n.value, env)
            if a is not None and a.syms() == {dtname} and a.c == 0:
                env[n.targets[0].id] = a
    return env


def dt_coeff(e, dtname='dt', env=None):
    """coefficient of dt in a time-step argument: 0.5*dt, dt, -0.5*dt, dt/2, -dt/2 ..."""
    a = try_affine(e, env)
    if a is None:
        return None
    if a.syms() == {dtname} and a.c == 0:
        return a.coeff(dtname)
    return None


class SweepExtractor:
    """Turns the statements of a sweep routine into events with affine indices."""

    def __init__(self, fi, psi='psi', ham='H', Lnames=('L',), Lv=None):
        self.fi = fi
        self.psi = psi
        self.ham = ham
        self.Lv = Lv if Lv is not None else L
        self.env = {n: self.Lv for n in Lnames}     # names bound to the number of sites
        self.temps = {}                        # local temporaries: name -> description

    # index helpers -----------------------------------------------------
    def idx(self, e, container='A'):
        length = self.Lv + ONE if container == 'qD' else self.Lv
        # the number of sites written as len(<object>.A) / <object>.nsites inside an index
        lenmap = {f'{self.psi}.A': self.Lv, f'{self.ham}.A': self.Lv, f'{self.psi}.qD': self.Lv + ONE}
        attrs = {f'{self.psi}.nsites': self.Lv, f'{self.ham}.nsites': self.Lv}
        a = try_affine(e, self.env_affine(), attrs, lenmap)
        if a is None:
            return None
        if a.is_const() and a.c < 0:
            a = a + length
        return a

    def env_affine(self):
        return {k: v for k, v in self.env.items() if isinstance(v, Affine) and k.isidentifier()}

    def site_ref(self, e, obj=None):
        """`psi.A[e]` -> affine site index, else None"""
        obj = obj or self.psi
        if isinstance(e, ast.Name):
            t = self.temps.get(e.id)
            if t and t[0] == 'site_alias' and t[2] == obj:
                return t[1]
            return None
        b = pmatch(f'{obj}.A[__k]', e)
        if b is None:
            return None
        return self.idx(e.slice, 'A')

    def env_ref(self, e):
        """`BL[e]` / `BR[e]` -> (name, idx)"""
        if isinstance(e, ast.Subscript) and isinstance(e.value, ast.Name) and e.value.id in ('BL', 'BR'):
            return e.value.id, self.idx(e.slice, 'A')
        return None

    def tensor_arg(self, e):
        """site tensor argument: psi.A[k] -> ('site', k, k) ; merged temp -> ('site', x, x+1)"""
        k = self.site_ref(e)
        if k is not None:
            return (k, k)
        if isinstance(e, ast.Name) and e.id in self.temps and self.temps[e.id][0] == 'pending_site':
            return (self.temps[e.id][1], self.temps[e.id][1])
        if isinstance(e, ast.Name) and e.id in self.temps and self.temps[e.id][0] == 'merged':
            return self.temps[e.id][1:]
        return None

    def op_arg(self, e):
        k = self.site_ref(e, self.ham)
        if k is not None:
            return (k, k)
        if isinstance(e, ast.Name) and e.id in self.temps and self.temps[e.id][0] == 'merged_op':
            return self.temps[e.id][1:]
        if isinstance(e, ast.Subscript) and isinstance(e.value, ast.Name) and e.value.id in self.temps and \
                self.temps[e.value.id][0] == 'merged_op_list':
            # element k of a list [merge(H.A[j], H.A[j+1]) for j in range(..)] computed once from the (never written) MPO
            k = self.idx(e.slice, 'A')
            return (k, k + ONE)
        return None


def expand_len(e, psi):
    return e


class SweepMachine:
    """Runs the interval machine over a routine; collects obligations in a Report."""
    # callees that read the state without changing it (confirmed by the effects engine in C19.PURE)
    READ_ONLY = {'len', 'operator_average', 'vdot', 'norm', 'compute_right_operator_blocks', 'print', 'isinstance'}
    READ_ONLY_METHODS = {'as_vector', 'orthonormalize'}

    def __init__(self, repo, fi, report, psi='psi', ham='H', min_sites=1, two_site=False, fixed_sites=None):
        self.repo = repo
        self.fi = fi
        self.rep = report
        self.psi = psi
        self.ham = ham
        self.Lv = Affine.const(fixed_sites) if fixed_sites is not None else L
        self.x = SweepExtractor(fi, psi, ham, Lv=self.Lv)
        self.base_facts = [L - Affine.const(min_sites)] if fixed_sites is None else []
        self.schedule = []          # per outer step: list of blocks
        self.cur_block = None
        self.stack_blocks = [self.schedule]
        self.loops = []
        self.counts = {'calls': 0, 'stores': 0}
        self.two_site = two_site
        self.label_stores = []
        self.dtenv = dt_locals(fi.node)

    # ------------------------------------------------------------------
    def ctx(self):
        return Ctx(list(self.base_facts), list(self.loops))

    def implies(self, x, y):
        """configuration x is at least as strong as configuration y"""
        c = self.ctx()
        try:
            return le(y.hi, x.hi, c) and le(x.lo, y.lo, c) and le(y.a, x.a, c) and le(x.b, y.b, c)
        except Undecided as ex:
            raise AnalysisError(f'{self.fi.qual}: {ex}')

    def need(self, kind, node, cond_fn, text):
        try:
            ok = cond_fn()
        except Undecided as ex:
            # an obligation that cannot be established for all positions of the sweep is reported, not skipped
            self.rep.add(kind, node, False, text + f' -- cannot be established for every position of the sweep ({ex})')
            return False
        self.rep.add(kind, node, ok, text)
        return ok

    # ------------------------------------------------------------------
    def run(self, stmts, st):
        for s in stmts:
            st = self.stmt(s, st)
        return st

    def stmt(self, s, st):
        if isinstance(s, ast.For):
            return self.loop(s, st)
        if isinstance(s, (ast.Assert, ast.Pass)):
            return st
        if isinstance(s, ast.Expr):
            if isinstance(s.value, ast.Constant):
                return st
            return self.simple(s, [], s.value, st)
        if isinstance(s, ast.Assign):
            tg = []
            for t in s.targets:
                tg += list(t.elts) if isinstance(t, (ast.Tuple, ast.List)) else [t]
            return self.simple(s, tg, s.value, st)
        if isinstance(s, ast.Return):
            return st
        if isinstance(s, ast.If):
            return self.branch(s, st)
        if isinstance(s, ast.AugAssign):
            k = self.x.site_ref(s.target)
            if k is not None:
                return self.write_site(s, k, 'centre', st)
            return st
        raise AnalysisError(f'{self.fi.qual}: statement kind {s.__class__.__name__} at line {s.lineno} not recognised')

    # ------------------------------------------------------------------
    def branch(self, s, st):
        """a conditional with an opaque test: both arms are followed, the configurations are joined to the weaker
        one; arms that contain scheduled steps (local evolution / optimisation) are not an idiom of the sweeps"""
        dec = self.static_test(s.test)
        if dec is not None:
            return self.run(s.body if dec else s.orelse, st)
        outs, temps = [], []
        t0 = dict(self.x.temps)
        for arm in (s.body, s.orelse):
            blocks = []
            self.stack_blocks.append(blocks)
            self.x.temps = dict(t0)
            try:
                outs.append(self.run(arm, st.copy()))
            finally:
                self.stack_blocks.pop()
            temps.append(self.x.temps)
            if blocks:
                raise AnalysisError(f'{self.fi.qual}: conditional at line {s.lineno} contains sweep steps; the schedule '
                                    f'would depend on run-time values')
        self.x.temps = {k: v for k, v in temps[0].items() if temps[1].get(k) == v}
        c = self.ctx()
        x, y = outs
        try:
            return State(amin(x.hi, y.hi, c), amax(x.lo, y.lo, c), amin(x.a, y.a, c), amax(x.b, y.b, c))
        except Undecided as ex:
            raise AnalysisError(f'{self.fi.qual}: conditional at line {s.lineno}: {ex}')

    def static_test(self, test):
        """a comparison of affine expressions in L and the loop variables that the number-of-sites case and the loop
        intervals decide: True / False, else None"""
        if isinstance(test, ast.UnaryOp) and isinstance(test.op, ast.Not):
            d = self.static_test(test.operand)
            return None if d is None else not d
        if not (isinstance(test, ast.Compare) and len(test.ops) == 1):
            return None
        ea = self.x.env_affine()
        lenmap = {f'{self.psi}.A': self.Lv, 'self.A': self.Lv, 'BR': self.Lv, 'BL': self.Lv}
        attrs = {f'{self.psi}.nsites': self.Lv, f'{self.ham}.nsites': self.Lv}
        a = try_affine(test.left, ea, attrs, lenmap)
        b = try_affine(test.comparators[0], ea, attrs, lenmap)
        if a is None or b is None:
            return None
        known = {'L'} | {v_ for v_, _, _ in self.loops}
        if not (a.syms() | b.syms()) <= known:
            return None
        c = self.ctx()
        op = test.ops[0]

        def lt(x, y):           # x < y: True / False / None
            if nonneg(y - x - ONE, c):
                return True
            if nonneg(x - y, c):
                return False
            return None
        if isinstance(op, ast.Lt):
            return lt(a, b)
        if isinstance(op, ast.Gt):
            return lt(b, a)
        if isinstance(op, ast.LtE):
            d = lt(b, a)
            return None if d is None else not d
        if isinstance(op, ast.GtE):
            d = lt(a, b)
            return None if d is None else not d
        if isinstance(op, (ast.Eq, ast.NotEq)):
            if a == b:
                d = True
            elif lt(a, b) or lt(b, a):
                d = False
            else:
                return None
            return d if isinstance(op, ast.Eq) else not d
        return None

    def fold_static(self, e):
        """conditional expressions with a statically decided test are replaced by the chosen arm"""
        while isinstance(e, ast.IfExp):
            d = self.static_test(e.test)
            if d is None:
                break
            e = e.body if d else e.orelse
        return e

    def peel(self, s, var, it, desc):
        """a loop whose body tests the loop variable against its first / last value is split into that iteration
        (guarded by the loop being non-empty) and the loop over the remaining values; returns statements or None"""
        lo = it.args[0] if len(it.args) == 2 else ast.Constant(0)
        hi = it.args[-1]
        one = ast.Constant(1)
        ea = self.x.env_affine()
        lenmap = {f'{self.psi}.A': self.Lv, 'self.A': self.Lv, 'BR': self.Lv, 'BL': self.Lv}
        alo, ahi = try_affine(lo, ea, len_syms=lenmap), try_affine(hi, ea, len_syms=lenmap)
        if alo is None or ahi is None:
            return None
        first_v, last_v = (ahi - ONE, alo) if desc else (alo, ahi - ONE)
        which = None
        for n in ast.walk(ast.Module(s.body, [])):
            if isinstance(n, ast.Compare) and len(n.ops) == 1 and isinstance(n.ops[0], (ast.Eq, ast.NotEq)):
                l_, r_ = n.left, n.comparators[0]
                if isinstance(r_, ast.Name) and r_.id == var:
                    l_, r_ = r_, l_
                if isinstance(l_, ast.Name) and l_.id == var:
                    b = try_affine(r_, ea, len_syms=lenmap)
                    if b is not None and b == first_v:
                        which = which or 'first'
                    elif b is not None and b == last_v:
                        which = which or 'last'
        if which is None:
            return None
        call = lambda a, b: ast.Call(ast.Name('range', ast.Load()), [a, b], [])
        plus = lambda a: ast.BinOp(a, ast.Add(), one)
        minus = lambda a: ast.BinOp(a, ast.Sub(), one)
        at_hi = (which == 'first') == desc          # the peeled value is hi - 1
        rest_it = call(lo, minus(hi)) if at_hi else call(plus(lo), hi)
        if desc:
            rest_it = ast.Call(ast.Name('reversed', ast.Load()), [rest_it], [])
        rest = ast.For(s.target, rest_it, s.body, [], lineno=s.lineno, col_offset=s.col_offset)
        bind = ast.Assign([ast.Name(var, ast.Store())], minus(hi) if at_hi else lo, lineno=s.lineno, col_offset=s.col_offset)
        once = ast.If(ast.Compare(lo, [ast.Lt()], [hi]), [bind] + list(s.body), [], lineno=s.lineno, col_offset=s.col_offset)
        out = [once, rest] if which == 'first' else [rest, once]
        for o in out:
            ast.fix_missing_locations(o)
        return out

    def loop(self, s, st):
        if all(isinstance(b, ast.Assert) or (isinstance(b, ast.Expr) and isinstance(b.value, ast.Constant)) for b in s.body):
            return st        # a loop of consistency checks changes nothing
        if not isinstance(s.target, ast.Name):
            raise AnalysisError(f'{self.fi.qual}: loop target at line {s.lineno} is not a name')
        var = s.target.id
        it = s.iter
        desc = False
        if isinstance(it, ast.Call) and norm(it.func) == 'reversed' and len(it.args) == 1:
            desc = True
            it = it.args[0]
        if isinstance(it, ast.Call) and norm(it.func) == 'range' and len(it.args) == 3 and norm(it.args[2]) == '-1' \
                and not desc:
            # range(a, b, -1) visits a, a-1, .., b+1: reversed(range(b + 1, a + 1))
            desc = True
            one = ast.Constant(1)
            it = ast.Call(ast.Name('range', ast.Load()),
                          [ast.BinOp(it.args[1], ast.Add(), one), ast.BinOp(it.args[0], ast.Add(), one)], [])
        if not (isinstance(it, ast.Call) and norm(it.func) == 'range' and 1 <= len(it.args) <= 2):
            raise AnalysisError(f'{self.fi.qual}: loop `{norm(s.iter)}` is not range(...) / reversed(range(...))')
        if norm(it).startswith('range(len(B'):
            return st        # consistency-check loop over the environment list
        if not getattr(s, '_peeled', False):
            parts = self.peel(s, var, it, desc)
            if parts is not None:
                for p_ in parts:
                    if isinstance(p_, ast.For):
                        p_._peeled = True
                return self.run(parts, st)
        ea = self.x.env_affine()
        lenmap = {f'{self.psi}.A': self.Lv, 'self.A': self.Lv, 'BR': self.Lv, 'BL': self.Lv}
        attrs = {f'{self.psi}.nsites': self.Lv, f'{self.ham}.nsites': self.Lv, 'self.nsites': self.Lv}
        args = [try_affine(a, ea, attrs, lenmap) for a in it.args]
        if any(a is None for a in args):
            raise AnalysisError(f'{self.fi.qual}: bounds of `{norm(s.iter)}` are not affine')
        if args[-1].syms() - {'L'}:
            # outer loop over steps / sweeps: body must map the state to itself
            if var in ('n',) or 'num' in norm(it):
                outer_blocks = []
                self.stack_blocks.append(outer_blocks)
                out = self.run(s.body, st.copy())
                self.stack_blocks.pop()
                self.stack_blocks[-1].append(('step', outer_blocks))
                ok = self.implies(out, st)
                self.rep.add('outer-fixpoint', s, ok,
                             f'one pass of the `{norm(s.iter)}` loop re-establishes its starting configuration '
                             f'(start {st}, end {out})')
                return st
            raise AnalysisError(f'{self.fi.qual}: bounds of `{norm(s.iter)}` are not affine in L')
        i0 = ZERO if len(args) == 1 else args[0]
        i1 = (args[0] if len(args) == 1 else args[1]) - ONE
        v = Affine.sym(var)
        first, step = (i1, -1) if desc else (i0, 1)
        c_ = self.ctx()
        if nonneg(i0 - i1 - ONE, c_):
            self.stack_blocks[-1].append(('loop', var, i0, i1, desc, []))
            return st                      # provably empty for this number of sites
        if i0.is_const() and i1.is_const() and i1.c - i0.c < 16:
            # constant trip count (fixed small lattice): unroll exactly
            vals = list(range(int(i0.c), int(i1.c) + 1))
            if desc:
                vals.reverse()
            for val in vals:
                self.x.env[var] = Affine.const(val)
                try:
                    st = self.run(s.body, st)
                finally:
                    self.x.env.pop(var, None)
            return st
        if not nonneg(i1 - i0, c_):
            raise EmptinessUndecided(f'{self.fi.qual}: cannot decide whether `{norm(s.iter)}` is empty; analyse the '
                                     f'small lattice separately (fixed_sites)')
        blocks = []
        # probes: the body at the first and at the second iteration (only to *guess* the invariant)
        saved = (len(self.rep.items), dict(self.x.temps), list(self.label_stores), dict(self.counts))

        def probe(state, value, facts):
            self.stack_blocks.append([])
            self.x.env[var] = value
            self.base_facts.extend(facts)
            try:
                return self.run(s.body, state.copy())
            finally:
                self.stack_blocks.pop()
                del self.base_facts[len(self.base_facts) - len(facts):]
                self.x.env.pop(var, None)
                del self.rep.items[saved[0]:]
                self.x.temps = dict(saved[1])
                self.label_stores = list(saved[2])
                self.counts = dict(saved[3])
        stepa = Affine.const(step)
        e0 = probe(st, first, [i1 - i0])
        e1 = probe(e0, first + stepa, [i1 - i0 - ONE])
        delta = []
        for x_, y_ in zip(e1.tup(), e0.tup()):
            d = x_ - y_
            if not d.is_const():
                raise AnalysisError(f'{self.fi.qual}: loop `{norm(s.iter)}`: state increment {d} is not constant')
            delta.append(d.c * step)        # increment per unit of the loop variable
        # candidate invariant: S(var) = state at the top of iteration `var`; S(first + step) = e0
        line_b = [y + (v - first - stepa).scale(d) for y, d in zip(e0.tup(), delta)]     # through the 2nd iteration
        line_a = [y + (v - first).scale(d) for y, d in zip(st.tup(), delta)]             # through the entry state
        comps = []
        self.base_facts.append(i1 - i0)
        try:
            c0 = self.ctx()
            for k, (pa, pb) in enumerate(zip(line_a, line_b)):
                # the weaker of the two (hi, a: smaller; lo, b: larger); both have the same slope
                try:
                    if k in (0, 2):
                        comps.append(amin(pa, pb, c0))
                    else:
                        comps.append(amax(pa, pb, c0))
                except Undecided as ex:
                    raise AnalysisError(f'{self.fi.qual}: loop `{norm(s.iter)}`: {ex}')
        finally:
            self.base_facts.pop()
        inv = State(*comps)
        inv_first = inv.subst(var, first)
        self.base_facts.append(i1 - i0)
        try:
            ok_entry = self.implies(st, inv_first)
        finally:
            self.base_facts.pop()
        self.rep.add('loop-entry', s, ok_entry, f'`for {var} in {norm(s.iter)}`: the configuration before the loop {st} '
                                                f'establishes the loop invariant at the first iteration {inv_first}')
        self.stack_blocks.append(blocks)
        self.loops.append((var, i0, i1))
        self.x.env[var] = v
        try:
            out = self.run(s.body, inv.copy())
            nxt = inv.subst(var, v + stepa)
            self.rep.add('loop-invariant', s, self.implies(out, nxt),
                         f'`for {var} in {norm(s.iter)}`: invariant {inv} is inductive (body yields {out}, '
                         f'next iteration expects {nxt})')
            last = i0 if desc else i1
            exit_state = inv.subst(var, last + stepa)
            # sharper exit state: the body once more at the last iteration (the invariant may be weaker than the
            # truth at the far end); if the loop may be empty the entry state is joined in
            n_items = len(self.rep.items)
            save2 = (dict(self.x.temps), list(self.label_stores), dict(self.counts))
            self.stack_blocks.append([])
            self.loops.pop()
            self.x.env[var] = last
            self.base_facts.append(i1 - i0)
            try:
                at_last = self.run(s.body, inv.subst(var, last))
            finally:
                self.base_facts.pop()
                self.loops.append((var, i0, i1))
                self.x.env[var] = v
                self.stack_blocks.pop()
                del self.rep.items[n_items:]
                self.x.temps, self.label_stores, self.counts = save2
            exit_state = at_last
        finally:
            self.loops.pop()
            self.x.env.pop(var, None)
            self.stack_blocks.pop()
        self.stack_blocks[-1].append(('loop', var, i0, i1, desc, blocks))
        return exit_state

    # ------------------------------------------------------------------
    def write_site(self, node, k, kind, st):
        """kind in {'left', 'right', 'centre', 'all-right'}"""
        c = self.ctx()
        st = st.copy()
        self.counts['stores'] += 1
        for nm_ in [n_ for n_, t_ in self.x.temps.items() if t_ and t_[0] in ('site_alias', 'site_view')]:
            del self.x.temps[nm_]           # a site tensor changes: local names for site tensors are stale
        try:
            st.hi = amin(st.hi, k, c)
            st.lo = amax(st.lo, k, c)
            if kind == 'left':
                try:
                    if le(k, st.a, c):
                        st.a = amax(st.a, k + ONE, c)
                except Undecided:
                    pass        # keeping `a` is the weaker (sound) alternative
            else:
                st.a = amin(st.a, k, c)
            if kind == 'right':
                try:
                    if le(st.b, k, c):
                        st.b = amin(st.b, k - ONE, c)
                except Undecided:
                    pass
            else:
                st.b = amax(st.b, k, c)
        except Undecided as ex:
            raise AnalysisError(f'{self.fi.qual}: line {node.lineno}: {ex}')
        return st

    def event(self, ev):
        self.stack_blocks[-1].append(('event', ev))

    # ------------------------------------------------------------------
    def simple(self, s, targets, value, st):
        x = self.x
        value = self.fold_static(value)
        if len(targets) == 1 and isinstance(targets[0], ast.Name) and not isinstance(value, ast.Call):
            a_dt = dt_coeff(value, env=self.dtenv)
            if a_dt is not None and targets[0].id != 'dt':
                self.dtenv = dict(self.dtenv)
                self.dtenv[targets[0].id] = Affine.sym('dt').scale(a_dt)      # a local multiple of the time step
                return st
            if targets[0].id in self.dtenv:
                self.dtenv = {k_: v_ for k_, v_ in self.dtenv.items() if k_ != targets[0].id}
        # ---- calls that define temporaries
        if isinstance(value, ast.Call):
            f = norm(value.func)
            a = value.args
            if f == 'merge_mps_tensor_pair' and len(a) == 2 and len(targets) == 1 and isinstance(targets[0], ast.Name):
                k0, k1 = x.site_ref(a[0]), x.site_ref(a[1])
                self.counts['calls'] += 1
                ok = k0 is not None and k1 is not None and k1 == k0 + ONE
                self.rep.add('slot', s, ok, f'`{norm(value)}` merges neighbouring sites k, k+1 in this order')
                if k0 is not None and k1 is not None:
                    x.temps[targets[0].id] = ('merged', k0, k0 + ONE)
                return st
            if f == 'merge_mpo_tensor_pair' and len(a) == 2 and len(targets) == 1 and isinstance(targets[0], ast.Name):
                k0, k1 = x.site_ref(a[0], self.ham), x.site_ref(a[1], self.ham)
                self.counts['calls'] += 1
                ok = k0 is not None and k1 is not None and k1 == k0 + ONE
                self.rep.add('slot', s, ok, f'`{norm(value)}` merges neighbouring MPO sites k, k+1 in this order')
                if k0 is not None and k1 is not None:
                    x.temps[targets[0].id] = ('merged_op', k0, k0 + ONE)
                return st
            if f in ('eigh_krylov', 'expm_krylov') and a and isinstance(a[0], ast.Lambda) and len(a) >= 3:
                syn = self.inline_local_problem(value)
                if syn is not None:
                    value = syn
                    f = norm(value.func)
                    a = value.args
            if f in ('_local_hamiltonian_step', '_minimize_local_energy'):
                return self.local_step(s, targets, value, st)
            if f == '_local_bond_step':
                return self.bond_step(s, targets, value, st)
            if f in ('contraction_operator_step_left', 'contraction_operator_step_right'):
                return self.env_update(s, targets, value, st)
            if f == 'split_mps_tensor':
                return self.split(s, targets, value, st)
            if f in ('local_orthonormalize_left_qr', 'local_orthonormalize_right_qr',
                     'local_orthonormalize_left_svd', 'local_orthonormalize_right_svd'):
                return self.local_orth(s, targets, value, st)
            if f == 'qr':
                return self.inline_qr(s, targets, value, st)
            if f == 'compute_right_operator_blocks':
                self.counts['calls'] += 1
                ok = [norm(z) for z in a] == [self.psi, self.ham]
                self.rep.add('slot', s, ok, f'`{norm(value)}`: environments are built from (psi, H)')
                # BR[k] is contracted from sites > k: all valid; meaningful for the effective problem when
                # sites > b are right-isometric (recorded by the canonical-form state)
                st = st.copy()
                st.lo = ZERO
                return st
            if f == f'{self.psi}.orthonormalize':
                mode = [k.value.value for k in value.keywords if k.arg == 'mode' and isinstance(k.value, ast.Constant)]
                if mode == ['right']:
                    return State(Affine.const(-1), self.Lv, ZERO, ZERO)
                if mode == ['left'] or not mode:
                    return State(Affine.const(-1), self.Lv, self.Lv, self.Lv - ONE)
                raise AnalysisError(f'{self.fi.qual}: orthonormalize mode not recognised')
        # ---- a private helper of the same module that receives the state: its body is followed in place
        if isinstance(value, ast.Call) and isinstance(value.func, ast.Name) and not targets and \
                all(isinstance(a_, ast.Name) for a_ in value.args) and not value.keywords:
            r_ = self.repo.resolve_name(self.fi.module, value.func.id)
            if r_ and r_[0] == 'func' and r_[1].module == self.fi.module and \
                    any(a_.id == self.psi for a_ in value.args) and len(getattr(self, '_inl', [])) < 3:
                callee = r_[1]
                body = [b for b in callee.node.body if not (isinstance(b, ast.Expr) and isinstance(b.value, ast.Constant))]
                if len(callee.params) == len(value.args) and not any(isinstance(x, ast.Return) and x.value is not None
                                                                       for b in body for x in ast.walk(b)):
                    import copy as _copy
                    from .canon import _Ren
                    ren = {f_: a_.id for f_, a_ in zip(callee.params, value.args) if f_ != a_.id}
                    self._inl = getattr(self, '_inl', []) + [callee.qual]
                    try:
                        for b in body:
                            if isinstance(b, ast.Return):
                                break
                            b2 = _Ren(ren).visit(_copy.deepcopy(b)) if ren else b
                            st = self.stmt(b2, st)
                    finally:
                        self._inl.pop()
                    return st
        # ---- any other call that receives the state as a whole may change it: nothing is known afterwards
        for c in ast.walk(value):
            if isinstance(c, ast.Call):
                fn = norm(c.func)
                whole = [z for z in c.args if isinstance(z, ast.Name) and z.id == self.psi]
                meth = fn.startswith(self.psi + '.') and fn.count('.') == 1
                if (whole and fn not in self.READ_ONLY) or (meth and fn.split('.')[1] not in self.READ_ONLY_METHODS):
                    return State(Affine.const(-1), self.Lv, ZERO, self.Lv - ONE)
        # ---- BL[0] = identity
        if len(targets) == 1:
            er = x.env_ref(targets[0])
            if er is not None:
                name, k = er
                val = norm(value)
                if name == 'BL' and k == ZERO and val.startswith('np.array([[[1]]]'):
                    st = st.copy()
                    st.hi = amax(st.hi, ZERO, self.ctx())
                    return st
                raise AnalysisError(f'{self.fi.qual}: store `{norm(s)[:60]}` into an environment list not recognised')
            if isinstance(targets[0], ast.Name) and targets[0].id in ('BL',) and isinstance(value, ast.ListComp):
                return st
            if isinstance(targets[0], ast.Name) and targets[0].id in ('BL',) and isinstance(value, ast.BinOp) and \
                    isinstance(value.op, ast.Add) and isinstance(value.left, ast.List) and len(value.left.elts) == 1 and \
                    norm(value.left.elts[0]).startswith('np.array([[[1]]]') and 'None' in norm(value.right):
                # BL = [identity] + (L - 1) * [None]: the list is created with BL[0] in place
                st = st.copy()
                st.hi = amax(st.hi, ZERO, self.ctx())
                return st
            if isinstance(targets[0], ast.Name) and targets[0].id in ('BL',) and \
                    (norm(value) in ('L * [None]', '[None] * L') or isinstance(value, ast.ListComp)):
                return st
        # ---- stores into psi.A[...] from expressions over temporaries
        for t in targets:
            k = x.site_ref(t) if not isinstance(t, ast.Name) else None      # rebinding a local name stores nothing
            if k is None and isinstance(t, ast.Subscript) and x.site_ref(t.value) is not None:
                # psi.A[k][...] = value: the existing array is written in place - it keeps its dtype and shape, whereas
                # the factors of a QR / the results of the local steps may be complex and of a different bond dimension
                k = x.site_ref(t.value)
                used = sorted(nm for nm in {n.id for n in ast.walk(value) if isinstance(n, ast.Name)}
                              if x.temps.get(nm) and x.temps[nm][0] in ('bondmat', 'local_result', 'qfactor', 'pending_site'))
                if used:
                    self.rep.add('slot', s, False,
                                 f'`{norm(s)[:70]}`: the new tensor of site {k} replaces the list entry (written into the '
                                 f'existing array it is cast to the old dtype - the imaginary part of a complex update of a '
                                 f'real-stored tensor is discarded - and must keep the old bond dimensions)')
            if k is not None:
                for nm in {n.id for n in ast.walk(value) if isinstance(n, ast.Name)}:
                    tt = x.temps.get(nm)
                    if tt and tt[0] == 'local_result':
                        self.rep.add('slot', s, k == tt[1], f'result of the local step on site {tt[1]} is stored back into '
                                                           f'psi.A[{k}]')
                kind = self.classify_store(s, t, value, k)
                for nm in {n.id for n in ast.walk(value) if isinstance(n, ast.Name)}:
                    tt = x.temps.get(nm)
                    if tt and tt[0] == 'bondmat':
                        want = tt[1] if tt[2] == 'left' else tt[1] - ONE
                        self.rep.add('slot', s, k == want,
                                     f'bond matrix `{nm}` of bond {tt[1]} is absorbed into the neighbouring site {want} '
                                     f'(stored into psi.A[{k}])')
                st = self.write_site(s, k, kind, st)
        # ---- a site tensor with a bond matrix absorbed, held in a local before it is handed on / stored
        if len(targets) == 1 and isinstance(targets[0], ast.Name):
            sites_ = [x.site_ref(n_) for n_ in ast.walk(value) if isinstance(n_, ast.Subscript)]
            sites_ = [k_ for k_ in sites_ if k_ is not None]
            bms = [x.temps[n_.id] for n_ in ast.walk(value) if isinstance(n_, ast.Name) and
                   x.temps.get(n_.id) and x.temps[n_.id][0] == 'bondmat']
            if len(sites_) == 1 and len(bms) == 1:
                tt = bms[0]
                want = tt[1] if tt[2] == 'left' else tt[1] - ONE
                self.rep.add('slot', s, sites_[0] == want, f'bond matrix of bond {tt[1]} is absorbed into the neighbouring site '
                                                           f'{want} (combined with psi.A[{sites_[0]}])')
                x.temps[targets[0].id] = ('pending_site', sites_[0])
                return st
        # ---- bookkeeping of temporaries
        if len(targets) == 1 and isinstance(targets[0], ast.Name):
            nm = targets[0].id
            if nm == 'L':
                return st
            if isinstance(value, ast.Call) and norm(value.func) in ('np.transpose',) and value.args and \
                    isinstance(value.args[0], ast.Name) and value.args[0].id in x.temps:
                x.temps[nm] = x.temps[value.args[0].id]
            elif isinstance(value, ast.Name) and x.temps.get(value.id) and \
                    x.temps[value.id][0] in ('bondmat', 'qfactor', 'label', 'local_result', 'pending_site', 'site_alias', 'site_view'):
                x.temps[nm] = x.temps[value.id]         # a second name for the same value
            elif x.site_ref(value, self.ham) is not None:
                kk = x.site_ref(value, self.ham)
                x.temps[nm] = ('merged_op', kk, kk)
            elif isinstance(value, ast.ListComp) and len(value.generators) == 1 and not value.generators[0].ifs and \
                    pmatch(f'merge_mpo_tensor_pair({self.ham}.A[__j], {self.ham}.A[__j + 1])', value.elt) is not None and \
                    pmatch(f'merge_mpo_tensor_pair({self.ham}.A[__j], {self.ham}.A[__j + 1])', value.elt)['__j'] == \
                    norm(value.generators[0].target) and norm(value.generators[0].iter) in ('range(L - 1)', f'range({self.ham}.nsites - 1)',
                                                                                         f'range(len({self.ham}.A) - 1)'):
                x.temps[nm] = ('merged_op_list',)
            elif isinstance(value, ast.Subscript) and x.site_ref(value) is not None:
                # a local name for the current tensor of a site (valid until a site tensor is written)
                x.temps[nm] = ('site_alias', x.site_ref(value), self.psi)
            elif self.view_of_site(value) is not None:
                # a transposed / reshaped view of the current tensor of a site (only an in-line QR may consume it)
                x.temps[nm] = ('site_view', self.view_of_site(value))
            elif x.temps.get(nm, ('',))[0] in ('local_result', 'site_view'):
                del x.temps[nm]                 # the name is rebound to something else
            elif isinstance(value, (ast.BinOp, ast.Name, ast.Constant, ast.Attribute, ast.Call)) and nm not in x.temps and \
                    not (isinstance(value, ast.Call) and norm(value.func) != 'len'):
                # (the number of sites may be spelled <object>.nsites / len(<object>.A))
                a_ = try_affine(value, x.env_affine(),
                                {f'{self.psi}.nsites': self.Lv, f'{self.ham}.nsites': self.Lv},
                                {f'{self.psi}.A': self.Lv, f'{self.ham}.A': self.Lv})
                known = {'L'} | {v_ for v_, _, _ in self.loops}
                if a_ is not None and a_.syms() <= known and not isinstance(getattr(value, 'value', 0), (str, float, bool)):
                    x.env[nm] = a_
        # stores of labels
        for t in targets:
            b = pmatch(f'{self.psi}.qD[__k]', t)
            if b is not None:
                tl = x.idx(t.slice, 'qD')
                self.label_stores.append((s, tl, value))
                for nm in {n.id for n in ast.walk(value) if isinstance(n, ast.Name)}:
                    tt = x.temps.get(nm)
                    if tt and tt[0] == 'label':
                        self.rep.add('pairing', s, tl == tt[1], f'label `{nm}` of the re-factorised bond {tt[1]} is stored '
                                                                f'as psi.qD[{tl}]')
        return st

    # ------------------------------------------------------------------
    def inline_local_problem(self, call):
        """eigh_krylov(lambda x: apply_local_hamiltonian(L, R, W, x.reshape(A.shape)).reshape(-1), A.reshape(-1), n, 1)
        is the body of _minimize_local_energy(L, R, W, A, n); expm_krylov(lambda ..., A.reshape(-1), -dt, n, ..) that of
        _local_hamiltonian_step(L, R, W, A, dt, n) / _local_bond_step(L, R, C, dt, n): the equivalent helper call"""
        lam = call.args[0]
        body = lam.body
        if not (isinstance(body, ast.Call) and isinstance(body.func, ast.Attribute) and body.func.attr == 'reshape' and
                isinstance(body.func.value, ast.Call)):
            return None
        inner = body.func.value
        fn = norm(inner.func)
        start = call.args[1]
        if not (isinstance(start, ast.Call) and isinstance(start.func, ast.Attribute) and start.func.attr == 'reshape'
                and len(start.args) == 1 and norm(start.args[0]) == '-1'):
            return None
        tensor = start.func.value
        def mk(name, args):
            c = ast.Call(func=ast.Name(id=name, ctx=ast.Load()), args=args, keywords=[])
            ast.copy_location(c, call)
            ast.fix_missing_locations(c)
            return c
        if norm(call.func) == 'eigh_krylov' and fn == 'apply_local_hamiltonian' and len(inner.args) == 4 and len(call.args) >= 4:
            return mk('_minimize_local_energy', list(inner.args[:3]) + [tensor, call.args[2]])
        if norm(call.func) == 'expm_krylov' and len(call.args) >= 4:
            t = call.args[2]
            dt = t.operand if isinstance(t, ast.UnaryOp) and isinstance(t.op, ast.USub) else ast.UnaryOp(op=ast.USub(), operand=t)
            if fn == 'apply_local_hamiltonian' and len(inner.args) == 4:
                return mk('_local_hamiltonian_step', list(inner.args[:3]) + [tensor, dt, call.args[3]])
            if fn == 'apply_local_bond_contraction' and len(inner.args) == 3:
                return mk('_local_bond_step', list(inner.args[:2]) + [tensor, dt, call.args[3]])
        return None

    def classify_store(self, s, target, value, k):
        """isometry kind of an in-line store into psi.A[k] (values built from the factors of an in-line qr)"""
        x = self.x
        names = {n.id for n in ast.walk(value) if isinstance(n, ast.Name)}
        for nm in names:
            t = x.temps.get(nm)
            if t and t[0] == 'qfactor':
                # Q.reshape(...): bond to the right of the row group -> left-isometric; a transpose (0, 2, 1)
                # afterwards moves the bond to the left slot -> right-isometric
                transposed = any(isinstance(c, ast.Call) and isinstance(c.func, ast.Attribute) and
                                 c.func.attr == 'transpose' for c in ast.walk(value))
                kind = t[1]
                if kind == 'left' and not transposed:
                    return 'left'
                if kind == 'right' and transposed:
                    return 'right'
                return 'centre'
        return 'centre'

    # ------------------------------------------------------------------
    def local_step(self, s, targets, value, st):
        x = self.x
        f = norm(value.func)
        a = value.args
        self.counts['calls'] += 1
        if len(a) < 5:
            raise AnalysisError(f'{self.fi.qual}: `{norm(value)[:60]}`: too few arguments')
        bl, br = x.env_ref(a[0]), x.env_ref(a[1])
        W, A = x.op_arg(a[2]), x.tensor_arg(a[3])
        if bl is None or br is None or bl[0] != 'BL' or br[0] != 'BR':
            self.rep.add('slot', s, False, f'`{norm(value)[:70]}`: left/right environment slots must receive BL[.] / BR[.]')
            return st
        if A is None:
            raise AnalysisError(f'{self.fi.qual}: `{norm(value)[:70]}`: tensor argument not recognised')
        if W is None:
            self.rep.add('slot', s, False, f'`{norm(value)[:70]}`: the operator argument `{norm(a[2])}` is (the merge of) the '
                                           f'current tensors {self.ham}.A[.] of the sites of the step')
            W = A
        c = self.ctx()
        lo_site, hi_site = A
        self.rep.add('slot', s, W == A, f'`{norm(value)[:70]}`: MPO sites {W} match state sites {A}')
        self.rep.add('slot', s, bl[1] == lo_site, f'`{norm(value)[:70]}`: left environment BL[{bl[1]}] belongs to the left '
                                                   f'bond of site {lo_site}')
        self.rep.add('slot', s, br[1] == hi_site, f'`{norm(value)[:70]}`: right environment BR[{br[1]}] belongs to the '
                                                   f'right bond of site {hi_site}')
        self.need('stale', s, lambda: le(bl[1], st.hi, c), f'BL[{bl[1]}] is up to date when used (valid up to {st.hi})')
        self.need('stale', s, lambda: le(st.lo, br[1], c), f'BR[{br[1]}] is up to date when used (valid from {st.lo})')
        self.need('canonical', s, lambda: le(lo_site, st.a, c),
                  f'sites left of {lo_site} are left-isometric at the local step (left-isometric below {st.a})')
        self.need('canonical', s, lambda: le(st.b, hi_site, c),
                  f'sites right of {hi_site} are right-isometric at the local step (right-isometric above {st.b})')
        coef = None
        if f == '_local_hamiltonian_step':
            coef = dt_coeff(self.fold_static(a[4]), env=self.dtenv)
            if coef is None:
                raise AnalysisError(f'{self.fi.qual}: time-step argument `{norm(a[4])}` is not a multiple of dt')
        kind = 'H1' if lo_site == hi_site else 'H2'
        self.event(Event(kind, s, lo=lo_site, hi=hi_site, coef=coef))
        # target
        tgt = targets[-1] if f == '_minimize_local_energy' and len(targets) == 2 else (targets[0] if targets else None)
        if f == '_minimize_local_energy':
            self.last_energy = s
        if tgt is None:
            raise AnalysisError(f'{self.fi.qual}: result of `{norm(value)[:50]}` is dropped')
        k = x.site_ref(tgt)
        if k is None and isinstance(tgt, ast.Subscript) and x.site_ref(tgt.value) is not None:
            # psi.A[k][...] = step(...): written into the existing array, which keeps its dtype (a complex step of a
            # real-stored tensor loses its imaginary part) and its shape
            k = x.site_ref(tgt.value)
            self.rep.add('slot', s, False,
                         f'`{norm(s)[:70]}`: the result of the local step replaces the list entry (written into the existing array it '
                         f'is cast to the old dtype - the imaginary part of a complex update of a real-stored tensor is discarded)')
        if k is not None:
            self.rep.add('slot', s, k == lo_site and lo_site == hi_site,
                         f'result of the local step on site {lo_site} is stored back into psi.A[{k}]')
            return self.write_site(s, k, 'centre', st)
        if isinstance(tgt, ast.Name):
            if lo_site == hi_site:
                # the result of the local problem on one site, kept in a local until it is stored back
                x.temps[tgt.id] = ('local_result', lo_site)
                return st
            ok = isinstance(a[3], ast.Name) and tgt.id == a[3].id
            self.rep.add('slot', s, ok, f'merged tensor `{tgt.id}` is replaced by its evolved / optimised version')
            return st
        raise AnalysisError(f'{self.fi.qual}: target of the local step not recognised')

    def bond_step(self, s, targets, value, st):
        x = self.x
        a = value.args
        self.counts['calls'] += 1
        bl, br = x.env_ref(a[0]), x.env_ref(a[1])
        if bl is None or br is None or bl[0] != 'BL' or br[0] != 'BR':
            self.rep.add('slot', s, False, f'`{norm(value)[:70]}`: environment slots must receive BL[.] / BR[.]')
            return st
        c = self.ctx()
        k = bl[1]
        self.rep.add('slot', s, br[1] + ONE == k, f'`{norm(value)[:70]}`: BL[{bl[1]}] and BR[{br[1]}] enclose one bond')
        arg = a[2]
        if isinstance(arg, ast.Call) and norm(arg.func) == 'np.transpose' and len(arg.args) == 1:
            arg = arg.args[0]
        elif isinstance(arg, ast.Attribute) and arg.attr == 'T':
            arg = arg.value
        elif isinstance(arg, ast.Call) and isinstance(arg.func, ast.Attribute) and arg.func.attr == 'transpose' and not arg.args:
            arg = arg.func.value
        Cn = arg.id if isinstance(arg, ast.Name) else None
        t = x.temps.get(Cn)
        okc = t is not None and t[0] == 'bondmat'
        self.rep.add('slot', s, okc and t[1] == k, f'`{norm(value)[:70]}`: bond matrix `{Cn}` lives on bond {k}'
                     + (f' (it was produced on bond {t[1]})' if okc else ' (it is not the R factor of a local QR)'))
        self.need('stale', s, lambda: le(bl[1], st.hi, c), f'BL[{bl[1]}] is up to date when used (valid up to {st.hi})')
        self.need('stale', s, lambda: le(st.lo, br[1], c), f'BR[{br[1]}] is up to date when used (valid from {st.lo})')
        self.need('canonical', s, lambda: le(k, st.a, c), f'sites left of bond {k} are left-isometric at the bond step')
        self.need('canonical', s, lambda: le(st.b, k - ONE, c), f'sites right of bond {k} are right-isometric at the bond step')
        coef = dt_coeff(self.fold_static(a[3]), env=self.dtenv)
        if coef is None:
            raise AnalysisError(f'{self.fi.qual}: time-step argument `{norm(a[3])}` is not a multiple of dt')
        self.event(Event('K', s, lo=k, hi=k, coef=coef))
        ok = len(targets) == 1 and isinstance(targets[0], ast.Name)
        self.rep.add('slot', s, ok, 'the evolved bond matrix is bound to a name (it replaces the bond matrix)')
        if ok and okc:
            x.temps[targets[0].id] = t          # the evolved matrix lives on the same bond
        return st

    def env_update(self, s, targets, value, st):
        x = self.x
        f = norm(value.func)
        a = value.args
        self.counts['calls'] += 1
        left = f.endswith('left')
        k1, k2 = x.site_ref(a[0]), x.site_ref(a[1])
        w = x.site_ref(a[2], self.ham)
        er = x.env_ref(a[3])
        tr = x.env_ref(targets[0]) if len(targets) == 1 else None
        if None in (k1, k2, w) or er is None or tr is None:
            raise AnalysisError(f'{self.fi.qual}: `{norm(s)[:80]}`: environment update not of the recognised form')
        c = self.ctx()
        self.rep.add('slot', s, norm(a[0]) == norm(a[1]), f'`{norm(value)[:60]}`: ket and bra are the same tensor')
        self.rep.add('slot', s, w == k1, f'`{norm(value)[:60]}`: MPO site {w} matches state site {k1}')
        name = 'BL' if left else 'BR'
        self.rep.add('slot', s, er[0] == name and er[1] == k1,
                     f'`{norm(value)[:60]}`: consumes the environment {name}[{k1}] of site {k1}')
        want = k1 + ONE if left else k1 - ONE
        self.rep.add('slot', s, tr[0] == name and tr[1] == want,
                     f'`{norm(s)[:70]}`: result is the environment {name}[{want}] of the neighbouring bond')
        st = st.copy()
        if left:
            self.need('stale', s, lambda: le(k1, st.hi, c), f'BL[{k1}] is up to date when extended (valid up to {st.hi})')
            self.need('canonical', s, lambda: le(k1 + ONE, st.a, c),
                      f'site {k1} is left-isometric when BL[{k1} + 1] is built from it (left-isometric below {st.a})')
            try:
                st.hi = amax(st.hi, want, c)
            except Undecided as ex:
                raise AnalysisError(f'{self.fi.qual}: {ex}')
        else:
            self.need('stale', s, lambda: le(st.lo, k1, c), f'BR[{k1}] is up to date when extended (valid from {st.lo})')
            self.need('canonical', s, lambda: le(st.b, k1 - ONE, c),
                      f'site {k1} is right-isometric when BR[{k1} - 1] is built from it (right-isometric above {st.b})')
            try:
                st.lo = amin(st.lo, want, c)
            except Undecided as ex:
                raise AnalysisError(f'{self.fi.qual}: {ex}')
        return st

    def split(self, s, targets, value, st):
        x = self.x
        a = value.args
        self.counts['calls'] += 1
        if len(a) < 5 or len(targets) != 3:
            raise AnalysisError(f'{self.fi.qual}: `{norm(s)[:80]}`: split not of the recognised form')
        A = x.tensor_arg(a[0])
        if A is None or A[0] + ONE != A[1]:
            raise AnalysisError(f'{self.fi.qual}: split of a tensor that is not a merged pair')
        k = A[0]
        t0, t1 = x.site_ref(targets[0]), x.site_ref(targets[1])
        b = pmatch(f'{self.psi}.qD[__k]', targets[2])
        tl = x.idx(targets[2].slice, 'qD') if b is not None else None
        self.rep.add('slot', s, t0 == k and t1 == k + ONE, f'split of sites ({k}, {k} + 1) is stored into psi.A[{t0}], psi.A[{t1}]')
        self.rep.add('pairing', s, tl is not None and tl == k + ONE,
                     f'bond label of the split is stored as psi.qD[{k} + 1] in the same assignment (got '
                     f'{norm(targets[2])})')
        self.rep.add('slot', s, norm(a[1]) == f'{self.psi}.qd' and norm(a[2]) == f'{self.psi}.qd',
                     'physical quantum numbers of both halves are psi.qd')
        q = a[3]
        okq = isinstance(q, (ast.List, ast.Tuple)) and len(q.elts) == 2
        if okq:
            b0 = pmatch(f'{self.psi}.qD[__k]', q.elts[0])
            b1 = pmatch(f'{self.psi}.qD[__k]', q.elts[1])
            okq = b0 is not None and b1 is not None and x.idx(q.elts[0].slice, 'qD') == k and \
                x.idx(q.elts[1].slice, 'qD') == k + Affine.const(2)
        self.rep.add('slot', s, okq, f'outer bond labels of the split are [psi.qD[{k}], psi.qD[{k} + 2]] (got {norm(q)})')
        distr = a[4].value if isinstance(a[4], ast.Constant) else None
        if distr == 'right':
            kinds = ('left', 'centre')
        elif distr == 'left':
            kinds = ('centre', 'right')
        else:
            kinds = ('centre', 'centre')
        st = self.write_site(s, k, kinds[0], st)
        st = self.write_site(s, k + ONE, kinds[1], st)
        self.event(Event('split', s, lo=k, hi=k + ONE, distr=distr))
        return st

    def local_orth(self, s, targets, value, st):
        x = self.x
        f = norm(value.func)
        a = value.args
        self.counts['calls'] += 1
        left = '_left_' in f
        if len(targets) != 3 or len(a) < 4:
            raise AnalysisError(f'{self.fi.qual}: `{norm(s)[:80]}`: local orthonormalisation not of the recognised form')
        obj = self.psi
        k = x.site_ref(a[0])
        if k is None and isinstance(a[0], ast.Name) and x.temps.get(a[0].id, ('',))[0] == 'local_result':
            # the optimised / evolved tensor of the site, orthonormalised before it is stored back
            k = x.temps[a[0].id][1]
            st = self.write_site(s, k, 'centre', st)
        if k is None:
            raise AnalysisError(f'{self.fi.qual}: first argument of {f} is not a site tensor')
        a1 = a[1]
        if isinstance(a1, ast.Name):
            # the dummy neighbour held in a local (bound once to a constant array)
            from .defuse import local_defs
            a1 = local_defs(self.fi.node).get(a1.id, a1)
        dummy = norm(a1).startswith('np.array([[[1]]]') or norm(a1).startswith('np.array([[[[1]]]]')
        nb = x.site_ref(a[1])
        want_nb = k + ONE if left else k - ONE
        if not dummy:
            self.rep.add('slot', s, nb is not None and nb == want_nb,
                         f'`{f}`: neighbour tensor is site {want_nb} (got `{norm(a[1])}`)')
        t0 = x.site_ref(targets[0])
        self.rep.add('slot', s, t0 == k, f'`{f}`: orthonormalised tensor goes back to psi.A[{k}]')
        if not dummy:
            t1 = x.site_ref(targets[1])
            self.rep.add('slot', s, t1 is not None and t1 == want_nb, f'`{f}`: updated neighbour goes back to site {want_nb}')
        self.rep.add('slot', s, norm(a[2]) == f'{obj}.qd', f'`{f}`: physical quantum numbers are {obj}.qd')
        # qD[k:k+2]
        sl = a[3]
        oks = isinstance(sl, ast.Subscript) and norm(sl.value) == f'{obj}.qD' and isinstance(sl.slice, ast.Slice)
        if oks:
            lo_ = ZERO if sl.slice.lower is None else x.idx(sl.slice.lower, 'qD')
            up_ = (self.Lv + ONE) if sl.slice.upper is None else x.idx(sl.slice.upper, 'qD')
            oks = lo_ == k and up_ == k + Affine.const(2)
        self.rep.add('slot', s, oks, f'`{f}`: bond labels passed are {obj}.qD[{k}:{k} + 2] (got `{norm(sl)}`)')
        bond = k + ONE if left else k
        b = pmatch(f'{obj}.qD[__k]', targets[2])
        tl = x.idx(targets[2].slice, 'qD') if b is not None else None
        if b is None and isinstance(targets[2], ast.Name) and targets[2].id != '_':
            # the label goes through a local first: the store `psi.qD[..] = <expr over that local>` is checked against the
            # bond recorded here (rule 'pairing' at the store)
            x.temps[targets[2].id] = ('label', bond)
        else:
            self.rep.add('pairing', s, tl is not None and tl == bond,
                         f'`{f}`: label of the re-factorised bond {bond} is stored as {obj}.qD[{bond}] in the same assignment '
                         f'(got `{norm(targets[2])}`)')
        st = self.write_site(s, k, 'left' if left else 'right', st)
        if not dummy:
            st = self.write_site(s, want_nb, 'centre', st)
        self.event(Event('refactor', s, lo=bond, hi=bond, dummy=dummy, left=left))
        return st

    def view_of_site(self, e):
        """`psi.A[k].transpose(..)`, `np.transpose(psi.A[k], ..)`, `.reshape(..)` chains -> k, else None"""
        seen = False
        while True:
            if isinstance(e, ast.Call) and isinstance(e.func, ast.Attribute) and e.func.attr in ('transpose', 'reshape'):
                if norm(e.func.value) == 'np' and e.args:
                    e = e.args[0]
                else:
                    e = e.func.value
                seen = True
                continue
            break
        if seen and isinstance(e, ast.Subscript):
            return self.x.site_ref(e)
        if seen and isinstance(e, ast.Name):
            t = self.x.temps.get(e.id)
            if t and t[0] in ('site_alias', 'site_view') and (t[0] == 'site_view' or t[2] == self.psi):
                return t[1]
        return None

    def inline_qr(self, s, targets, value, st):
        """(Q, C, label) = qr(psi.A[i].reshape((s[0]*s[1], s[2])), flatten([psi.qd, +-psi.qD[..]]), +-psi.qD[..])"""
        x = self.x
        a = value.args
        self.counts['calls'] += 1
        if len(targets) != 3 or len(a) != 3:
            raise AnalysisError(f'{self.fi.qual}: in-line qr `{norm(s)[:70]}` not of the recognised form')
        # quantum-number arguments held in locals are looked through (definitions unique in the function)
        from .defuse import local_defs, expand
        defs_ = {k_: v_ for k_, v_ in local_defs(self.fi.node).items() if isinstance(v_, (ast.Call, ast.UnaryOp))}
        a = [a[0]] + [expand(x_, defs_) if isinstance(x_, ast.Name) else x_ for x_ in a[1:]]
        m = a[0]
        site = None
        for n in ast.walk(m):
            k = x.site_ref(n) if isinstance(n, ast.Subscript) else None
            if k is not None:
                site = k
            t = x.temps.get(n.id) if isinstance(n, ast.Name) else None
            if t and t[0] == 'site_view' and site is None:
                site = t[1]
            if t and t[0] == 'local_result' and site is None:
                # the evolved / optimised tensor of the site, factorised before it is stored back: its isometry
                # replaces the site tensor in the store that follows
                site = t[1]
                st = self.write_site(s, site, 'centre', st)
        if site is None:
            raise AnalysisError(f'{self.fi.qual}: in-line qr does not factorise a site tensor')
        q0, q1 = norm(a[1]), norm(a[2])
        p = self.psi
        bL = pmatch(f'qnumber_flatten([{p}.qd, {p}.qD[__k]])', a[1])
        bR = pmatch(f'qnumber_flatten([{p}.qd, -{p}.qD[__k]])', a[1])
        if bL is not None and pmatch(f'{p}.qD[__m]', a[2]) is not None:
            left = True
            kk = x.idx(a[1].args[0].elts[1].slice, 'qD')
            mm = x.idx(a[2].slice, 'qD')
            ok = kk == site and mm == site + ONE
        elif bR is not None and pmatch(f'-{p}.qD[__m]', a[2]) is not None:
            left = False
            kk = x.idx(a[1].args[0].elts[1].operand.slice, 'qD')
            mm = x.idx(a[2].operand.slice, 'qD')
            ok = kk == site + ONE and mm == site
        else:
            self.rep.add('slot', s, False, f'in-line qr: quantum-number arguments `{q0}`, `{q1}` not of a recognised form')
            return st
        bond = site + ONE if left else site
        self.rep.add('slot', s, ok, f'in-line {"left" if left else "right"} qr of site {site}: bond labels of bonds '
                                    f'{site} and {site} + 1 are passed in the right roles (got `{q0}`, `{q1}`)')
        names = [t.id if isinstance(t, ast.Name) else None for t in targets]
        if names[0]:
            x.temps[names[0]] = ('qfactor', 'left' if left else 'right', site)
        if names[1]:
            x.temps[names[1]] = ('bondmat', bond, 'left' if left else 'right')
        # label store
        t2 = targets[2]
        b = pmatch(f'{p}.qD[__k]', t2)
        if b is not None:
            tl = x.idx(t2.slice, 'qD')
            self.rep.add('pairing', s, tl == bond, f'in-line qr: label of the re-factorised bond {bond} is stored as '
                                                   f'{p}.qD[{tl}] in the same assignment')
            self.label_stores.append((s, tl, value))
        elif isinstance(t2, ast.Name):
            x.temps[t2.id] = ('label', bond)
        self.event(Event('refactor', s, lo=bond, hi=bond, dummy=False, left=left))
        return st


# ======================================================================
# schedules
TIME_KINDS = ('H1', 'H2', 'K')


def step_blocks(schedule):
    """blocks of one pass of the outer step loop"""
    for b in schedule:
        if b[0] == 'step':
            return b[1]
    return None


def segments(blocks, kinds=TIME_KINDS):
    """[('single', ev) | ('loop', var, i0, i1, desc, [ev...])] restricted to the given event kinds"""
    out = []
    for b in blocks:
        if b[0] == 'event':
            if b[1].kind in kinds:
                out.append(('single', b[1]))
        elif b[0] == 'loop':
            evs = [x[1] for x in b[5] if x[0] == 'event' and x[1].kind in kinds]
            if any(x[0] == 'loop' for x in b[5]):
                raise AnalysisError('nested sweep loops are not a recognised idiom')
            if evs:
                out.append(('loop', b[1], b[2], b[3], b[4], evs))
    return out


def _ev_key(ev, var=None, shift=None):
    lo, hi = ev.lo, ev.hi
    if var is not None and shift is not None:
        lo = lo.subst(var, Affine.sym(var) + shift)
        hi = hi.subst(var, Affine.sym(var) + shift)
    return (ev.kind, lo, hi, ev.coef)


def _tok(ev):
    return (ev.kind, ev.lo, ev.hi, ev.coef)


def _tsub(t, var, val):
    return (t[0], t[1].subst(var, val), t[2].subst(var, val), t[3])


def _tstr(t):
    return f'{t[0]} on [{t[1]}, {t[2]}] with fraction {t[3]}'


class _Run:
    """for _i from `first` in steps of `step` (+1 / -1) to `last`: body(_i)"""
    V = '_i'

    def __init__(self, var, i0, i1, desc, body):
        v = Affine.sym(self.V)
        self.body = [_tsub(t, var, v) if var != self.V else t for t in body]
        self.i0, self.i1, self.desc = i0, i1, desc

    step = property(lambda self: -1 if self.desc else 1)
    first = property(lambda self: self.i1 if self.desc else self.i0)
    last = property(lambda self: self.i0 if self.desc else self.i1)

    def at(self, j, it):
        return _tsub(self.body[j], self.V, it)

    def shrink_last(self):
        if self.desc:
            self.i0 = self.i0 + ONE
        else:
            self.i1 = self.i1 - ONE

    def grow(self, at_end):
        if at_end != self.desc:
            self.i1 = self.i1 + ONE
        else:
            self.i0 = self.i0 - ONE

    def reindex(self):
        """the first sub-step sits at position _i"""
        c = self.body[0][1] - Affine.sym(self.V)
        if c.is_const() and c.c != 0:
            v = Affine.sym(self.V) - c
            self.body = [_tsub(t, self.V, v) for t in self.body]
            self.i0, self.i1 = self.i0 + c, self.i1 + c

    def key(self):
        return ('loop', self.i0, self.i1, self.desc, tuple(self.body))

    def __str__(self):
        rng = f'{self.i1} down to {self.i0}' if self.desc else f'{self.i0} up to {self.i1}'
        return f'for i = {rng}: ' + '; '.join(_tstr(t) for t in self.body).replace(self.V, 'i')


def normal_runs(segs):
    """The event sequence of one time step in a normal form that does not depend on how the source cuts it into loops
    and single statements: every loop body is rotated to start with its least kind (the cut-off sub-steps of the first
    and last iteration become single steps), loops absorb neighbouring single steps that continue them, neighbouring
    loops that continue each other are merged, and the loop variable is the position of the first sub-step."""
    items = []
    for sg in segs:
        if sg[0] == 'single':
            items.append(_tok(sg[1]))
        else:
            _, var, i0, i1, desc, evs = sg
            items.append(_Run(var, i0, i1, desc, [_tok(e) for e in evs]))
    # 1. canonical phase
    out = []
    for it in items:
        if not isinstance(it, _Run):
            out.append(it)
            continue
        m = len(it.body)
        kinds = [t[0] for t in it.body]
        r = min(range(m), key=lambda q: (tuple(kinds[q:] + kinds[:q]), q))
        if r:
            v = Affine.sym(_Run.V)
            pre = [it.at(j, it.first) for j in range(r)]
            post = [it.at(j, it.last) for j in range(r, m)]
            it.body = it.body[r:] + [_tsub(t, _Run.V, v + Affine.const(it.step)) for t in it.body[:r]]
            it.shrink_last()
            out += pre + [it] + post
        else:
            out.append(it)
    items = out
    for it in items:
        if isinstance(it, _Run):
            it.reindex()
    # 2. absorb whole iterations of single steps, merge loops; to a fixpoint
    changed = True
    while changed:
        changed = False
        for k, it in enumerate(items):
            if not isinstance(it, _Run):
                continue
            m = len(it.body)
            nxt = items[k + 1:k + 1 + m]
            if len(nxt) == m and all(not isinstance(x, _Run) for x in nxt) and \
                    nxt == [it.at(j, it.last + Affine.const(it.step)) for j in range(m)]:
                it.grow(True)
                del items[k + 1:k + 1 + m]
                changed = True
                break
            prv = items[max(0, k - m):k]
            if len(prv) == m and all(not isinstance(x, _Run) for x in prv) and \
                    prv == [it.at(j, it.first - Affine.const(it.step)) for j in range(m)]:
                it.grow(False)
                del items[k - m:k]
                changed = True
                break
            if k + 1 < len(items) and isinstance(items[k + 1], _Run):
                o = items[k + 1]
                if o.desc == it.desc and o.body == it.body and o.first == it.last + Affine.const(it.step):
                    if it.desc:
                        it.i0 = o.i0
                    else:
                        it.i1 = o.i1
                    del items[k + 1]
                    changed = True
                    break
            if it.i1 == it.i0 - ONE:
                del items[k]                    # a loop over no position
                changed = True
                break
    return items


def check_palindrome(segs):
    """the time-ordered event sequence equals its own reversal (with mirrored, i.e. equal, step fractions).
    Both sequences are compared in the normal form of `normal_runs`.  Returns (ok, detail)."""
    rev = []
    for sg in reversed(segs):
        if sg[0] == 'single':
            rev.append(sg)
        else:
            _, var, i0, i1, desc, evs = sg
            rev.append(('loop', var, i0, i1, not desc, list(reversed(evs))))
    a, b = normal_runs(segs), normal_runs(rev)
    show = lambda x: str(x) if isinstance(x, _Run) else _tstr(x)
    for k, (x, y) in enumerate(zip(a, b)):
        kx = x.key() if isinstance(x, _Run) else x
        ky = y.key() if isinstance(y, _Run) else y
        if kx != ky:
            return False, f'segment {k}: `{show(x)}` is mirrored by `{show(y)}`'
    if len(a) != len(b):
        return False, 'the sequence and its mirror image differ in length'
    return True, f'{len(a)} segments in normal form'


def coverage(segs, kind):
    """list of (lo, hi, coef) site/bond intervals covered by events of `kind`"""
    out = []
    for sg in segs:
        if sg[0] == 'single':
            ev = sg[1]
            if ev.kind == kind:
                out.append((ev.lo, ev.lo, ev.coef))
        else:
            _, var, i0, i1, desc, evs = sg
            for ev in evs:
                if ev.kind != kind:
                    continue
                c = ev.lo.coeff(var)
                if c == 1:
                    out.append((ev.lo.subst(var, i0), ev.lo.subst(var, i1), ev.coef))
                elif c == -1:
                    out.append((ev.lo.subst(var, i1), ev.lo.subst(var, i0), ev.coef))
                elif c == 0:
                    return None
                else:
                    return None
    return out


def check_budget(segs, kind, lo, hi, total, facts=()):
    """events of `kind` tile [lo, hi] with summed step fraction `total` on every element.  (ok, detail)
    The interval ends are ordered under `facts`; on every elementary piece the fractions of the covering intervals are
    summed."""
    cov = coverage(segs, kind)
    if cov is None:
        return False, 'an event position is not of the form i + c'
    if not cov:
        return False, f'no {kind} step found'
    ctx = Ctx(list(facts), [])
    groups = []
    for a, b, c in cov:
        if nonneg(a - b - ONE, ctx):
            continue            # an empty range of positions
        for g in groups:
            if g[0] == a and g[1] == b:
                g[2] += c
                break
        else:
            groups.append([a, b, Fraction(c)])
    detail = ', '.join(f'[{a}, {b}] x {c}' for a, b, c in groups)
    # cut points: starts a and ends b + 1 of all intervals plus those of the expected range, in increasing order
    cuts = []
    for p_ in [lo, hi + ONE] + [g[0] for g in groups] + [g[1] + ONE for g in groups]:
        if not any(p_ == q_ for q_ in cuts):
            cuts.append(p_)
    import functools

    def cmp(x, y):
        if nonneg(y - x - ONE, ctx):
            return -1
        if nonneg(x - y - ONE, ctx):
            return 1
        raise Undecided(f'cannot order positions {x} and {y}')
    try:
        cuts.sort(key=functools.cmp_to_key(cmp))
        for g in groups:
            if not nonneg(g[1] - g[0], ctx):
                raise Undecided(f'cannot decide whether [{g[0]}, {g[1]}] is empty')
    except Undecided as ex:
        return False, f'{ex}: {detail}'
    for x, y in zip(cuts, cuts[1:]):
        # piece [x, y - 1]
        inside = nonneg(x - lo, ctx) and nonneg(hi - (y - ONE), ctx)
        tot = sum((g[2] for g in groups if nonneg(x - g[0], ctx) and nonneg(g[1] - (y - ONE), ctx)), Fraction(0))
        if inside and tot != total:
            return False, f'step fractions sum to {tot} instead of {total} on positions [{x}, {y - ONE}]: {detail}'
        if not inside and tot != 0:
            return False, f'positions [{x}, {y - ONE}] outside [{lo}, {hi}] receive steps: {detail}'
    return True, detail


def check_cover(segs, kind, lo, hi, facts):
    """the union of the positions visited by events of `kind` contains [lo, hi] (decided under `facts`)"""
    cov = coverage(segs, kind)
    if cov is None:
        return False, 'an event position is not of the form i + c'
    ctx = Ctx(list(facts), [])
    ivs = [(a, b) for a, b, _ in cov]
    detail = ', '.join(f'[{a}, {b}]' for a, b in ivs) or 'nothing'
    cur = lo
    for _ in range(len(ivs) + 1):
        if nonneg(cur - hi - ONE, ctx):
            return True, detail
        nxt = [(a, b) for a, b in ivs if nonneg(cur - a, ctx) and nonneg(b - cur, ctx)]
        if not nxt:
            return False, f'position {cur} is not visited: steps cover {detail}'
        best = nxt[0]
        for a, b in nxt[1:]:
            if nonneg(b - best[1], ctx):
                best = (a, b)
        cur = best[1] + ONE
    return nonneg(cur - hi - ONE, ctx), detail
