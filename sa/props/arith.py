"""Layout rules of MPS/MPO arithmetic shared by C02.R4 and C03 (leg order vs. label order, block layout of sums)."""
import ast
from ..defuse import before as _before
import re

from ..loader import norm, AnalysisError
from .. import legs as lg
from ..legs import LegError, LegUnknown, TVal
from ..legs_interp import LegInterp, QV
from ..match import pmatch
from . import legrules as lr
from .common import where


def _site_loop(fi, var_hint=None):
    loops = [l for l in fi.node.body if isinstance(l, ast.For)]
    return loops


def charges(axis):
    return [l.charge for l in axis]


def names(axis):
    return [l.name() for l in axis]


def _loop_range(it):
    """range(a) / range(a, b) / reversed(range(..)) -> (first, last, step) as affine expressions, else None"""
    from ..affine import Affine, try_affine
    desc = False
    if isinstance(it, ast.Call) and norm(it.func) == 'reversed' and len(it.args) == 1:
        desc, it = True, it.args[0]
    if isinstance(it, ast.Call) and norm(it.func) == 'range' and len(it.args) == 3 and not it.keywords and not desc:
        # range(a, b, -1) counts down from a to b + 1; range(a, b, 1) is range(a, b)
        from ..typestate import literal_int
        st_ = literal_int(it.args[2])
        ra = [try_affine(a) for a in it.args[:2]]
        if st_ not in (1, -1) or any(a is None for a in ra):
            return None
        one = Affine.const(1)
        return (ra[0], ra[1] + one, -1) if st_ == -1 else (ra[0], ra[1] - one, 1)
    if not (isinstance(it, ast.Call) and norm(it.func) == 'range' and 1 <= len(it.args) <= 2 and not it.keywords):
        return None
    ra = [try_affine(a) for a in it.args]
    if any(a is None for a in ra):
        return None
    lo, hi = (Affine.const(0), ra[0]) if len(ra) == 1 else (ra[0], ra[1])
    one = Affine.const(1)
    return (hi - one, lo, -1) if desc else (lo, hi - one, 1)


class _SubstIndex(ast.NodeTransformer):
    """replace the loop variable by an affine expression inside subscripts (indices are re-normalised)"""

    def __init__(self, var, val):
        self.var, self.val = var, val

    def visit_Subscript(self, node):
        from ..affine import try_affine
        self.generic_visit(node)
        a = try_affine(node.slice, {self.var: self.val})
        if a is not None:
            node = ast.Subscript(node.value, ast.parse(str(a), mode='eval').body, node.ctx)
        return node


def subst_index(e, var, val):
    import copy
    return ast.fix_missing_locations(_SubstIndex(var, val).visit(copy.deepcopy(e)))


def label_stores(fn, obj):
    """Every store `obj.qD[e] = value` of a function with the set of bonds it covers and the stored expression resolved
    through local names.  A name is followed to its definition in the same block; a name whose value at the top of an
    iteration comes from the previous iteration (`cur = nxt; nxt = f(i + 1)` with `nxt = f(0)` before the loop) is
    resolved by induction over the loop.  Returns [(stmt, lo, hi, var or None, value expression or None)]."""
    from ..affine import Affine, try_affine
    out = []
    top = list(fn.body)

    def assigns_before(body, k, name):
        for s_ in reversed(body[:k]):
            if isinstance(s_, ast.Assign) and len(s_.targets) == 1 and isinstance(s_.targets[0], ast.Name) and \
                    s_.targets[0].id == name:
                return s_
            if any(isinstance(n_, ast.Name) and n_.id == name and isinstance(n_.ctx, ast.Store) for n_ in ast.walk(s_)):
                return False
        return None

    def resolve(e, body, k, loop, depth=0):
        """value of expression e just before statement k of `body` (body of `loop`, or the function body)"""
        if depth > 6:
            return None
        if not isinstance(e, ast.Name):
            return e
        d = assigns_before(body, k, e.id)
        if d is False:
            return None
        if d is not None:
            return resolve(d.value, body, body.index(d), loop, depth + 1)
        if loop is None:
            return None
        # value at the top of the iteration: carried over from the previous one
        rng = _loop_range(loop.iter)
        later = [s_ for s_ in body if isinstance(s_, ast.Assign) and len(s_.targets) == 1 and
                 isinstance(s_.targets[0], ast.Name) and s_.targets[0].id == e.id]
        stores = [n_ for n_ in ast.walk(loop) if isinstance(n_, ast.Name) and n_.id == e.id and isinstance(n_.ctx, ast.Store)]
        if rng is None or len(later) != 1 or len(stores) != 1 or not isinstance(loop.target, ast.Name):
            return None
        g = resolve(later[0].value, body, body.index(later[0]), None, depth + 1) if not isinstance(later[0].value, ast.Name) \
            else None
        if g is None:
            return None
        kk = top.index(loop) if loop in top else None
        if kk is None:
            return None
        g0 = resolve(ast.Name(e.id, ast.Load()), top, kk, None, depth + 1)
        if g0 is None:
            return None
        var = loop.target.id
        first, _, step = rng
        prev = subst_index(g, var, Affine.sym(var) - Affine.const(step))
        if norm(subst_index(g, var, first - Affine.const(step))) != norm(subst_index(g0, var, Affine.sym(var))):
            return None
        return prev

    def visit(body, loop):
        for k, s_ in enumerate(body):
            if isinstance(s_, ast.For) and loop is None:
                visit(s_.body, s_)
            elif isinstance(s_, ast.Assign):
                for t in s_.targets:
                    if isinstance(t, ast.Subscript) and norm(t.value) == f'{obj}.qD':
                        val = resolve(s_.value, body, k, loop)
                        if loop is None:
                            a = try_affine(t.slice)
                            if a is None and norm(t.slice) == '-1':
                                a = Affine.sym('L')
                            out.append((s_, a, a, None, val))
                        else:
                            rng = _loop_range(loop.iter)
                            var = loop.target.id if isinstance(loop.target, ast.Name) else None
                            a = try_affine(t.slice)
                            if rng is None or var is None or a is None or a.coeff(var) not in (1, -1):
                                out.append((s_, None, None, var, val))
                                continue
                            ends = sorted([a.subst(var, rng[0]), a.subst(var, rng[1])],
                                          key=lambda z: (z - a.subst(var, rng[0])).c if (z - a.subst(var, rng[0])).is_const() else 0)
                            x0, x1 = a.subst(var, rng[0]), a.subst(var, rng[1])
                            lo, hi = (x0, x1) if (a.coeff(var) * rng[2]) > 0 else (x1, x0)
                            # expression in terms of the bond index: var = (bond - const) / coeff
                            if val is not None:
                                c0 = a - Affine.sym(var).scale(a.coeff(var))
                                val = subst_index(val, var, (Affine.sym('_b') - c0).scale(a.coeff(var)))
                            out.append((s_, lo, hi, '_b', val))
    visit(top, None)
    return out


def covers(intervals, lo, hi, facts):
    """the union of [a, b] intervals (possibly empty ones) contains [lo, hi] under the facts (affine expressions >= 0)"""
    from ..shapes import Ctx, nonneg
    from ..affine import Affine
    ctx = Ctx(list(facts), [])
    one = Affine.const(1)
    cur = lo
    for _ in range(len(intervals) + 1):
        if nonneg(cur - hi - one, ctx):
            return True
        nxt = [(a, b) for a, b in intervals if nonneg(cur - a, ctx) and nonneg(b - cur, ctx)]
        if not nxt:
            return False
        best = nxt[0]
        for a, b in nxt[1:]:
            if nonneg(b - best[1], ctx):
                best = (a, b)
        cur = best[1] + one
    return nonneg(cur - hi - one, ctx)


def product_site_value(repo, q):
    """leg-domain value of the site tensor built in the site loop of apply_operator / multiply_mpo:
    (fi, loop, TVal | None, error text, (name of first operand tensor, name of second))"""
    from ..canon import canonical, ARITH_VALUE_ROLES
    if q == 'operation.apply_operator':
        fi = repo.func(q)
        a, b, res = 'op', 'psi', None
    else:
        fi = canonical(repo.func(q), ARITH_VALUE_ROLES)
        a, b = 'op0', 'op1'
        rets = [r_ for r_ in ast.walk(fi.node) if isinstance(r_, ast.Return) and isinstance(r_.value, ast.Name)]
        res = rets[0].value.id if len(rets) == 1 else 'op'
    loops = [l for l in fi.node.body if isinstance(l, ast.For) and isinstance(l.target, ast.Name) and
             any(isinstance(n_, ast.Subscript) and norm(n_) == f'{a}.A[{l.target.id}]' for n_ in ast.walk(l))]
    if len(loops) != 1:
        raise AnalysisError(f'{q}: site loop not found')
    i = loops[0].target.id
    mk = lr.mps_site if q == 'operation.apply_operator' else lr.mpo_site
    env = {f'@{a}.A[{i}]': lr.mpo_site(f'{a}.A[{i}]', f'{a}.qd', f'{a}.qD[{i}]', f'{a}.qD[{i} + 1]'),
           f'@{b}.A[{i}]': mk(f'{b}.A[{i}]', f'{b}.qd', f'{b}.qD[{i}]', f'{b}.qD[{i} + 1]')}
    body = [s_ for s_ in loops[0].body if not isinstance(s_, ast.Assert)]
    try:
        it = LegInterp(fi, env, repo=repo, body=body)
        it.run()
    except LegError as ex:
        if isinstance(ex, LegUnknown):
            raise           # not understood is not a finding
        return fi, loops[0], None, str(ex), (f'{a}.A[{i}]', f'{b}.A[{i}]')
    if res is not None:
        v = it.env.get(f'@{res}.A[{i}]')
    else:
        vs = [v_ for k_, v_ in it.env.items() if k_.startswith('@') and k_ not in env and isinstance(v_, TVal)]
        v = vs[0] if len(vs) == 1 else None
    return fi, loops[0], (v if isinstance(v, TVal) else None), 'site tensor not found', (f'{a}.A[{i}]', f'{b}.A[{i}]')


def product_rules(chk, repo, rid):
    n = 0
    # ---------------- apply_operator
    fi = label_views(repo.func('operation.apply_operator'))
    loop = [l for l in fi.node.body if isinstance(l, ast.For) and any(
        isinstance(c, ast.Call) and norm(c.func) == 'np.tensordot' for c in ast.walk(l))]
    if len(loop) != 1 or not isinstance(loop[0].target, ast.Name):
        raise AnalysisError('apply_operator: site loop not found')
    i = loop[0].target.id
    env = {f'@op.A[{i}]': lr.mpo_site(f'op.A[{i}]', 'op.qd', f'op.qD[{i}]', f'op.qD[{i} + 1]'),
           f'@psi.A[{i}]': lr.mps_site(f'psi.A[{i}]', 'psi.qd', f'psi.qD[{i}]', f'psi.qD[{i} + 1]')}
    body = [s for s in loop[0].body if not isinstance(s, ast.Assert)]
    try:
        it = LegInterp(fi, env, repo=repo, body=body)
        it.run()
        res = [v for k, v in it.env.items() if k.startswith('@') and k not in env and isinstance(v, TVal)]
    except LegError as ex:
        if isinstance(ex, LegUnknown):
            raise           # not understood is not a finding
        chk.ob(rid, where(repo, fi, loop[0]), 'apply_operator: site update is well-formed in the leg domain', False, str(ex),
               key=f'{rid}|apply|wellformed')
        res = []
    if len(res) == 1:
        v = res[0]
        w = where(repo, fi, loop[0])
        W, A = f'op.A[{i}]', f'psi.A[{i}]'
        ok = v.rank == 3 and [names(a) for a in v.axes] == [[f'{W}.0'], [f'{W}.2', f'{A}.1'], [f'{W}.3', f'{A}.2']]
        chk.ob(rid, w, 'apply_operator: site tensor is (op out-leg, (op left, psi left), (op right, psi right))', ok,
               f'{[names(a) for a in v.axes]}', key=f'{rid}|apply|layout')
        c = lg.canon(v)
        chk.ob(rid, w, 'apply_operator: the in-leg of the operator is contracted with the physical leg of the state',
               c['pairs'] == [tuple(sorted((f'{W}.1', f'{A}.0')))] and not c['conj'], f'{c["pairs"]}', key=f'{rid}|apply|pair')
        # labels
        comp = label_builders(fi)
        okl = False
        detail = ''
        if len(comp) == 1 and v.rank == 3:
            elt, var, it_ = comp[0]
            b = pmatch('qnumber_flatten((__a, __b))', elt) or pmatch('qnumber_flatten([__a, __b])', elt)
            if b is not None:
                lab = [b['__a'], b['__b']]
                left = [(s_, t.replace(f'[{i}]', f'[{var}]')) for s_, t in charges(v.axes[1])]
                right = [(s_, t.replace(f'[{i} + 1]', f'[{var}]')) for s_, t in charges(v.axes[2])]
                okl = left == [(1, lab[0]), (1, lab[1])] and right == [(-1, lab[0]), (-1, lab[1])] and \
                    norm(it_) in ('range(psi.nsites + 1)', 'range(op.nsites + 1)', 'range(len(psi.qD))', 'range(len(op.qD))',
                                  'range(len(psi.A) + 1)', 'range(len(op.A) + 1)')
                detail = f'labels flatten({lab}); merged left legs {left}; merged right legs {right}; range {norm(it_)}'
        chk.ob(rid, w, 'apply_operator: bond labels are flattened in the order in which the bond legs are merged '
               '(operator first), one label per bond 0..L', okl, detail, key=f'{rid}|apply|labels')
        ctor = [c_ for c_ in ast.walk(fi.node) if isinstance(c_, ast.Call) and norm(c_.func) == 'MPS']
        okc = len(ctor) == 1 and norm(ctor[0].args[0]) in ('psi.qd', 'op.qd') and \
            any(norm(a.test).replace(' ', '') in ('np.array_equal(psi.qd,op.qd)', 'np.array_equal(op.qd,psi.qd)')
                for a in fi.node.body if isinstance(a, ast.Assert))
        chk.ob(rid, w, 'apply_operator: physical quantum numbers of the result are those of the operands (asserted equal)',
               okc, '', key=f'{rid}|apply|qd')
        n += 4
    else:
        n += 1
    # ---------------- multiply_mpo
    from ..canon import canonical, ARITH_VALUE_ROLES
    fi = label_views(canonical(repo.func('mpo.multiply_mpo'), ARITH_VALUE_ROLES))
    rets = [r_ for r_ in ast.walk(fi.node) if isinstance(r_, ast.Return) and isinstance(r_.value, ast.Name)]
    resn = rets[0].value.id if len(rets) == 1 else 'op'
    loop = [l for l in fi.node.body if isinstance(l, ast.For) and any(
        isinstance(s_, ast.Assign) and norm(s_.targets[0]).startswith(f'{resn}.A[') for s_ in ast.walk(l))]
    if len(loop) != 1:
        raise AnalysisError('multiply_mpo: site loop not found')
    i = norm(loop[0].target)
    env = {f'@op0.A[{i}]': lr.mpo_site(f'op0.A[{i}]', 'op0.qd', f'op0.qD[{i}]', f'op0.qD[{i} + 1]'),
           f'@op1.A[{i}]': lr.mpo_site(f'op1.A[{i}]', 'op1.qd', f'op1.qD[{i}]', f'op1.qD[{i} + 1]')}
    body = [s for s in loop[0].body if not isinstance(s, ast.Assert)]
    try:
        it = LegInterp(fi, env, repo=repo, body=body)
        it.run()
        v = it.env.get(f'@{resn}.A[{i}]')
    except LegError as ex:
        if isinstance(ex, LegUnknown):
            raise           # not understood is not a finding
        chk.ob(rid, where(repo, fi, loop[0]), 'multiply_mpo: site update is well-formed in the leg domain', False, str(ex),
               key=f'{rid}|multiply|wellformed')
        v = None
    if isinstance(v, TVal):
        w = where(repo, fi, loop[0])
        X, Y = f'op0.A[{i}]', f'op1.A[{i}]'
        ok = v.rank == 4 and [names(a) for a in v.axes] == [[f'{X}.0'], [f'{Y}.1'], [f'{X}.2', f'{Y}.2'], [f'{X}.3', f'{Y}.3']]
        chk.ob(rid, w, 'multiply_mpo: site tensor is (out of op0, in of op1, (left0, left1), (right0, right1))', ok,
               f'{[names(a) for a in v.axes]}', key=f'{rid}|multiply|layout')
        c = lg.canon(v)
        chk.ob(rid, w, 'multiply_mpo: the in-leg of op0 is contracted with the out-leg of op1 (op0 @ op1)',
               c['pairs'] == [tuple(sorted((f'{X}.1', f'{Y}.0')))], f'{c["pairs"]}', key=f'{rid}|multiply|pair')
        # labels: every store into <result>.qD[.], wherever it sits, with the stored expression resolved through locals
        from ..affine import Affine
        stores = label_stores(fi.node, resn)
        okl = bool(stores) and v.rank == 4
        detail = []
        for st_, lo_, hi_, bvar, val in stores:
            b = (pmatch('qnumber_flatten([__a, __b])', val) or pmatch('qnumber_flatten((__a, __b))', val)) if val is not None \
                else None
            if b is None or lo_ is None:
                okl = False
                detail.append(f'`{norm(st_)[:60]}`: stored label not resolved to a qnumber_flatten of two operand labels')
                continue
            k = bvar if bvar else str(lo_)
            left = [(s_, t.replace(f'[{i}]', f'[{k}]')) for s_, t in charges(v.axes[2])]
            right = [(s_, t.replace(f'[{i} + 1]', f'[{k}]')) for s_, t in charges(v.axes[3])]
            good = left == [(1, b['__a']), (1, b['__b'])] and right == [(-1, b['__a']), (-1, b['__b'])]
            okl = okl and good
            detail.append(f'bonds [{lo_}, {hi_}]: flatten([{b["__a"]}, {b["__b"]}]) vs merged legs {left} / {right}')
        ivs = [(lo_, hi_) for _, lo_, hi_, _, _ in stores if lo_ is not None]
        Ls = Affine.sym('L')
        zero, one = Affine.const(0), Affine.const(1)
        cov1 = covers(ivs, zero, Ls, [Ls - one])
        cov0 = covers([(a.subst('L', zero), b.subst('L', zero)) for a, b in ivs
                       if (b.subst('L', zero) - a.subst('L', zero)).is_const() and (b.subst('L', zero) - a.subst('L', zero)).c >= 0],
                      zero, zero, [])
        if not (cov0 and cov1):
            detail.append('the stores do not cover every bond 0..L' + ('' if cov0 else ' (no sites: bond 0 keeps the placeholder)'))
        chk.ob(rid, w, 'multiply_mpo: bond labels are flattened in the order in which the bond legs are merged (op0 first), '
               'one label per bond 0..L', okl and cov0 and cov1, '; '.join(detail)[:400], key=f'{rid}|multiply|labels')
        n += 3
    return n


def merge_rules(chk, repo, rid):
    n = 0
    for q, rank, want_open, want_pair in (
            ('mps.merge_mps_tensor_pair', 3, [['A0.0', 'A1.0'], ['A0.1'], ['A1.2']], ('A0.2', 'A1.1')),
            ('mpo.merge_mpo_tensor_pair', 4, [['A0.0', 'A1.0'], ['A0.1', 'A1.1'], ['A0.2'], ['A1.3']], ('A0.3', 'A1.2'))):
        fi = repo.func(q)
        env = {'A0': lg.param_tensor('A0', rank), 'A1': lg.param_tensor('A1', rank)}
        try:
            v = LegInterp(fi, env, repo=repo).run()
        except LegError as ex:
            if isinstance(ex, LegUnknown):
                raise           # not understood is not a finding
            chk.ob(rid, where(repo, fi, fi.node), f'{fi.name}: body is well-formed in the leg domain', False, str(ex),
                   key=f'{rid}|{q}|wellformed')
            n += 1
            continue
        c = lg.canon(v)
        chk.ob(rid, where(repo, fi, fi.node), f'{fi.name}: physical legs are merged left site first, outer bonds kept',
               [list(a) for a in c['open']] == want_open, f'{c["open"]}', key=f'{rid}|{q}|layout')
        chk.ob(rid, where(repo, fi, fi.node), f'{fi.name}: the shared bond is contracted',
               c['pairs'] == [tuple(sorted(want_pair))], f'{c["pairs"]}', key=f'{rid}|{q}|pair')
        n += 2
    return n


def strip_copies(e):
    """X.copy(), np.array(X), np.array(X, copy=True) -> X (value-preserving wrappers)"""
    while True:
        if isinstance(e, ast.Call) and isinstance(e.func, ast.Attribute) and e.func.attr == 'copy' and not e.args:
            e = e.func.value
        elif isinstance(e, ast.Call) and norm(e.func) in ('np.array', 'np.copy', 'np.asarray') and len(e.args) == 1:
            e = e.args[0]
        else:
            return e


def _block_grid(node):
    """np.block argument -> 2-D grid of entries (a flat list is one row)"""
    if not isinstance(node, ast.List):
        return None
    if all(isinstance(e, ast.List) for e in node.elts):
        return [list(e.elts) for e in node.elts]
    return [list(node.elts)]


def _concat_grid(call, rank):
    """np.concatenate((a, b), axis=k) on site tensors of the given rank -> the np.block grid with the same meaning
    (k = last axis: one row; k = second-to-last axis: one column), else None"""
    if not (isinstance(call, ast.Call) and norm(call.func) == 'np.concatenate' and len(call.args) == 1 and
            isinstance(call.args[0], (ast.Tuple, ast.List)) and len(call.keywords) == 1 and call.keywords[0].arg == 'axis'):
        return None
    from ..typestate import literal_int
    k = literal_int(call.keywords[0].value)
    if k is None:
        return None
    if k < 0:
        k += rank
    if k == rank - 1:
        return [list(call.args[0].elts)]
    if k == rank - 2:
        return [[e] for e in call.args[0].elts]
    return None


def _scaled(e, x_text):
    """`alpha * X` or `X * alpha` (the product of a scalar and an array commutes exactly)"""
    return isinstance(e, ast.BinOp) and isinstance(e.op, ast.Mult) and \
        sorted([norm(e.left), norm(e.right)]) == sorted(['alpha', x_text])


def _length_canon(text, names):
    """every spelling of the common number of sites becomes `L`"""
    for nm in names:
        text = text.replace(f'len({nm}.A)', 'L').replace(f'{nm}.nsites', 'L')
    return text


def sum_rules(chk, repo, rid):
    """block layout of sums vs. order of the concatenated labels; alpha once per chain"""
    n = 0
    from ..canon import canonical, ARITH_VALUE_ROLES
    for q, x0, x1, res, rank in (('mps.add_mps', 'mps0', 'mps1', 'mps', 3), ('mpo.add_mpo', 'op0', 'op1', 'op', 4)):
        from ..normal import wrap, inline_site_aliases
        fi = wrap(canonical(repo.func(q), ARITH_VALUE_ROLES), inline_site_aliases)
        rets = [r_ for r_ in ast.walk(fi.node) if isinstance(r_, ast.Return) and isinstance(r_.value, ast.Name)]
        if len(rets) == 1:
            res = rets[0].value.id
        lax, rax = rank - 2, rank - 1           # left / right bond axes
        w = where(repo, fi, fi.node)
        # labels: concatenate((x0.qD[i], x1.qD[i])) for the inner bonds 1..L-1
        cat = [s for s in ast.walk(fi.node) if isinstance(s, ast.Assign) and
               isinstance(strip_copies(s.value), ast.Call) and norm(strip_copies(s.value).func) == 'np.concatenate' and
               not norm(s.targets[0]).startswith(f'{res}.A[')]
        Lnames = (x0, x1, res)
        okc = False
        if len(cat) == 1:
            b = pmatch(f'np.concatenate(({x0}.qD[__i], {x1}.qD[__i]))', strip_copies(cat[0].value)) or \
                pmatch(f'np.concatenate([{x0}.qD[__i], {x1}.qD[__i]])', strip_copies(cat[0].value))
            lp = [l for l in ast.walk(fi.node) if isinstance(l, ast.For) and cat[0] in l.body]
            okc = b is not None and lp and _length_canon(norm(lp[0].iter), Lnames) == 'range(1, L)' and norm(lp[0].target) == b['__i'] and \
                norm(cat[0].targets[0]) == f'{res}.qD[{b["__i"]}]'
        chk.ob(rid, w, f'{fi.name}: inner bond labels are (first operand, second operand) concatenated, for bonds 1..L-1', okc,
               norm(cat[0])[:80] if cat else 'not found', key=f'{rid}|{q}|labels')
        n += 1
        # np.block entries
        blocks = [s for s in ast.walk(fi.node) if isinstance(s, ast.Assign) and isinstance(s.value, ast.Call) and
                  (norm(s.value.func) == 'np.block' or
                   (norm(s.value.func) == 'np.concatenate' and norm(s.targets[0]).startswith(f'{res}.A[')))]
        seen = {}
        for s in blocks:
            tgt = norm(s.targets[0])
            grid = _block_grid(s.value.args[0]) if norm(s.value.func) == 'np.block' else _concat_grid(s.value, rank)
            if grid is None:
                raise AnalysisError(f'{q}: `{norm(s.value)[:60]}`: argument not a list display / axis not a literal bond axis')
            pos = 'first' if tgt == f'{res}.A[0]' else ('last' if tgt == f'{res}.A[-1]' else 'inner')
            seen[pos] = s
            # np.block: innermost lists are joined along the last axis (right bond), the outer along the
            # second-to-last axis (left bond) - for site tensors these are exactly the two bond axes
            ok = True
            detail = []
            ldefs = {}
            if pos == 'inner':
                lp_ = [l for l in ast.walk(fi.node) if isinstance(l, ast.For) and s in l.body]
                for st_ in (lp_[0].body if lp_ else []):
                    if isinstance(st_, ast.Assign) and isinstance(st_.targets[0], ast.Name):
                        ldefs[st_.targets[0].id] = norm(st_.value)
            fdefs = {norm(st_.targets[0]): norm(st_.value) for st_ in fi.node.body if isinstance(st_, ast.Assign) and
                     isinstance(st_.targets[0], ast.Name)}

            def dim_src(dtext):
                """`name[k]` with name = X.A[i].shape -> (X, k); `d` -> ('phys',)"""
                m_ = re.fullmatch(r'(\w+)\[(\d+)\]', dtext)
                if m_ and m_.group(1) in ldefs:
                    m2 = re.fullmatch(r'(\w+)\.A\[(.+)\]\.shape', ldefs[m_.group(1)])
                    if m2:
                        return (m2.group(1), int(m_.group(2)), m2.group(2))
                m3 = re.fullmatch(r'(\w+)\.A\[(.+)\]\.shape\[(\d+)\]', dtext)
                if m3:
                    return (m3.group(1), int(m3.group(3)), m3.group(2))
                if dtext in fdefs and fdefs[dtext] in (f'len({x0}.qd)', f'len({x1}.qd)'):
                    return ('phys',)
                return None
            for r, row in enumerate(grid):
                for c_, e in enumerate(row):
                    txt = norm(e)
                    if pos == 'inner':
                        i = norm(s.targets[0].slice)
                        if r == c_:
                            want = [f'{x0}.A[{i}]', f'{x1}.A[{i}]'][r]
                            good = txt == want
                        else:
                            zr = pmatch('np.zeros(__shape)', e)
                            good = False
                            if zr is not None:
                                shp = e.args[0]
                                dims = [norm(d) for d in shp.elts] if isinstance(shp, ast.Tuple) else []
                                # rows (left bond) of operand r, columns (right bond) of operand c
                                xr, xc = [x0, x1][r], [x0, x1][c_]
                                good = len(dims) == rank and dim_src(dims[lax]) == (xr, lax, i) and \
                                    dim_src(dims[rax]) == (xc, rax, i) and all(dim_src(d) == ('phys',) for d in dims[:lax])
                        ok = ok and good
                        detail.append(f'[{r}][{c_}] {txt[:40]}')
                    elif pos == 'first':
                        shape_ok = len(grid) == 1 and len(row) == 2
                        ok = ok and shape_ok and (txt == f'{x0}.A[0]' if c_ == 0 else _scaled(e, f'{x1}.A[0]'))
                        detail.append(txt[:40])
                    else:
                        want = [f'{x0}.A[-1]', f'{x1}.A[-1]'][r] if len(grid) == 2 and len(row) == 1 else None
                        ok = ok and txt == want
                        detail.append(txt[:40])
            what = {'first': 'leftmost tensor: operands side by side along the right bond, first operand first, second '
                             'scaled by alpha',
                    'last': 'rightmost tensor: operands stacked along the left bond, first operand first, not scaled',
                    'inner': 'inner tensors: block diagonal in (left bond, right bond), first operand first, zero blocks of '
                             'shape (left of row operand, right of column operand)'}[pos]
            chk.ob(rid, where(repo, fi, s), f'{fi.name}: {what}', ok, '; '.join(detail), key=f'{rid}|{q}|block|{pos}')
            n += 1
        chk.ob(rid, w, f'{fi.name}: leftmost, inner and rightmost tensors are all assembled', set(seen) == {'first', 'inner', 'last'},
               f'{sorted(seen)}', key=f'{rid}|{q}|block|coverage')
        n += 1
        # shapes s0, s1 are those of the operands at the same site; inner loop covers 1..L-2
        inner = seen.get('inner')
        if inner is not None:
            lps = [l for l in ast.walk(fi.node) if isinstance(l, ast.For) and inner in l.body]
            if not lps:
                # assembled under a further condition inside the loop (or outside any loop): the sites it covers are not
                # those of a plain loop over 1..L-2
                chk.ob(rid, where(repo, fi, inner), f'{fi.name}: inner tensors are assembled for sites 1..L-2', False,
                       f'`{norm(inner)[:60]}` is not a statement of a loop over the inner sites', key=f'{rid}|{q}|block|shapes')
                n += 1
                continue
            lp = lps[0]
            i = norm(lp.target)
            ok = _length_canon(norm(lp.iter), Lnames) == 'range(1, L - 1)' and norm(inner.targets[0]) == f'{res}.A[{i}]'
            defs = {}
            chk.ob(rid, where(repo, fi, lp), f'{fi.name}: inner tensors are assembled for sites 1..L-2', ok, f'range {norm(lp.iter)}', key=f'{rid}|{q}|block|shapes')
            n += 1
        # alpha exactly once per chain
        alpha_uses = [x for x in ast.walk(fi.node) if isinstance(x, ast.Name) and x.id == 'alpha' and isinstance(x.ctx, ast.Load)]
        def single_test(t):
            return _length_canon(norm(t), Lnames) in ('L == 1', '1 == L')
        single = [s for s in ast.walk(fi.node) if isinstance(s, ast.If) and single_test(s.test)]
        ok = len(alpha_uses) == 2 and len(single) == 1
        if ok:
            one = [s for s in single[0].body if isinstance(s, ast.Assign) and norm(s.targets[0]) == f'{res}.A[0]']
            v_ = one[0].value if len(one) == 1 else None
            # the sum of the two tensors, in either order (floating-point addition commutes exactly)
            ok = isinstance(v_, ast.BinOp) and isinstance(v_.op, ast.Add) and \
                ((norm(v_.left) == f'{x0}.A[0]' and _scaled(v_.right, f'{x1}.A[0]')) or
                 (norm(v_.right) == f'{x0}.A[0]' and _scaled(v_.left, f'{x1}.A[0]')))
            in_single = [u for u in alpha_uses if any(u is y for s in single[0].body for y in ast.walk(s))]
            # the multi-site code is whatever is not the single-site arm (an `elif` / `else` arm, the code after a guard
            # clause, or an enclosing arm when the case distinction is written the other way round)
            in_multi = [u for u in alpha_uses if not any(u is y for y in in_single)]
            ok = ok and len(in_single) == 1 and len(in_multi) == 1
        chk.ob(rid, w, f'{fi.name}: the scale alpha multiplies the second operand on exactly one site of every chain, in the '
               f'single-site and the multi-site branch', ok, f'{len(alpha_uses)} uses of alpha', key=f'{rid}|{q}|alpha')
        n += 1
        # boundary labels: label k of the result is label k of the first operand (a copy), for k = 0 and k = L
        single = [s_ for s_ in ast.walk(fi.node) if isinstance(s_, ast.If) and single_test(s_.test)]
        in_single_arm = {id(y) for s_ in (single[0].body if single else []) for y in ast.walk(s_)}
        for branch, want in ((single[0].body if single else [], {'0': '0', '1': '1'}),
                             (None, {'0': '0', '-1': '-1'})):
            stores = {}
            cands = ast.walk(ast.Module(body=list(branch), type_ignores=[])) if branch is not None else \
                [y for y in ast.walk(fi.node) if id(y) not in in_single_arm] if single else []
            for s_ in cands:
                if isinstance(s_, ast.Assign) and isinstance(s_.targets[0], ast.Subscript) and \
                        norm(s_.targets[0].value) == f'{res}.qD' and not isinstance(s_.value, ast.Call) or \
                        (isinstance(s_, ast.Assign) and isinstance(s_.targets[0], ast.Subscript) and
                         norm(s_.targets[0].value) == f'{res}.qD' and
                         norm(strip_copies(s_.value)).startswith((f'{x0}.qD[', f'{x1}.qD['))):
                    k = norm(s_.targets[0].slice)
                    srcx = strip_copies(s_.value)
                    if isinstance(srcx, ast.Subscript) and norm(srcx.value) in (f'{x0}.qD', f'{x1}.qD'):
                        stores[k] = (norm(srcx.slice), s_)
            okb = all(k in stores and stores[k][0] == v for k, v in want.items())
            tag = 'single-site' if want.get('1') else 'multi-site'
            chk.ob(rid, w, f'{fi.name} ({tag} branch): boundary label k of the result is boundary label k of the operands '
                   f'(k in {sorted(want)})', okb, f'{ {k: v[0] for k, v in stores.items()} }', key=f'{rid}|{q}|boundary|{tag}')
            n += 1
        # boundary labels copied from the first operand and asserted equal
        asserts = {norm(a.test).replace(' ', '') for a in ast.walk(fi.node) if isinstance(a, ast.Assert)}
        need = {f'np.array_equal({x0}.qD[0],{x1}.qD[0])', f'np.array_equal({x0}.qD[-1],{x1}.qD[-1])',
                f'np.array_equal({x0}.qd,{x1}.qd)', f'{x0}.nsites=={x1}.nsites'}
        chk.ob(rid, w, f'{fi.name}: operands are asserted compatible (sites, physical and boundary quantum numbers)',
               need <= asserts, f'missing {sorted(need - asserts)}', key=f'{rid}|{q}|compat')
        n += 1
    return n


def ordering_rules(chk, repo, rid):
    """site 0 is the most significant digit in every dense conversion"""
    n = 0
    for q, merge, what in (('mps.MPS.as_vector', 'merge_mps_tensor_pair', 'vector'),
                           ('mpo.MPO.as_matrix', 'merge_mpo_tensor_pair', 'dense matrix')):
        fi = repo.func(q)
        calls = [c for c in ast.walk(fi.node) if isinstance(c, ast.Call) and norm(c.func) == merge]
        ok = False
        if len(calls) == 1:
            c = calls[0]
            lp = [l for l in ast.walk(fi.node) if isinstance(l, ast.For) and any(x is c for x in ast.walk(l))]
            asg = [s for s in ast.walk(fi.node) if isinstance(s, ast.Assign) and s.value is c]
            if lp and asg:
                acc = norm(asg[0].targets[0])
                i = norm(lp[0].target)
                init = [s for s in ast.walk(fi.node) if isinstance(s, ast.Assign) and norm(s.targets[0]) == acc and
                        norm(s.value) == 'self.A[0]']
                rg = _loop_range(lp[0].iter)
                full = rg is not None and rg[2] == 1 and str(rg[0]) == '1' and \
                    str(rg[1]) in ('len(self.A) - 1', 'self.nsites - 1', '-1 + len(self.A)', '-1 + self.nsites')
                ok = [norm(a) for a in c.args] == [acc, f'self.A[{i}]'] and full and len(init) >= 1
        chk.ob(rid, where(repo, fi, fi.node), f'{fi.name}: the {what} is accumulated left to right with the accumulated '
               f'tensor as first operand (site 0 most significant)', ok, '', key=f'{rid}|{q}|order')
        n += 1
    # chains, trees and graphs: every Kronecker product typed with the sites its factors act on (props/kronrule.py)
    from . import kronrule
    n += kronrule.analyse(chk, repo, rid, declare=False)
    return n


def aliasing_rules(chk, repo, rid):
    """site tensors (and label arrays) of a new object are pairwise distinct arrays: a list built by repeating one mutable
    element (`n * [array]`) aliases all sites, so that an in-place edit of one site changes every site"""
    n = 0
    for fi in repo.funcs.values():
        if fi.module not in ('mps', 'mpo', 'operation'):
            continue
        for node in ast.walk(fi.node):
            if not (isinstance(node, ast.BinOp) and isinstance(node.op, ast.Mult)):
                continue
            lst = node.left if isinstance(node.left, ast.List) else (node.right if isinstance(node.right, ast.List) else None)
            if lst is None or len(lst.elts) != 1:
                continue
            el = lst.elts[0]
            immutable = isinstance(el, ast.Constant) or (isinstance(el, ast.List) and all(isinstance(x, ast.Constant) for x in el.elts))
            # where does the list go?
            use = None
            for s_ in ast.walk(fi.node):
                if isinstance(s_, ast.Assign) and any(x is node for x in ast.walk(s_.value)):
                    use = s_
            tgt = norm(use.targets[0]) if use is not None else ''
            is_site_list = tgt.endswith('.A') or tgt.endswith('.qD')
            passed_to_ctor = any(isinstance(c_, ast.Call) and norm(c_.func) in ('cls', 'MPS', 'MPO') and
                                 any(x is node for a_ in c_.args for x in ast.walk(a_)) for c_ in ast.walk(fi.node))
            if passed_to_ctor and not is_site_list:
                continue        # constructor arguments are converted element by element
            ok = immutable or not is_site_list
            chk.ob(rid, where(repo, fi, node), f'{fi.name}: `{norm(node)[:60]}` does not alias mutable site data', ok,
                   '' if ok else f'`{tgt} = {norm(node)[:60]}` repeats one array object for every site',
                   key=f'{rid}|{fi.qual}|{norm(node)[:80]}')
            n += 1
    return n


def sum_dtype_rule(chk, repo, rid):
    """tensors of a sum hold values of both operands: a preallocated block array must not take its dtype from one operand"""
    n = 0
    for q, x0, x1 in (('mps.add_mps', 'mps0', 'mps1'), ('mpo.add_mpo', 'op0', 'op1')):
        fi = repo.func(q)
        for c in ast.walk(fi.node):
            if isinstance(c, ast.Call) and norm(c.func) in ('np.zeros', 'np.empty', 'np.zeros_like', 'np.empty_like'):
                dt = [k.value for k in c.keywords if k.arg == 'dtype']
                txt = norm(dt[0]) if dt else (norm(c.args[0]) if norm(c.func).endswith('_like') else None)
                if txt is None:
                    continue
                m0, m1 = x0 in txt, x1 in txt
                ok = (m0 and m1) or not (m0 or m1)
                chk.ob(rid, where(repo, fi, c), f'{fi.name}: block array `{norm(c)[:60]}` can hold the entries of both operands', ok,
                       '' if ok else f'dtype `{txt}` is taken from one operand only', key=f'{rid}|{q}|dtype|{norm(c)[:80]}')
                n += 1
    return n


# ----------------------------------------------------------------------
LINEAR_ROUTINES = ['mps.MPS.as_vector', 'mpo.MPO.as_matrix', 'mpo.MPO.identity', 'mps.add_mps', 'mpo.add_mpo', 'mpo.multiply_mpo',
                   'operation.apply_operator', 'mps.merge_mps_tensor_pair', 'mpo.merge_mpo_tensor_pair',
                   'mps.MPS.__add__', 'mps.MPS.__sub__', 'mpo.MPO.__add__', 'mpo.MPO.__sub__', 'mpo.MPO.__matmul__']
VALUE_TESTS = ('np.abs', 'abs', 'np.round', 'np.around', 'np.clip', 'np.sign', 'np.isclose', 'np.allclose', 'np.nonzero',
               'np.trunc', 'np.floor', 'np.ceil', 'np.argwhere', 'np.flatnonzero', 'np.count_nonzero', 'np.any', 'np.all',
               'np.iscomplexobj', 'np.isrealobj', 'np.isreal', 'np.iscomplex', 'np.max', 'np.min', 'np.amax', 'np.amin',
               'np.linalg.norm', 'max', 'min', 'np.array_equal', 'np.nan_to_num')
VALUE_METHODS = ('round', 'clip', 'any', 'all', 'nonzero', 'max', 'min', 'count_nonzero')


def linearity_rules(chk, repo, rid):
    """exact conversions and arithmetic are (multi)linear in the tensor entries: the entries are moved, multiplied and
    added, never inspected"""
    from ..taint import Taint

    def src(e):
        return isinstance(e, ast.Attribute) and e.attr in ('A', 'data') and isinstance(e.ctx, ast.Load)
    n = 0
    for q in LINEAR_ROUTINES:
        if not repo.has_func(q):
            continue
        fi = repo.func(q)
        arrays = [a.arg for a in fi.node.args.args if a.annotation is not None and 'ndarray' in norm(a.annotation)]
        T = Taint(repo, fi, arrays, src)
        in_assert = set()
        for a in ast.walk(fi.node):
            if isinstance(a, ast.Assert):
                in_assert |= {id(x) for x in ast.walk(a)}
        bad = []
        for c in ast.walk(fi.node):
            if id(c) in in_assert:
                continue
            if isinstance(c, ast.Compare):
                ops = [c.left] + list(c.comparators)
                if any(T.expr_tainted(o) and not _shape_like(o) for o in ops if not isinstance(o, ast.Constant)):
                    bad.append(c)
            elif isinstance(c, ast.Call):
                f = norm(c.func)
                if f in VALUE_TESTS and any(T.expr_tainted(a) and not _shape_like(a) for a in c.args):
                    bad.append(c)
                elif f == 'np.where' and c.args and T.expr_tainted(c.args[0]):
                    bad.append(c)
                elif isinstance(c.func, ast.Attribute) and c.func.attr in VALUE_METHODS and T.expr_tainted(c.func.value) and \
                        not _shape_like(c.func.value):
                    bad.append(c)
        chk.ob(rid, where(repo, fi, bad[0] if bad else fi.node), f'{fi.qual}: the tensor entries are moved, multiplied and added but '
               f'never inspected (no comparison, magnitude, rounding, pruning or dtype test on tensor data)', not bad,
               '; '.join(f'`{norm(b)[:60]}` (line {b.lineno})' for b in bad[:3]), key=f'{rid}|{q}')
        n += 1
    return n


def _shape_like(e):
    """shape / ndim / dtype-free size information of an array is not a value of its entries"""
    for x in ast.walk(e):
        if isinstance(x, ast.Attribute) and x.attr in ('shape', 'ndim', 'size', 'nsites', 'qd', 'qD', 'bond_dims'):
            return True
    return isinstance(e, ast.Call) and norm(e.func) == 'len'


def label_views(fi):
    """Rule-level views of how per-bond label lists are written (which label goes to which bond is all the rules use):
      [E(x, y) for x, y in zip(P.qD, Q.qD)]     reads   [E(P.qD[k], Q.qD[k]) for k in range(len(P.qD))]
      R.qD = [E(i) for i in range(n)]            reads   for i in range(n): R.qD[i] = E(i)
    (`len(P.qD)` is the number of sites + 1 by the class invariant checked in C02.R1 / the constructors)"""
    import copy
    from ..canon import CanonFunc
    node = copy.deepcopy(fi.node)
    changed = False
    for n in ast.walk(node):
        if isinstance(n, ast.ListComp) and len(n.generators) == 1 and not n.generators[0].ifs:
            g = n.generators[0]
            if isinstance(g.iter, ast.Call) and norm(g.iter.func) == 'zip' and len(g.iter.args) == 2 and not g.iter.keywords and \
                    all(isinstance(a, ast.Attribute) and a.attr == 'qD' for a in g.iter.args) and \
                    isinstance(g.target, ast.Tuple) and len(g.target.elts) == 2 and \
                    all(isinstance(t, ast.Name) for t in g.target.elts):
                k = 'k__z'
                sub = {t.id: ast.Subscript(value=copy.deepcopy(a), slice=ast.Name(id=k, ctx=ast.Load()), ctx=ast.Load())
                       for t, a in zip(g.target.elts, g.iter.args)}

                class _S(ast.NodeTransformer):
                    def visit_Name(self, x):
                        return copy.deepcopy(sub[x.id]) if x.id in sub and isinstance(x.ctx, ast.Load) else x
                n.elt = _S().visit(n.elt)
                first = g.iter.args[0]
                g.target = ast.Name(id=k, ctx=ast.Store())
                g.iter = ast.parse(f'range(len({norm(first)}))', mode='eval').body
                changed = True
    for blk in [getattr(n, f) for n in ast.walk(node) for f in ('body', 'orelse') if isinstance(getattr(n, f, None), list)]:
        for i, s_ in enumerate(list(blk)):
            if isinstance(s_, ast.Assign) and len(s_.targets) == 1 and isinstance(s_.targets[0], ast.Attribute) and \
                    s_.targets[0].attr == 'qD' and isinstance(s_.value, ast.ListComp) and len(s_.value.generators) == 1 and \
                    not s_.value.generators[0].ifs and isinstance(s_.value.generators[0].target, ast.Name) and \
                    isinstance(s_.value.generators[0].iter, ast.Call) and norm(s_.value.generators[0].iter.func) == 'range':
                g = s_.value.generators[0]
                tgt = ast.Subscript(value=copy.deepcopy(s_.targets[0]), slice=ast.Name(id=g.target.id, ctx=ast.Load()), ctx=ast.Store())
                for x in ast.walk(tgt.value):
                    if hasattr(x, 'ctx'):
                        x.ctx = ast.Load()
                loop = ast.For(target=g.target, iter=g.iter, body=[ast.Assign(targets=[tgt], value=s_.value.elt)], orelse=[])
                blk[blk.index(s_)] = ast.copy_location(loop, s_)
                changed = True
    if not changed:
        return fi
    ast.fix_missing_locations(node)
    return CanonFunc(fi, node, dict(getattr(fi, 'renamed', {}) or {}))


def label_builders(fi):
    """per-bond label expressions of a function, whichever way the list is built:
    X = [E for v in R]   |   X = [] ; for v in R: X.append(E)        ->  [(E, v, R), ...]   (E contains a qnumber_flatten)"""
    out = []
    for s_ in fi.node.body:
        if isinstance(s_, ast.Assign) and isinstance(s_.value, ast.ListComp) and len(s_.value.generators) == 1 and \
                'qnumber_flatten' in norm(s_.value.elt):
            g = s_.value.generators[0]
            out.append((s_.value.elt, norm(g.target), g.iter))
        if isinstance(s_, ast.For) and isinstance(s_.target, ast.Name):
            for b in s_.body:
                if isinstance(b, ast.Expr) and isinstance(b.value, ast.Call) and isinstance(b.value.func, ast.Attribute) and \
                        b.value.func.attr == 'append' and len(b.value.args) == 1 and 'qnumber_flatten' in norm(b.value.args[0]):
                    lst = norm(b.value.func.value)
                    init = [x for x in fi.node.body if isinstance(x, ast.Assign) and norm(x.targets[0]) == lst and
                            isinstance(x.value, ast.List) and not x.value.elts and _before(fi.node, x, s_)]
                    if init:
                        out.append((b.value.args[0], s_.target.id, s_.iter))
    return out
