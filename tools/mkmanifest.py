#!/usr/bin/env python3
"""Regenerates /verif/MANIFEST.json from the table below (run after adding a property module)."""
import json
import os

HERE = os.path.dirname(os.path.dirname(os.path.abspath(__file__)))

# property id -> (technique, level text, level note, design ref)
CLAIMED = {}

NOT_APPLICABLE = {
    'C15': 'static analysis cannot decide it here: Ritz-value bounds, unitarity and exactness at Krylov exhaustion are '
           '(in)equalities between floating-point results of eigh_tridiagonal/expm; only the size agreement is structural (C14)',
    'C18': 'static analysis cannot decide it here: maximality of the matching / minimality of the cover are semantic '
           'facts about Hopcroft-Karp over all graphs (a proof of the algorithm, not a dataflow fact); any structural '
           'proxy would freeze the implementation',
    'C20': 'static analysis cannot decide it here: bond dimension = operator Schmidt rank is a numerical rank statement '
           'that depends on the optimality of the vertex cover (C18); its only structural clause (simplify cannot add '
           'nodes or edges) is decided under C16',
}

GENERIC = ('  Also decided, for every function the property depends on (anchored functions and their callees, sa/anchors.json): '
           'nothing survives a call (no mutable default in use, no memoising decorator, no module-level cache), stores into '
           'preallocated typed arrays keep the element type (symbolic lattice bool < int < float < complex), and every read of a '
           'local is definitely assigned when loops may run zero times.')

ALL = [f'C{i:02d}' for i in range(1, 21)]


def load_table():
    import importlib.util
    p = os.path.join(HERE, 'tools', 'claims.py')
    spec = importlib.util.spec_from_file_location('claims', p)
    m = importlib.util.module_from_spec(spec)
    spec.loader.exec_module(m)
    return m.CLAIMS


def main():
    claims = load_table()
    checks = []
    for pid in ALL:
        if pid not in claims:
            continue
        c = claims[pid]
        checks.append({
            'property_id': pid,
            'quick_cmd': f'./check {pid} --tier quick',
            'thorough_cmd': f'./check {pid} --tier thorough',
            'evidence_file': f'/verif/evidence/{pid}.json',
            'replay_cmd_template': './check --replay {path}',
            'engine': 'sa',
            'technique': c['technique'],
            'level_claimed': {'category': 'other', 'text': c['text'] + GENERIC, 'design_ref': c['design_ref'] + ', 16'},
            'level_note': c['note'],
        })
    na = []
    for pid in ALL:
        if pid in claims:
            continue
        reason = NOT_APPLICABLE.get(pid, 'engine not built yet (DESIGN.md section 11); not claimed through a weaker stand-in')
        na.append({'property_id': pid, 'reason': reason})
    man = {
        'version': 1,
        'setup_cmd': '/venv/bin/python -m compileall -q sa tools >/dev/null && echo setup-ok',
        'hooks': {
            'guard': 'CMENDL_PYTENET_VERIF',
            'enable': 'none needed: nothing in /repo is instrumented; the checks parse /repo/pytenet/*.py',
            'baseline_off_cmd': 'cd /repo && /venv/bin/python -m pytest -ra -q -p no:cacheprovider --timeout=900 '
                                '--continue-on-collection-errors',
            'source_commits': [],
            'add_only': True,
        },
        'engines': [{
            'name': 'sa', 'path': '/verif/sa',
            'serves_properties': [c['property_id'] for c in checks],
            'kind_free_text': 'repository-specific static analysis over ast.parse of /repo/pytenet/*.py: '
                              'path-sensitive typestate, taint/def-use, may-write/may-share effects on a typed '
                              'abstract heap, affine sweep typing, tensor-leg typing, frame/charge-tag typing, '
                              'symbolic shapes; no pytenet code is imported or executed',
        }],
        'checks': checks,
        'not_applicable': na,
        'notes': 'Static-analysis family only.  Exit 0 = every rule instance held; exit 1 + VIOLATION line = a '
                 'specific construct violates a rule and is not in known_findings.json; exit 2 + ANALYSIS-ERROR = '
                 'the checker could not decide (anchor vanished, unrecognised idiom) - never a violation.  '
                 'Three genuine defects (F1-F3) were repaired by fix: commits in /repo (25ff9ea, 7db6936, a7e8a35); '
                 'see known_findings.json and DESIGN.md section 6.',
    }
    with open(os.path.join(HERE, 'MANIFEST.json'), 'w') as f:
        json.dump(man, f, indent=1)
    print('claimed:', [c['property_id'] for c in checks])
    print('not applicable:', [n['property_id'] for n in na])


if __name__ == '__main__':
    main()
