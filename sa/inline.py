"""Inlining of helper functions that the rules do not know.

The rules of /verif/sa are anchored at the functions of the pinned tree (sa/known_symbols.json lists them).  A
refactoring that moves a few statements into a new private helper leaves the behaviour unchanged but hides those
statements from every rule that reads the caller.  Before any rule runs, calls to *unknown* module-level functions and
methods of the same module are therefore replaced by the helper's body (a semantics-preserving rewrite):

  * the helper must be "straight enough": no yield / global / nonlocal / nested def, at most one `return`, which is its
    last statement; no recursion; positional parameters only (defaults allowed);
  * actual arguments that are pure expressions (names, constants, attribute / subscript chains, arithmetic on those) are
    substituted for the formal when the helper never assigns the formal; any other argument is bound to a fresh local
    first (so it is evaluated once, before the body, as in the call);
  * locals of the helper are renamed apart (suffix __h<n>);
  * the call expression itself is replaced by the returned expression.

Seeded defects inside such a helper thereby become visible to the rules of its callers as well.
"""
import ast
import copy


def _is_pure(e):
    if isinstance(e, (ast.Name, ast.Constant)):
        return True
    if isinstance(e, ast.Attribute):
        return _is_pure(e.value)
    if isinstance(e, ast.Subscript):
        return _is_pure(e.value) and _is_pure_index(e.slice)
    if isinstance(e, ast.UnaryOp):
        return _is_pure(e.operand)
    if isinstance(e, ast.BinOp):
        return _is_pure(e.left) and _is_pure(e.right)
    if isinstance(e, ast.Tuple):
        return all(_is_pure(x) for x in e.elts)
    # a list / dict / set display creates a new mutable object each time it is evaluated: never substituted
    return False


def _is_pure_index(s):
    if isinstance(s, ast.Slice):
        return all(x is None or _is_pure(x) for x in (s.lower, s.upper, s.step))
    if isinstance(s, ast.Tuple):
        return all(_is_pure_index(x) for x in s.elts)
    return _is_pure(s)


def _stored(body):
    out = set()
    for b in body:
        for n in ast.walk(b):
            if isinstance(n, ast.Name) and isinstance(n.ctx, (ast.Store, ast.Del)):
                out.add(n.id)
    return out


def _strip_doc(body):
    return [b for b in body if not (isinstance(b, ast.Expr) and isinstance(b.value, ast.Constant) and
                                    isinstance(b.value.value, str))]


def single_exit(body, retvar):
    """(statements, returned expression) equivalent to a body whose returns are the last statement and/or the last
    statement of top-level guard blocks `if c: ...; return a`; None when the body has another shape"""
    body = list(body)
    for k, s in enumerate(body):
        if isinstance(s, ast.If) and not s.orelse and s.body and isinstance(s.body[-1], ast.Return) and \
                not any(isinstance(n, ast.Return) for b in s.body[:-1] for n in ast.walk(b)):
            if any(isinstance(n, ast.Return) for b in body[:k] for n in ast.walk(b)):
                return None
            rest = single_exit(body[k + 1:], retvar)
            if rest is None:
                return None
            rs, rb = rest
            a = s.body[-1].value if s.body[-1].value is not None else ast.Constant(value=None)
            if len(s.body) == 1 and not rs:
                return body[:k], ast.IfExp(test=s.test, body=a, orelse=rb)
            st = ast.Name(id=retvar, ctx=ast.Store())
            new_if = ast.If(test=s.test, body=s.body[:-1] + [ast.Assign(targets=[st], value=a)],
                            orelse=rs + [ast.Assign(targets=[copy.deepcopy(st)], value=rb)])
            return body[:k] + [new_if], ast.Name(id=retvar, ctx=ast.Load())
    if any(isinstance(n, ast.Return) for b in body[:-1] for n in ast.walk(b)):
        return None
    if body and isinstance(body[-1], ast.Return):
        return body[:-1], (body[-1].value if body[-1].value is not None else ast.Constant(value=None))
    if any(isinstance(n, ast.Return) for b in body for n in ast.walk(b)):
        return None
    return body, None


def inlinable(h):
    if h.decorator_list or h.args.vararg or h.args.kwarg or h.args.kwonlyargs or h.args.posonlyargs:
        return False
    body = _strip_doc(h.body)
    if single_exit(copy.deepcopy(body), '_ret') is None:
        return False
    # a mutable default is one object shared by all calls: inlining would give every call a new one
    if any(not isinstance(d, (ast.Constant, ast.Name, ast.Attribute, ast.UnaryOp, ast.Tuple)) for d in h.args.defaults):
        return False
    for b in body:
        for n in ast.walk(b):
            if isinstance(n, (ast.Yield, ast.YieldFrom, ast.Global, ast.Nonlocal, ast.FunctionDef, ast.AsyncFunctionDef,
                              ast.ClassDef, ast.Await)):
                return False
            if isinstance(n, ast.Call) and isinstance(n.func, ast.Name) and n.func.id == h.name:
                return False
    return True


class _Apply(ast.NodeTransformer):
    def __init__(self, subst, rename):
        self.subst, self.rename = subst, rename

    def visit_Name(self, node):
        if node.id in self.rename:
            return ast.copy_location(ast.Name(id=self.rename[node.id], ctx=node.ctx), node)
        if node.id in self.subst and isinstance(node.ctx, ast.Load):
            return ast.copy_location(copy.deepcopy(self.subst[node.id]), node)
        return node

    def visit_Lambda(self, node):
        shadow = {a.arg for a in node.args.args}
        inner = _Apply({k: v for k, v in self.subst.items() if k not in shadow},
                       {k: v for k, v in self.rename.items() if k not in shadow})
        node.body = inner.visit(node.body)
        return node


class Inliner:
    def __init__(self, tree, known_functions, known_methods):
        self.tree = tree
        self.n = 0
        self.helpers = {}
        self.methods = {}
        for s in tree.body:
            if isinstance(s, ast.FunctionDef) and s.name not in known_functions and inlinable(s):
                self.helpers[s.name] = s
            if isinstance(s, ast.ClassDef):
                for m in s.body:
                    if isinstance(m, ast.FunctionDef) and m.name not in known_methods.get(s.name, ()) and inlinable(m) and \
                            m.args.args and m.args.args[0].arg in ('self', 'cls') and not m.name.startswith('__'):
                        self.methods[(s.name, m.name)] = m
        self.count = 0
        self.col = 0

    def run(self):
        if not self.helpers and not self.methods:
            return self.tree
        for s in self.tree.body:
            if isinstance(s, ast.FunctionDef):
                self.function(s, None)
            elif isinstance(s, ast.ClassDef):
                for m in s.body:
                    if isinstance(m, ast.FunctionDef):
                        self.function(m, s.name)
        ast.fix_missing_locations(self.tree)
        return self.tree

    def function(self, fn, cls):
        for _ in range(6):                      # helpers calling helpers: a few rounds
            if not self.block(fn.body, cls, fn.name):
                break

    # ------------------------------------------------------------------
    def candidate(self, expr, cls, current):
        """innermost inlinable call inside expr (not inside a lambda / comprehension)"""
        found = []

        def rec(e):
            if isinstance(e, (ast.Lambda, ast.ListComp, ast.SetComp, ast.DictComp, ast.GeneratorExp)):
                return
            for c in ast.iter_child_nodes(e):
                if isinstance(c, ast.expr) or isinstance(c, (ast.keyword, ast.Slice, ast.Starred)):
                    rec(c)
            if isinstance(e, ast.Call):
                h = self.resolve(e, cls)
                if h is not None and h.name != current:
                    found.append((e, h))
        rec(expr)
        return found[0] if found else None

    def resolve(self, call, cls):
        f = call.func
        if isinstance(f, ast.Name) and f.id in self.helpers:
            return self.helpers[f.id]
        if isinstance(f, ast.Attribute) and isinstance(f.value, ast.Name) and f.value.id in ('self', 'cls') and cls and \
                (cls, f.attr) in self.methods:
            return self.methods[(cls, f.attr)]
        return None

    def block(self, body, cls, current):
        changed = False
        i = 0
        while i < len(body):
            s = body[i]
            for fld in ('body', 'orelse', 'finalbody'):
                sub = getattr(s, fld, None)
                if isinstance(sub, list) and sub and isinstance(sub[0], ast.stmt):
                    changed |= self.block(sub, cls, current)
            if isinstance(s, ast.Try):
                for h in s.handlers:
                    changed |= self.block(h.body, cls, current)
            exprs = self.own_exprs(s)
            cand = None
            for e in exprs:
                cand = self.candidate(e, cls, current)
                if cand:
                    break
            if cand is None:
                i += 1
                continue
            call, h = cand
            new = self.expand(s, call, h)
            if new is None:
                i += 1
                continue
            body[i:i + 1] = new
            changed = True
            self.count += 1
            # re-examine the same position (the spliced statements may contain further calls)
        return changed

    @staticmethod
    def own_exprs(s):
        if isinstance(s, (ast.Assign, ast.AugAssign, ast.AnnAssign)):
            return [s.value] if s.value is not None else []
        if isinstance(s, (ast.Expr, ast.Return)):
            return [s.value] if s.value is not None else []
        if isinstance(s, ast.If):
            return [s.test]
        if isinstance(s, ast.For):
            return [s.iter]
        if isinstance(s, ast.Assert):
            return [s.test]
        return []

    def expand(self, stmt, call, h):
        self.n += 1
        tag = f'__h{self.n}'
        formals = [a.arg for a in h.args.args]
        actuals = list(call.args)
        if isinstance(call.func, ast.Attribute):        # self.helper(...)
            actuals = [call.func.value] + actuals
        if any(isinstance(a, ast.Starred) for a in actuals) or any(k.arg is None for k in call.keywords):
            return None
        bound = dict(zip(formals, actuals))
        for k in call.keywords:
            if k.arg not in formals or k.arg in bound:
                return None
            bound[k.arg] = k.value
        defaults = h.args.defaults
        for f, d in zip(formals[len(formals) - len(defaults):], defaults):
            bound.setdefault(f, d)
        if set(bound) != set(formals) or len(actuals) > len(formals):
            return None
        se = single_exit(_strip_doc(copy.deepcopy(h.body)), 'ret')
        if se is None:
            return None
        body, ret = se
        for b in body:
            ast.fix_missing_locations(b)
        stored = _stored(body)
        uses = {}
        for b in body + ([ast.Expr(value=ret)] if ret is not None else []):
            for n in ast.walk(b):
                if isinstance(n, ast.Name) and isinstance(n.ctx, ast.Load):
                    uses[n.id] = uses.get(n.id, 0) + 1
        subst, rename, prelude = {}, {}, []
        # results handed straight to names of the caller: the helper's result locals take those names (no copies)
        drop_final = False
        if isinstance(stmt, ast.Assign) and len(stmt.targets) == 1 and stmt.value is call and ret is not None:
            tgt = stmt.targets[0]
            tn = [tgt] if isinstance(tgt, ast.Name) else (list(tgt.elts) if isinstance(tgt, ast.Tuple) else [])
            rn = [ret] if isinstance(ret, ast.Name) else (list(ret.elts) if isinstance(ret, ast.Tuple) else [])
            arg_names = {n.id for a in bound.values() for n in ast.walk(a) if isinstance(n, ast.Name)}
            if tn and len(tn) == len(rn) and all(isinstance(x, ast.Name) for x in tn + rn) and \
                    len({x.id for x in rn}) == len(rn) and all(x.id in stored for x in rn):
                ok = True
                for t_, r_ in zip(tn, rn):
                    threaded = r_.id in formals and isinstance(bound[r_.id], ast.Name) and bound[r_.id].id == t_.id
                    if t_.id in arg_names and not threaded:
                        ok = False
                    if t_.id in stored and t_.id != r_.id:
                        ok = False
                if ok:
                    for t_, r_ in zip(tn, rn):
                        rename[r_.id] = t_.id
                    drop_final = True
        for f in formals:
            a = bound[f]
            if f in rename:
                # accumulator threaded through the helper: X = helper(.., X, ..) with `return X` needs no binding; a
                # formal that is returned under another name of the caller (Y = helper(X)) starts as the actual argument
                if not (isinstance(a, ast.Name) and a.id == rename[f]):
                    prelude.append(ast.Assign(targets=[ast.Name(id=rename[f], ctx=ast.Store())], value=copy.deepcopy(a)))
                continue
            if f not in stored and (_is_pure(a) or uses.get(f, 0) <= 1 and not body):
                subst[f] = a
            else:
                tmp = f + tag
                prelude.append(ast.Assign(targets=[ast.Name(id=tmp, ctx=ast.Store())], value=copy.deepcopy(a)))
                rename[f] = tmp
        for loc in stored:
            if loc not in rename and loc != '_':          # `_` is the conventional throw-away name: kept
                rename[loc] = loc + tag
        ap = _Apply(subst, rename)
        new_body = [ap.visit(b) for b in body]
        ret_e = ap.visit(ret) if ret is not None else ast.Constant(value=None)
        # replace the call inside the statement
        class Rep(ast.NodeTransformer):
            def visit_Call(self, node):
                if node is call:
                    return copy.deepcopy(ret_e)
                return self.generic_visit(node)
        def relocate(node):
            for n in ast.walk(node):
                if isinstance(n, (ast.expr, ast.stmt, ast.excepthandler, ast.arg, ast.keyword)):
                    # the line of the call, a column that is unique in the module (allocation sites and report keys are
                    # derived from positions: two inlined constructors must not share one)
                    self.col += 1
                    n.lineno = getattr(call, 'lineno', getattr(stmt, 'lineno', 1))
                    n.col_offset = 1000 + self.col
                    n.end_lineno = n.lineno
                    n.end_col_offset = n.col_offset + 1
            return node
        out = [relocate(x) for x in prelude + new_body]
        relocate(ret_e)
        if (isinstance(stmt, ast.Expr) and stmt.value is call) or drop_final:
            pass                                            # a procedure call / results already under their final names
        else:
            out.append(Rep().visit(stmt))
        return out


def inline_unknown(tree, known_functions, known_methods):
    il = Inliner(tree, set(known_functions), {k: set(v) for k, v in known_methods.items()})
    il.run()
    return tree, il.count


# ----------------------------------------------------------------------------------------------------------------------
def generators_to_lists(tree, known_functions):
    """A module-level generator function the pinned tree does not have, every use of which is `list(G(..))` (consumed on
    the spot), becomes the function that builds and returns that list:

        def G(..):                                   def G(..):
            for x in S:                                  out = []
                yield E(x)                   ->          for x in S:
            yield from (F(y) for y in T)                     out.append(E(x))
                                                         for y in T:
                                                             out.append(F(y))
                                                         return out
        X = list(G(a))                       ->      X = G(a)

    The statements of the body run at the same point (list() drains the generator at once), in the same order, and the
    result is a fresh list with the same elements.  Afterwards the ordinary inliner can put the helper back."""
    gens = {}
    for s in tree.body:
        if isinstance(s, ast.FunctionDef) and s.name not in known_functions and not s.decorator_list:
            own = []
            stack = list(s.body)
            while stack:
                n = stack.pop()
                if isinstance(n, (ast.FunctionDef, ast.AsyncFunctionDef, ast.Lambda, ast.ClassDef)):
                    continue
                if isinstance(n, (ast.Yield, ast.YieldFrom)):
                    own.append(n)
                stack.extend(ast.iter_child_nodes(n))
            if own:
                gens[s.name] = s
    if not gens:
        return tree
    # every reference must be the call G(..) directly inside list(..)
    parents = {}
    for n in ast.walk(tree):
        for c in ast.iter_child_nodes(n):
            parents[id(c)] = n
    ok = {g: True for g in gens}
    sites = {g: [] for g in gens}
    for n in ast.walk(tree):
        if isinstance(n, ast.Name) and n.id in gens and isinstance(n.ctx, ast.Load):
            call = parents.get(id(n))
            outer = parents.get(id(call)) if call is not None else None
            if isinstance(call, ast.Call) and call.func is n and isinstance(outer, ast.Call) and \
                    isinstance(outer.func, ast.Name) and outer.func.id == 'list' and len(outer.args) == 1 and \
                    outer.args[0] is call and not outer.keywords:
                sites[n.id].append(outer)
            elif isinstance(call, ast.Call) and call.func is n and isinstance(outer, ast.YieldFrom) and outer.value is call:
                pass            # `yield from G2(..)` inside another generator: handled below when both convert
            else:
                ok[n.id] = False

    def convert(fn):
        out = 'out__g'
        if any(isinstance(x, ast.Name) and x.id == out for x in ast.walk(fn)):
            return None

        def app(e, at):
            c = ast.Expr(value=ast.Call(func=ast.Attribute(value=ast.Name(id=out, ctx=ast.Load()), attr='append', ctx=ast.Load()),
                                        args=[e], keywords=[]))
            return ast.fix_missing_locations(ast.copy_location(c, at))

        def block(stmts):
            res = []
            for s_ in stmts:
                if isinstance(s_, ast.Expr) and isinstance(s_.value, ast.Yield) and s_.value.value is not None:
                    res.append(app(s_.value.value, s_))
                    continue
                if isinstance(s_, ast.Expr) and isinstance(s_.value, ast.YieldFrom):
                    v = s_.value.value
                    if isinstance(v, (ast.GeneratorExp, ast.ListComp)):
                        body = [app(v.elt, s_)]
                        for g in reversed(v.generators):
                            if g.is_async:
                                return None
                            for c in reversed(g.ifs):
                                body = [ast.copy_location(ast.If(test=c, body=body, orelse=[]), s_)]
                            body = [ast.copy_location(ast.For(target=g.target, iter=g.iter, body=body, orelse=[]), s_)]
                        res.extend(body)
                        continue
                    if isinstance(v, ast.Call) and isinstance(v.func, ast.Name) and v.func.id in gens and ok.get(v.func.id):
                        c = ast.Expr(value=ast.Call(func=ast.Attribute(value=ast.Name(id=out, ctx=ast.Load()), attr='extend',
                                                                       ctx=ast.Load()), args=[v], keywords=[]))
                        res.append(ast.fix_missing_locations(ast.copy_location(c, s_)))
                        continue
                    return None
                if isinstance(s_, ast.Return):
                    if s_.value is not None:
                        return None
                    res.append(ast.copy_location(ast.Return(value=ast.Name(id=out, ctx=ast.Load())), s_))
                    continue
                if any(isinstance(x, (ast.Yield, ast.YieldFrom)) for x in ast.walk(s_)):
                    if isinstance(s_, (ast.For, ast.While, ast.If)):
                        if any(isinstance(x, (ast.Yield, ast.YieldFrom)) for h in ([s_.test] if not isinstance(s_, ast.For)
                                                                                 else [s_.iter, s_.target]) for x in ast.walk(h)):
                            return None
                        b_, o_ = block(s_.body), block(s_.orelse)
                        if b_ is None or o_ is None:
                            return None
                        s2 = copy.copy(s_)
                        s2.body, s2.orelse = b_ or [ast.copy_location(ast.Pass(), s_)], o_
                        res.append(s2)
                        continue
                    return None
                res.append(s_)
            return res
        doc = [b for b in fn.body if isinstance(b, ast.Expr) and isinstance(b.value, ast.Constant) and isinstance(b.value.value, str)]
        rest = [b for b in fn.body if b not in doc]
        nb = block(rest)
        if nb is None:
            return None
        init = ast.copy_location(ast.Assign(targets=[ast.Name(id=out, ctx=ast.Store())], value=ast.List(elts=[], ctx=ast.Load())), fn)
        fin = ast.copy_location(ast.Return(value=ast.Name(id=out, ctx=ast.Load())), fn.body[-1])
        new = copy.copy(fn)
        new.body = doc + [init] + nb + [fin]
        new.returns = None
        return ast.fix_missing_locations(new)

    changed = True
    while changed:          # a generator that delegates to one that cannot be converted cannot be converted either
        changed = False
        for g, fn in gens.items():
            if ok[g] and convert(copy.deepcopy(fn)) is None:
                ok[g] = False
                changed = True
    for g, fn in gens.items():
        if not ok[g] or not sites[g] and not any(ok[h] for h in gens if h != g):
            continue
        new = convert(fn)
        tree.body[tree.body.index(fn)] = new
        for outer in sites[g]:
            inner = outer.args[0]
            outer.func, outer.args, outer.keywords = inner.func, inner.args, inner.keywords
    ast.fix_missing_locations(tree)
    return tree
