#!/usr/bin/env python3
"""Re-run every check against every kept seeded change (checks only) and update seeded/<id>/meta.json;
prints the detection matrix.  Usage: tools/seedmatrix.py [seed id ...]"""
import json
import os
import shutil
import subprocess
import sys
import tempfile

VERIF = os.path.dirname(os.path.dirname(os.path.abspath(__file__)))
import threading
GITLOCK = threading.Lock()


def sh(cmd, env=None):
    r = subprocess.run(cmd, env=env, capture_output=True, text=True)
    return r.returncode, r.stdout + r.stderr


def main():
    base = os.path.join(VERIF, 'seeded')
    ids = sys.argv[1:] or sorted(d for d in os.listdir(base) if os.path.isdir(os.path.join(base, d)))
    man = json.load(open(os.path.join(VERIF, 'MANIFEST.json')))
    claimed = [c['property_id'] for c in man['checks']]
    from concurrent.futures import ThreadPoolExecutor
    with ThreadPoolExecutor(8) as ex:
        rows = [r for r in ex.map(lambda sid: one(base, sid, claimed), ids) if r]
    sh(['git', '-C', '/repo', 'worktree', 'prune'])
    for r in rows:
        print(f'{r[0]:8s} breaks {r[1]}: own check {"REPORTS" if r[2] else "silent "}; reporting: {",".join(r[3]) or "-"}'
              + (f'; analysis errors: {",".join(r[4])}' if r[4] else ''))


def needs_from_notes(d):
    import re
    p = os.path.join(d, 'notes.md')
    if not os.path.exists(p):
        return None
    lines = open(p).read().splitlines()
    for pat in (r'need(ed|s)? to manifest', r'manifests? (only )?(when|for|if)', r'trigger', r'what it needs', r'needs?:'):
        for l in lines:
            if re.search(pat, l, re.I) and len(l) > 30:
                return l.strip().lstrip('-* ').strip()[:700]
    return None


def one(base, sid, claimed):
    if True:
        d = os.path.join(base, sid)
        wt = tempfile.mkdtemp(prefix='seedmatrix_')
        os.rmdir(wt)
        try:
            with GITLOCK:
                rc, o = sh(['git', '-C', '/repo', 'worktree', 'add', '--detach', wt, 'HEAD'])
            rc, o = sh(['git', '-C', wt, 'apply', os.path.join(d, 'patch.diff')])
            if rc != 0:
                # the patch was made against an earlier HEAD: try a 3-way apply
                rc, o = sh(['git', '-C', wt, 'apply', '--3way', os.path.join(d, 'patch.diff')])
            if rc != 0:
                print(sid, 'patch does not apply:', o[-200:])
                return None
            evd = tempfile.mkdtemp(prefix='seedmatrix_ev_')
            env = dict(os.environ, SA_REPO_ROOT=wt, SA_EVIDENCE_DIR=evd)
            res, first = {}, {}
            for pid in claimed:
                rc, o = sh([os.path.join(VERIF, 'check'), pid], env=env)
                res[pid] = rc
                if rc != 0:
                    first[pid] = [l.strip()[:260] for l in o.splitlines() if l.strip().startswith('violated') or 'ANALYSIS-ERROR' in l][:2]
            shutil.rmtree(evd, ignore_errors=True)
            mp = os.path.join(d, 'meta.json')
            meta = json.load(open(mp))
            nd = needs_from_notes(d)
            if nd:
                meta['needs_to_manifest'] = nd
            meta['checks_exit_codes'] = res
            meta['checks_reporting_violation'] = sorted(p for p, r in res.items() if r == 1)
            meta['first_reports'] = first
            meta['detected_by_own_property_check'] = meta['breaks_property'] in meta['checks_reporting_violation']
            json.dump(meta, open(mp, 'w'), indent=1)
            return (sid, meta['breaks_property'], meta['detected_by_own_property_check'], meta['checks_reporting_violation'],
                    [p for p, r in res.items() if r == 2])
        finally:
            with GITLOCK:
                sh(['git', '-C', '/repo', 'worktree', 'remove', '--force', wt])
            shutil.rmtree(wt, ignore_errors=True)


if __name__ == '__main__':
    main()
