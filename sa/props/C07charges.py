"""C07.R6 - charge conservation along every edge wired by generate_graph (both explicit molecular constructions).

For an edge  left node --op--> right node  of an operator graph the MPO sparsity rule
(qd_out - qd_in + qD_left - qD_right = 0) requires   qnum(right) = qnum(left) + charge(op),
where charge(op) is the change of the physical quantum number effected by the local operator.
Everything is read from the source: node quantum numbers from the OpGraphNode(...) calls in __init__ (as
expressions in the spin variables of the family key), operator charges from the operator names / the repository's
own pair table, the edge end points and operators from the OpGraphEdge(...) calls.  Spin variables range over
{0, 1}: every assignment compatible with the spin-only guards of the enclosing branches is evaluated.
"""
import ast
import itertools

from ..loader import norm, AnalysisError
from .. import tables as tb
from .common import where

SINGLE = {'C': 1, 'A': -1, 'I': 0, 'N': 0, 'Z': 0}


def _eval(e, env):
    """tiny evaluator: ints, lists, subscripts, + - unary-, _encode_quantum_number_pair -> (a, b)"""
    if isinstance(e, ast.Constant) and isinstance(e.value, int):
        return e.value
    if isinstance(e, ast.Name):
        if e.id in env:
            return env[e.id]
        raise KeyError(e.id)
    if isinstance(e, ast.UnaryOp) and isinstance(e.op, ast.USub):
        return -_eval(e.operand, env)
    if isinstance(e, ast.BinOp) and isinstance(e.op, (ast.Add, ast.Sub)):
        a, b = _eval(e.left, env), _eval(e.right, env)
        return a + b if isinstance(e.op, ast.Add) else a - b
    if isinstance(e, (ast.List, ast.Tuple)):
        return [_eval(x, env) for x in e.elts]
    if isinstance(e, ast.Subscript):
        return _eval(e.value, env)[_eval(e.slice, env)]
    if isinstance(e, ast.Call) and norm(e.func) == '_encode_quantum_number_pair' and len(e.args) == 2:
        return (_eval(e.args[0], env), _eval(e.args[1], env))
    if isinstance(e, ast.Attribute):
        return ('oid', e.attr)
    raise ValueError(norm(e))


def family_qnums(init_fn):
    """family -> (key parameter names, qnum expression)"""
    fams, leaves = tb.family_nests(init_fn, tb.self_attr_root('self'))
    out = {}
    for fam, s, ctx_vars, keys in leaves:
        if isinstance(s.value, ast.Call) and norm(s.value.func) == 'OpGraphNode' and len(s.value.args) >= 4:
            root, ks = tb.subscript_chain(s.targets[0])
            params = []
            for k in ks:
                params += [norm(x) for x in (k.elts if isinstance(k, ast.Tuple) else [k])]
            out[fam] = (params, s.value.args[3])
    return out


def node_ref(e):
    """`self.FAM[k1][k2].nid` -> (family, [key expressions flattened])"""
    if not (isinstance(e, ast.Attribute) and e.attr == 'nid'):
        return None
    root, keys = tb.subscript_chain(e.value)
    fam = tb.self_attr_root('self')(root)
    if fam is None:
        return None
    flat = []
    for k in keys:
        flat += list(k.elts) if isinstance(k, ast.Tuple) else [k]
    return fam, flat


def spin_variables(fn):
    """names bound to the second component of a loop over itertools.product(<range>, (0, 1))"""
    out = set()
    for n in ast.walk(fn):
        if isinstance(n, ast.For) and isinstance(n.target, ast.Tuple) and len(n.target.elts) == 2 and \
                isinstance(n.iter, ast.Call) and norm(n.iter.func) == 'itertools.product' and len(n.iter.args) == 2 and \
                norm(n.iter.args[1]) == '(0, 1)' and isinstance(n.target.elts[1], ast.Name):
            out.add(n.target.elts[1].id)
    return out


def spin_guards(fn, target, spins=frozenset({'sigma', 'tau'})):
    """conditions in spin variables only that hold at `target` (tests of enclosing ifs, asserts in the same block)"""
    conds = []

    def spin_only(t):
        names = {n.id for n in ast.walk(t) if isinstance(n, ast.Name)}
        return bool(names) and names <= set(spins)

    def walk(stmts, acc):
        for s in stmts:
            if any(n is target for n in ast.walk(s)):
                if isinstance(s, ast.If):
                    if any(n is target for b in s.body for n in ast.walk(b)):
                        a2 = acc + ([(s.test, True)] if spin_only(s.test) else [])
                        return walk(s.body, a2)
                    a2 = acc + ([(s.test, False)] if spin_only(s.test) else [])
                    return walk(s.orelse, a2)
                if isinstance(s, (ast.For, ast.While)):
                    return walk(s.body, acc)
                # asserts earlier in this block
                extra = [(x.test, True) for x in stmts[:stmts.index(s)] if isinstance(x, ast.Assert) and spin_only(x.test)]
                return acc + extra
        return None
    return walk(fn.body, []) or []


def _truth(t, env):
    if isinstance(t, ast.BoolOp):
        vals = [_truth(v, env) for v in t.values]
        return all(vals) if isinstance(t.op, ast.And) else any(vals)
    if isinstance(t, ast.Compare) and len(t.ops) == 1:
        a, b = _eval(t.left, env), _eval(t.comparators[0], env)
        op = t.ops[0]
        return {ast.Eq: a == b, ast.NotEq: a != b, ast.Lt: a < b, ast.LtE: a <= b, ast.Gt: a > b, ast.GtE: a >= b}[type(op)]
    raise ValueError(norm(t))


def op_charge(name, spin, pair_map):
    if not spin:
        if name not in SINGLE:
            raise AnalysisError(f'operator {name} has no known charge')
        return SINGLE[name]
    if name not in pair_map:
        raise AnalysisError(f'spin operator {name} is not in oid_single_pair_map')
    up, dn = pair_map[name]
    return (SINGLE[up] + SINGLE[dn], SINGLE[up] - SINGLE[dn])


def as_pair(q):
    if isinstance(q, tuple):
        return q
    if q == 0:
        return (0, 0)          # _encode_quantum_number_pair(0, 0) == 0
    raise AnalysisError(f'plain quantum number {q} in the spin construction')


def add(q, c):
    if isinstance(c, tuple):
        q = as_pair(q)
        return (q[0] + c[0], q[1] + c[1])
    return q + c


def rule_R6(chk, repo):
    rid = 'C07.R6'
    chk.rule(rid, 'charge conservation of the explicit wiring: for every edge added by generate_graph, '
                  'qnum(right node) = qnum(left node) + charge(operator), with node quantum numbers read from __init__, '
                  'operator charges from the operator names / the pair table, for every value of the spin variables allowed '
                  'by the enclosing spin-only guards (necessary for block sparsity of the MPO for all L)')
    conv = repo.cls('SpinOperatorConverter')
    pm = conv.class_attrs.get('oid_single_pair_map')
    if pm is None or not isinstance(pm, ast.Dict):
        raise AnalysisError('SpinOperatorConverter.oid_single_pair_map not found')
    pair_map = {}
    for k, v in zip(pm.keys, pm.values):
        if isinstance(k, ast.Tuple) and len(k.elts) == 2 and isinstance(v, ast.Attribute):
            pair_map[v.attr] = (k.elts[0].attr, k.elts[1].attr)
    n = 0
    for cname, spin in (('MolecularOpGraphNodes', False), ('SpinMolecularOpGraphNodes', True)):
        ci = repo.cls(cname)
        from ..normal import class_method
        fq = family_qnums(class_method(ci.methods['__init__']).node)
        gg = class_method(ci.methods['generate_graph'])
        spins = spin_variables(gg.node)
        for call in ast.walk(gg.node):
            if not (isinstance(call, ast.Call) and norm(call.func) == 'OpGraphEdge' and len(call.args) >= 3):
                continue
            ends = call.args[1]
            if not (isinstance(ends, ast.List) and len(ends.elts) == 2):
                raise AnalysisError(f'{cname}.generate_graph: edge end points `{norm(ends)[:60]}` not a two-element list')
            refs = [node_ref(x) for x in ends.elts]
            if None in refs:
                raise AnalysisError(f'{cname}.generate_graph: node reference in `{norm(ends)[:80]}` not recognised')
            ops = call.args[2]
            if not (isinstance(ops, ast.List) and len(ops.elts) == 1 and isinstance(ops.elts[0], ast.Tuple)):
                raise AnalysisError(f'{cname}.generate_graph: operator list `{norm(ops)[:60]}` not recognised')
            oid_expr = ops.elts[0].elts[0]
            # spin variables in scope
            spin_vars = sorted({x.id for x in ast.walk(call) if isinstance(x, ast.Name) and x.id in spins})
            # an operator selected through a local name (`oid`) may depend on spin variables not visible in the call
            if any(isinstance(x, ast.Name) and x.id not in spins for x in ast.walk(ops)):
                spin_vars = sorted(spins)
            guards = spin_guards(gg.node, call, spins)
            # local definitions of `oid` by spin-only branches are handled by evaluating the defining branch
            ok_all = True
            detail = ''
            checked = 0
            for vals in itertools.product((0, 1), repeat=len(spin_vars)):
                env = dict(zip(spin_vars, vals))
                try:
                    if not all(_truth(t, env) == want for t, want in guards):
                        continue
                except (KeyError, ValueError):
                    pass
                try:
                    qn = []
                    for fam, keys in refs:
                        if fam not in fq:
                            raise AnalysisError(f'{cname}.generate_graph: family {fam} has no quantum number in __init__')
                        params, qexpr = fq[fam]
                        if len(params) != len(keys):
                            raise AnalysisError(f'{cname}: key arity of family {fam} differs between __init__ and generate_graph')
                        fenv = {}
                        for p, k in zip(params, keys):
                            try:
                                fenv[p] = _eval(k, env)
                            except (KeyError, ValueError):
                                pass        # orbital index: not needed for the quantum number
                        qn.append(_eval(qexpr, fenv))
                    oe = oid_expr
                    if isinstance(oe, ast.Name):
                        oe = resolve_oid(gg.node, call, oe.id, env)
                    o = _eval(oe, env)
                    if not (isinstance(o, tuple) and o[0] == 'oid'):
                        raise ValueError(norm(oid_expr))
                    ch = op_charge(o[1], spin, pair_map)
                except (KeyError, ValueError) as ex:
                    raise AnalysisError(f'{cname}.generate_graph line {call.lineno}: cannot evaluate `{ex}`')
                checked += 1
                if add(qn[0], ch) != (as_pair(qn[1]) if spin else qn[1]):
                    ok_all = False
                    detail = (f'for {env}: left {refs[0][0]} has quantum number {qn[0]}, operator {o[1]} has charge {ch}, '
                              f'right {refs[1][0]} has {qn[1]}')
                    break
            if checked == 0:
                raise AnalysisError(f'{cname}.generate_graph line {call.lineno}: no feasible spin assignment')
            chk.ob(rid, where(repo, gg, call), f'{cname}: edge {refs[0][0]} --{norm(oid_expr)[:40]}--> {refs[1][0]} conserves the '
                   f'charge ({checked} spin assignment(s))', ok_all, detail,
                   key=f'{rid}|{cname}|{norm(call)[:170]}')
            n += 1
    chk.floor(rid, n, 56)


def resolve_oid(fn, call, name, env):
    """`oid` defined by spin-only branches just before the edge: return the expression of the feasible branch"""
    # find the if-chain assigning `name` in the same block before the call
    def find_block(stmts):
        for s in stmts:
            if any(n is call for n in ast.walk(s)):
                if isinstance(s, (ast.For, ast.While, ast.If)):
                    for b in (s.body, getattr(s, 'orelse', [])):
                        r = find_block(b)
                        if r is not None:
                            return r
                return stmts, stmts.index(s)
        return None
    blk = find_block(fn.body)
    if blk is None:
        raise ValueError(name)
    stmts, pos = blk
    for s in reversed(stmts[:pos]):
        r = _assigned_in(s, name, env)
        if r is not None:
            return r
    raise ValueError(name)


def _assigned_in(s, name, env):
    if isinstance(s, ast.Assign) and any(isinstance(t, ast.Name) and t.id == name for t in s.targets):
        return s.value
    if isinstance(s, ast.If):
        try:
            branch = s.body if _truth(s.test, env) else s.orelse
        except (KeyError, ValueError):
            return None
        for x in reversed(branch):
            r = _assigned_in(x, name, env)
            if r is not None:
                return r
    return None


# ======================================================================
# C07.R8 - Jordan-Wigner parity of the local operators of the explicit wiring
def family_ops(fam):
    """('l' | 'r', [operator words]) of a node family name, e.g. a_dag_a_ann_r -> ('r', ['dag', 'ann'])"""
    side = fam[-1]
    words = [w for w in fam[:-2].split('_') if w in ('dag', 'ann')]
    return side, words


def ops_of_ref(fam, keys, spin):
    """list of (word, key text(s)) for the operators a family node stands for; the last key is the position"""
    side, words = family_ops(fam)
    ks = keys[:-1]
    per = 2 if spin else 1
    out = []
    for n_, w in enumerate(words):
        part = ks[n_ * per:(n_ + 1) * per]
        out.append((w, tuple(norm(k) for k in part), part))
    return side, out


LETTER = {frozenset(['dag']): 'C', frozenset(['ann']): 'A', frozenset(['dag', 'ann']): 'N'}


def rule_R8(chk, repo, rid='C07.R8'):
    chk.rule(rid, 'Jordan-Wigner parity of the explicit wiring: the local operator of every edge of generate_graph is the '
                  'operator(s) it places (read from the difference of the two node families) times Z on every mode of that site '
                  'that carries no operator of its own and is passed by an odd number of Jordan-Wigner strings (parity of the '
                  'operators still to be placed to the right, plus, for the up slot, an operator on the down slot); transitions '
                  'carry Z (ZZ) iff the family holds an odd number of operators')
    conv = repo.cls('SpinOperatorConverter')
    pm = conv.class_attrs.get('oid_single_pair_map')
    inv = {}
    for k, v in zip(pm.keys, pm.values):
        inv[(k.elts[0].attr, k.elts[1].attr)] = v.attr
    n = 0
    for cname, spin in (('MolecularOpGraphNodes', False), ('SpinMolecularOpGraphNodes', True)):
        ci = repo.cls(cname)
        from ..normal import class_method
        gg = class_method(ci.methods['generate_graph'])
        spins = spin_variables(gg.node)
        for call in ast.walk(gg.node):
            if not (isinstance(call, ast.Call) and norm(call.func) == 'OpGraphEdge' and len(call.args) >= 3):
                continue
            ends = call.args[1]
            refs = [node_ref(x) for x in ends.elts]
            ops = call.args[2]
            oid_expr = ops.elts[0].elts[0]
            (sa, oa), (sb, ob) = [ops_of_ref(f, k, spin) for f, k in refs]
            sides = {family_ops(f)[0] for f, _ in refs}
            if len(sides) != 1:
                raise AnalysisError(f'{cname}.generate_graph line {call.lineno}: edge connects a left and a right family')
            side = sides.pop()
            ka = {(w, k) for w, k, _ in oa}
            kb = {(w, k) for w, k, _ in ob}
            if side == 'l':
                placed = [x for x in ob if (x[0], x[1]) not in ka]
                nright_parity = len(ob) % 2
                lost = [x for x in oa if (x[0], x[1]) not in kb]
            else:
                placed = [x for x in oa if (x[0], x[1]) not in kb]
                nright_parity = len(ob) % 2
                lost = [x for x in ob if (x[0], x[1]) not in ka]
            w = where(repo, gg, call)
            if lost:
                chk.ob(rid, w, f'{cname}: edge {refs[0][0]} -> {refs[1][0]} keeps the operators already accounted for', False,
                       f'operators {[(x[0], x[1]) for x in lost]} appear on one side only', key=f'{rid}|{cname}|lost|{norm(call)[:150]}')
                n += 1
                continue
            spin_vars = sorted(spins) if spin else []
            guards = spin_guards(gg.node, call, spins)
            ok_all, detail, checked = True, '', 0
            for vals in itertools.product((0, 1), repeat=len(spin_vars)):
                env = dict(zip(spin_vars, vals))
                try:
                    if not all(_truth(t, env) == want for t, want in guards):
                        continue
                except (KeyError, ValueError):
                    pass
                try:
                    oe = oid_expr
                    if isinstance(oe, ast.Name):
                        oe = resolve_oid(gg.node, call, oe.id, env)
                    o = _eval(oe, env)
                    if spin:
                        slots = {0: set(), 1: set()}
                        for wd, _, part in placed:
                            slots[_eval(part[1], env)].add(wd)
                        n_dn = sum(1 for wd, _, part in placed if _eval(part[1], env) == 1)
                        letters = []
                        for s_ in (0, 1):
                            if slots[s_]:
                                letters.append(LETTER[frozenset(slots[s_])])
                            else:
                                par = nright_parity + (n_dn if s_ == 0 else 0)
                                letters.append('Z' if par % 2 else 'I')
                        want_name = inv.get(tuple(letters))
                    else:
                        own = {wd for wd, _, _ in placed}
                        want_name = LETTER[frozenset(own)] if own else ('Z' if nright_parity else 'I')
                except (KeyError, ValueError) as ex:
                    raise AnalysisError(f'{cname}.generate_graph line {call.lineno}: cannot evaluate `{ex}`')
                checked += 1
                if o[1] != want_name:
                    ok_all = False
                    detail = (f'for {env}: places {[(x[0], x[1]) for x in placed]} with {"an odd" if nright_parity else "an even"} '
                              f'number of operators further right: expected {want_name}, found {o[1]}')
                    break
            if checked == 0:
                continue
            chk.ob(rid, w, f'{cname}: edge {refs[0][0]} -> {refs[1][0]} carries the Jordan-Wigner consistent operator '
                   f'({checked} spin assignment(s))', ok_all, detail, key=f'{rid}|{cname}|{norm(call)[:170]}')
            n += 1
    chk.floor(rid, n, 56)
