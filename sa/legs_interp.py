"""Interpreter that evaluates straight-line pytenet function bodies in the leg domain."""
import ast
from fractions import Fraction

from .loader import norm, AnalysisError
from . import legs as lg
from .legs import LegError, LegUnknown, TVal, Leg, Occ, Net, FactorRule


class QV:
    """flattened outer sum of charge vectors: list of (sign, text)"""
    def __init__(self, items):
        self.items = list(items)

    def neg(self):
        return QV([(-s, t) for s, t in self.items])

    def __repr__(self):
        return 'flatten[' + ', '.join(('+' if s > 0 else '-') + t for s, t in self.items) + ']'


class ShapeVal:
    def __init__(self, dims):
        self.dims = dims        # list of list-of-symbols (one per axis)


class DimVal:
    def __init__(self, syms):
        self.syms = list(syms)  # product of dimension symbols


class SigmaVal:
    def __init__(self, sid, dim, exponent=Fraction(1), rs=1, p=0):
        self.sid = sid
        self.dim = dim
        self.exponent = exponent
        self.rs = rs
        self.p = p


class FlatVal:
    """T.reshape(-1) of a tensor value T (kept so that a later .reshape(T.shape) gives T back)"""
    def __init__(self, tensor):
        self.tensor = tensor


class RitzVal:
    """second result of eigh_krylov(op, T.reshape(-1), ..): columns are vectors with the structure of T.reshape(-1)"""
    def __init__(self, tensor):
        self.tensor = tensor


class DiagVal:
    """np.diag(<singular values>)"""
    def __init__(self, sigma):
        self.sigma = sigma


class Scalar:
    def __init__(self, text='scalar'):
        self.text = text


class TupleVal:
    def __init__(self, items):
        self.items = list(items)


class Opaque:
    def __init__(self, text):
        self.text = text


class LegInterp:
    IDENTITY_STEPS = {'_local_hamiltonian_step': 3, '_local_bond_step': 2, '_minimize_local_energy': 3}

    def __init__(self, fi, env, consts=None, repo=None, shared=None, body=None):
        self.fi = fi
        self.env = dict(env)
        self.consts = consts or {}
        self.repo = repo
        self.shared = shared if shared is not None else {'counter': 0, 'factor_calls': [], 'events': [], 'depth': 0}
        self.body = body
        self.counter = 0
        self.events = []          # factorisation calls, reshapes ... for the rules
        self.ret = None
        self.factor_calls = []    # dicts describing qr/svd call sites (for charge rules)

    # ------------------------------------------------------------------
    def run(self):
        self.block(self.body if self.body is not None else self.fi.node.body)
        return self.ret

    def block(self, stmts):
        for s in stmts:
            if self.ret is not None:
                return
            self.stmt(s)

    def stmt(self, s):
        if isinstance(s, ast.Expr):
            if isinstance(s.value, ast.Constant):
                return
            self.ev(s.value)
            return
        if isinstance(s, ast.Assert):
            return
        if isinstance(s, ast.Return):
            self.ret = self.ev(s.value) if s.value is not None else None
            self.ret_node = s
            return
        if isinstance(s, ast.Raise):
            self.ret = Opaque('raise')
            return
        if isinstance(s, ast.Assign):
            v = self.ev(s.value)
            for t in s.targets:
                self.assign(t, v, s)
            return
        if isinstance(s, ast.If):
            c = self.const_test(s.test)
            if c is None:
                raise LegError(f'{self.fi.qual}: branch `{norm(s.test)[:60]}` cannot be decided in the leg domain')
            self.block(s.body if c else s.orelse)
            return
        if isinstance(s, ast.AugAssign):
            cur = self.ev(s.target)
            v = self.ev(s.value)
            if isinstance(s.op, ast.Mult):
                self.assign(s.target, self.mult(cur, v, s), s)
                return
            raise LegUnknown(f'{self.fi.qual}: augmented assignment `{norm(s)[:60]}` not in the leg domain')
        raise LegUnknown(f'{self.fi.qual}: statement {s.__class__.__name__} (line {s.lineno}) not in the leg domain')

    def const_test(self, test):
        if isinstance(test, ast.Compare) and len(test.ops) == 1 and isinstance(test.left, ast.Name) and \
                test.left.id in self.consts and isinstance(test.comparators[0], ast.Constant):
            a, b = self.consts[test.left.id], test.comparators[0].value
            if isinstance(test.ops[0], ast.Eq):
                return a == b
            if isinstance(test.ops[0], ast.NotEq):
                return a != b
        if isinstance(test, ast.Compare) and len(test.ops) == 1 and isinstance(test.left, ast.Name) and \
                test.left.id in self.consts and isinstance(test.ops[0], (ast.In, ast.NotIn)) and \
                isinstance(test.comparators[0], (ast.Tuple, ast.List, ast.Set)) and \
                all(isinstance(x, ast.Constant) for x in test.comparators[0].elts):
            # membership of a known option value in a literal collection
            inside = self.consts[test.left.id] in [x.value for x in test.comparators[0].elts]
            return inside if isinstance(test.ops[0], ast.In) else not inside
        if isinstance(test, ast.Compare) and len(test.ops) == 1 and isinstance(test.left, ast.Constant) and \
                isinstance(test.comparators[0], ast.Name) and test.comparators[0].id in self.consts and \
                isinstance(test.ops[0], (ast.Eq, ast.NotEq)):
            same = self.consts[test.comparators[0].id] == test.left.value
            return same if isinstance(test.ops[0], ast.Eq) else not same
        if isinstance(test, ast.UnaryOp) and isinstance(test.op, ast.Not):
            c = self.const_test(test.operand)
            return None if c is None else not c
        return None

    def assign(self, t, v, node):
        if isinstance(t, ast.Name):
            self.env[t.id] = v
        elif isinstance(t, (ast.Tuple, ast.List)):
            if isinstance(v, Opaque):
                for x in t.elts:
                    self.assign(x, Opaque(v.text), node)
                return
            if isinstance(v, ShapeVal) and len(v.dims) == len(t.elts):
                # d, Dl, Dr = X.shape: one dimension (product of leg dimensions) per name
                for x, dims in zip(t.elts, v.dims):
                    self.assign(x, DimVal(dims), node)
                return
            if not isinstance(v, TupleVal) or len(v.items) != len(t.elts):
                raise LegError(f'{self.fi.qual}: cannot unpack `{norm(node)[:60]}`')
            for x, y in zip(t.elts, v.items):
                self.assign(x, y, node)
        elif isinstance(t, ast.Attribute) and t.attr == 'shape':
            base = self.ev(t.value)
            if not isinstance(base, TVal):
                raise LegError(f'{self.fi.qual}: `.shape =` on a non-tensor')
            new = self.do_reshape(base, node.value, node)
            if isinstance(t.value, ast.Name):
                self.env[t.value.id] = new
            else:
                raise LegError('`.shape =` on a non-name')
        elif isinstance(t, ast.Subscript) or isinstance(t, ast.Attribute):
            self.env['@' + norm(t)] = v
        else:
            raise LegUnknown(f'{self.fi.qual}: assignment target `{norm(t)}` not in the leg domain')

    # ------------------------------------------------------------------
    def ev(self, e):
        if isinstance(e, ast.Name):
            if e.id in self.env:
                return self.env[e.id]
            return Opaque(e.id)
        if isinstance(e, ast.Constant):
            return Scalar(repr(e.value))
        if isinstance(e, ast.Tuple):
            return TupleVal([self.ev(x) for x in e.elts])
        if isinstance(e, ast.List):
            return TupleVal([self.ev(x) for x in e.elts])
        if isinstance(e, ast.UnaryOp) and isinstance(e.op, ast.USub):
            v = self.ev(e.operand)
            if isinstance(v, QV):
                return v.neg()
            if isinstance(v, Opaque):
                return QV([(-1, v.text)])
            if isinstance(v, TVal):
                n = Net()
                n.occs, n.pairs, n.weights, n.rules = v.net.occs, v.net.pairs, v.net.weights, v.net.rules
                n.scalars = v.net.scalars + ['-1']
                return TVal(n, v.axes)
            return v
        if isinstance(e, ast.Attribute):
            key = '@' + norm(e)
            if key in self.env:
                return self.env[key]
            if e.attr == 'shape':
                b = self.ev(e.value)
                if isinstance(b, TVal):
                    return ShapeVal([[l.dim for l in ax] for ax in b.axes])
                return Opaque(norm(e))
            if e.attr == 'T':
                b = self.ev(e.value)
                if isinstance(b, TVal):
                    return lg.transpose(b, list(reversed(range(b.rank))))
            if e.attr in ('real', 'imag'):
                return self.ev(e.value)
            return Opaque(norm(e))
        if isinstance(e, ast.Subscript):
            key = '@' + norm(e)
            if key in self.env:
                return self.env[key]
            base = self.ev(e.value)
            if isinstance(base, Opaque) and isinstance(e.slice, ast.Slice) and e.slice.lower is not None and \
                    e.slice.upper is not None and e.slice.step is None:
                # X[a:a+n] of a label list: the n elements X[a], ..., X[a+n-1]
                from .affine import try_affine
                lo_, up_ = try_affine(e.slice.lower), try_affine(e.slice.upper)
                if lo_ is not None and up_ is not None and (up_ - lo_).is_const() and 0 < (up_ - lo_).c <= 4:
                    from .affine import Affine
                    return TupleVal([Opaque(f'{base.text}[{lo_ + Affine.const(k)}]') for k in range(int((up_ - lo_).c))])
            if isinstance(base, RitzVal):
                return FlatVal(base.tensor)          # one column: a vector of the local space
            if isinstance(base, ShapeVal):
                i = _int(e.slice)
                if i is None or not -len(base.dims) <= i < len(base.dims):
                    raise LegError(f'shape index `{norm(e)}`')
                return DimVal(base.dims[i])
            if isinstance(base, TupleVal):
                i = _int(e.slice)
                if i is not None and -len(base.items) <= i < len(base.items):
                    return base.items[i]
            if isinstance(base, SigmaVal) and isinstance(e.slice, ast.Name) and isinstance(self.env.get(e.slice.id), Opaque):
                return base
            if isinstance(base, SigmaVal):
                idx = e.slice.elts if isinstance(e.slice, ast.Tuple) else [e.slice]
                p = None
                for k, x in enumerate(idx):
                    if isinstance(x, ast.Slice) and x.lower is None and x.upper is None:
                        if p is not None:
                            raise LegError('sigma indexed with two slices')
                        p = k
                    elif isinstance(x, ast.Constant) and x.value is None:
                        pass
                    else:
                        raise LegError(f'sigma index `{norm(e)}` not recognised')
                if p is None:
                    raise LegError(f'sigma index `{norm(e)}` not recognised')
                return SigmaVal(base.sid, base.dim, base.exponent, len(idx), p)
            if isinstance(base, TVal):
                idx = e.slice.elts if isinstance(e.slice, ast.Tuple) else [e.slice]
                if all(isinstance(x, ast.Constant) and isinstance(x.value, int) for x in idx) and len(idx) == base.rank:
                    return Scalar(norm(e))
                full = lambda x: isinstance(x, ast.Slice) and x.lower is None and x.upper is None and x.step is None
                sel = [k for k, x in enumerate(idx) if not full(x)]
                if len(idx) == base.rank and len(sel) == 1 and isinstance(idx[sel[0]], ast.Name) and \
                        isinstance(self.env.get(idx[sel[0]].id), Opaque):
                    # restriction of one axis by an index set: same legs (fewer values on that leg)
                    self.shared['events'].append(('restrict', e, self.fi, base, sel[0]))
                    return base
                raise LegUnknown(f'tensor subscript `{norm(e)[:50]}` not in the leg domain')
            return Opaque(norm(e))
        if isinstance(e, ast.BinOp):
            if isinstance(e.op, ast.Mult):
                return self.mult(self.ev(e.left), self.ev(e.right), e)
            if isinstance(e.op, ast.Div):
                a, b = self.ev(e.left), self.ev(e.right)
                if isinstance(a, TVal) and isinstance(b, (Scalar, Opaque)):
                    return self.mult(a, Scalar('1/' + getattr(b, 'text', '?')), e)
                return Scalar(norm(e))
            if isinstance(e.op, (ast.Add, ast.Sub)):
                a, b = self.ev(e.left), self.ev(e.right)
                if isinstance(a, TVal) or isinstance(b, TVal):
                    return SumVal(a, b, isinstance(e.op, ast.Sub))
                return Scalar(norm(e))
            if isinstance(e.op, ast.MatMult):
                a, b = self.ev(e.left), self.ev(e.right)
                if isinstance(a, TVal) and isinstance(b, TVal):
                    return lg.tensordot(a, b, [a.rank - 1], [0], 'matmul')
                r = self.diag_product(a, b, e)
                if r is not None:
                    return r
                if isinstance(a, TVal) or isinstance(b, TVal):
                    raise LegUnknown(f'`{norm(e)[:50]}`: matrix product with an operand outside the leg domain')
            return Scalar(norm(e))
        if isinstance(e, ast.Call):
            return self.call(e)
        if isinstance(e, ast.Lambda):
            return Opaque('lambda')
        if isinstance(e, ast.JoinedStr):
            return Scalar('str')
        if isinstance(e, ast.Compare):
            return Scalar('bool')
        if isinstance(e, ast.IfExp):
            a, b = self.ev(e.body), self.ev(e.orelse)
            if isinstance(a, (Scalar, Opaque)) and isinstance(b, (Scalar, Opaque)):
                return Scalar(norm(e))          # a choice between two numbers is a number
            if isinstance(a, TVal) and isinstance(b, TVal):
                # a tensor chosen by a run-time test: both outcomes must denote the same network, otherwise the result is
                # the documented one for some inputs only (e.g. a conjugation that depends on the dtype of another operand)
                ca, cb = lg.canon(a), lg.canon(b)
                if ca == cb:
                    return a
                # conj(X) if X is complex else X: conjugating a real array changes nothing - same tensor on both paths
                t = e.test
                if isinstance(t, ast.Call) and norm(t.func) in ('np.iscomplexobj', 'np.iscomplex') and len(t.args) == 1:
                    cj, pl = (e.body, e.orelse)
                    if norm(cj) in (f'{norm(pl)}.conj()', f'np.conj({norm(pl)})', f'{norm(pl)}.conjugate()') and norm(t.args[0]) == norm(pl):
                        return a
                if isinstance(t, ast.Call) and norm(t.func) in ('np.isrealobj',) and len(t.args) == 1:
                    pl, cj = (e.body, e.orelse)
                    if norm(cj) in (f'{norm(pl)}.conj()', f'np.conj({norm(pl)})', f'{norm(pl)}.conjugate()') and norm(t.args[0]) == norm(pl):
                        return b
                raise LegError(f'`{norm(e)[:80]}`: the two outcomes of the run-time test `{norm(e.test)[:40]}` denote different '
                               f'tensors (conjugated legs {ca.get("conj")} vs {cb.get("conj")})')
        if isinstance(e, ast.BoolOp):
            return Scalar('bool')
        raise LegUnknown(f'{self.fi.qual}: expression `{norm(e)[:60]}` not in the leg domain')

    def dim_product(self, v, node):
        if isinstance(v, DimVal):
            return list(v.syms)
        if isinstance(v, Scalar):
            if v.text == '-1':
                return None
            return [v.text] if v.text != '1' else ['1']
        if isinstance(v, Opaque):
            return [v.text]
        raise LegError(f'{self.fi.qual}: shape element `{norm(node)[:40]}` not recognised')

    def shape_groups(self, shape_node):
        elts = shape_node.elts if isinstance(shape_node, ast.Tuple) else [shape_node]
        groups = []
        for x in elts:
            groups.append(self._dim_expr(x))
        return groups

    def _dim_expr(self, x):
        if isinstance(x, ast.BinOp) and isinstance(x.op, ast.Mult):
            a, b = self._dim_expr(x.left), self._dim_expr(x.right)
            if a is None or b is None:
                raise LegError('-1 inside a product')
            return a + b
        if isinstance(x, ast.UnaryOp) and isinstance(x.op, ast.USub) and isinstance(x.operand, ast.Constant) \
                and x.operand.value == 1:
            return None
        if isinstance(x, ast.Call) and norm(x.func) == 'len' and len(x.args) == 1:
            v = self.ev(x.args[0])
            if isinstance(v, SigmaVal):
                return [v.dim]
            if isinstance(v, QV) and len(v.items) == 1:
                return [f'len({v.items[0][1]})']
            if isinstance(v, Opaque):
                return [f'len({v.text})']
            return [f'len({norm(x.args[0])})']
        v = self.ev(x)
        return self.dim_product(v, x)

    def do_reshape(self, base, shape_node, node):
        groups = self.shape_groups(shape_node)
        out = lg.reshape(base, groups)
        self.events.append(('reshape', node, base, out))
        self.shared['events'].append(('reshape', node, self.fi, base, out))
        return out

    def diag_product(self, a, b, node):
        """np.diag(sigma) @ T scales the first axis of T, T @ np.diag(sigma) its last axis"""
        if isinstance(a, DiagVal) and isinstance(b, TVal):
            return self.mult(b, SigmaVal(a.sigma.sid, a.sigma.dim, a.sigma.exponent, b.rank, 0), node)
        if isinstance(a, TVal) and isinstance(b, DiagVal):
            return self.mult(a, SigmaVal(b.sigma.sid, b.sigma.dim, b.sigma.exponent, 1, 0), node)
        return None

    def mult(self, a, b, node):
        if isinstance(a, SigmaVal) and isinstance(b, TVal):
            a, b = b, a
        if isinstance(a, TVal) and isinstance(b, SigmaVal):
            axis = a.rank - b.rs + b.p
            if not 0 <= axis < a.rank:
                raise LegError(f'broadcast of singular values in `{norm(node)[:50]}` does not align with an axis')
            leg = a.axes[axis]
            if len(leg) != 1 or leg[0].dim != b.dim:
                raise LegError(f'`{norm(node)[:50]}`: singular values multiply axis {axis} ({leg}) which is not their bond')
            return lg.scale_axis(a, axis, b.sid, b.exponent)
        if isinstance(a, TVal) and isinstance(b, TVal):
            raise LegUnknown(f'elementwise product of two tensors `{norm(node)[:50]}` not in the leg domain')
        if isinstance(a, TVal) or isinstance(b, TVal):
            t, s = (a, b) if isinstance(a, TVal) else (b, a)
            n = Net()
            n.occs, n.pairs, n.weights, n.rules = t.net.occs, t.net.pairs, t.net.weights, t.net.rules
            n.scalars = t.net.scalars + [getattr(s, 'text', 'scalar')]
            return TVal(n, t.axes)
        if isinstance(a, SigmaVal) or isinstance(b, SigmaVal):
            return a if isinstance(a, SigmaVal) else b
        return Scalar(norm(node))

    # ------------------------------------------------------------------
    def call(self, e):
        f = norm(e.func)
        kw = {k.arg: k.value for k in e.keywords if k.arg}
        if f in ('min', 'max', 'abs', 'float', 'int', 'complex', 'round', 'np.real', 'np.imag', 'np.abs', 'np.sqrt') and e.args:
            vals = [self.ev(a) for a in e.args]
            if all(isinstance(v, (Scalar, Opaque)) for v in vals):
                return Scalar(norm(e))          # numbers in, a number out
        if f == 'np.diag' and len(e.args) == 1:
            v = self.ev(e.args[0])
            if isinstance(v, SigmaVal):
                return DiagVal(v)
            raise LegError(f'{self.fi.qual}: `{norm(e)[:50]}`: np.diag of something that is not a vector of singular values')
        if f in ('np.dot', 'np.matmul') and len(e.args) == 2:
            a, b = self.ev(e.args[0]), self.ev(e.args[1])
            if isinstance(a, TVal) and isinstance(b, TVal):
                return lg.tensordot(a, b, [a.rank - 1], [0 if b.rank == 1 else b.rank - 2], f'{f} at line {e.lineno}')
            r = self.diag_product(a, b, e)
            if r is not None:
                return r
            raise LegUnknown(f'{self.fi.qual}: `{norm(e)[:50]}` with operands outside the leg domain')
        if f in ('np.tensordot',):
            a, b = self.ev(e.args[0]), self.ev(e.args[1])
            axn = e.args[2] if len(e.args) > 2 else kw.get('axes')
            if not (isinstance(a, TVal) and isinstance(b, TVal)) or axn is None:
                raise LegError(f'tensordot `{norm(e)[:60]}` with non-tensor operands')
            ia, ib = _axes(axn, a.rank, b.rank)
            return lg.tensordot(a, b, ia, ib, f'tensordot at line {e.lineno}')
        if f == 'np.einsum' and e.args and isinstance(e.args[0], ast.Constant) and isinstance(e.args[0].value, str):
            # subscripts-string form: 'iab,icb->ac' (explicit output only; no ellipsis, no repeated label in one operand)
            spec = e.args[0].value.replace(' ', '')
            if '->' not in spec or '.' in spec:
                raise LegUnknown(f'einsum `{spec}`: implicit output / ellipsis is not in the leg domain')
            ins, out = spec.split('->')
            ins = ins.split(',')
            vals = [self.ev(a) for a in e.args[1:]]
            if len(ins) != len(vals) or not all(isinstance(v, TVal) for v in vals):
                raise LegError(f'einsum `{spec}`: operands do not match the subscripts')
            letters = sorted(set(''.join(ins)))
            num = {c: k for k, c in enumerate(letters)}
            labs = [tuple(num[c] for c in i) for i in ins]
            if any(len(set(l)) != len(l) for l in labs) or any(len(l) != v.rank for l, v in zip(labs, vals)):
                raise LegError(f'einsum `{spec}`: repeated label inside one operand / rank mismatch')
            return lg.einsum(vals, labs, tuple(num[c] for c in out))
        if f == 'np.einsum':
            args = list(e.args)
            ops, labs = [], []
            while len(args) >= 2 and not (len(args) == 1):
                if len(args) == 1:
                    break
                v = self.ev(args[0])
                if not isinstance(v, TVal):
                    break
                l = _int_tuple(args[1])
                if l is None:
                    raise LegError('einsum: only the interleaved form is in the leg domain')
                ops.append(v)
                labs.append(l)
                args = args[2:]
            if len(args) != 1:
                raise LegError('einsum: output labels missing')
            out = _int_tuple(args[0])
            return lg.einsum(ops, labs, out)
        if f in ('np.conj', 'np.conjugate') and len(e.args) == 1:
            v = self.ev(e.args[0])
            return lg.conj(v) if isinstance(v, TVal) else v
        if isinstance(e.func, ast.Attribute) and e.func.attr in ('conj', 'conjugate') and not e.args:
            v = self.ev(e.func.value)
            return lg.conj(v) if isinstance(v, TVal) else v
        if isinstance(e.func, ast.Attribute) and e.func.attr == 'transpose':
            v = self.ev(e.func.value)
            if isinstance(v, TVal):
                perm = _int_tuple(e.args[0]) if len(e.args) == 1 else tuple(_int(a) for a in e.args)
                if not e.args:
                    perm = tuple(reversed(range(v.rank)))
                return lg.transpose(v, list(perm))
        if f == 'np.transpose':
            v = self.ev(e.args[0])
            if isinstance(v, TVal):
                perm = _int_tuple(e.args[1]) if len(e.args) > 1 else tuple(reversed(range(v.rank)))
                return lg.transpose(v, list(perm))
        if isinstance(e.func, ast.Attribute) and e.func.attr == 'reshape':
            v = self.ev(e.func.value)
            if isinstance(v, TVal) and len(e.args) == 1 and norm(e.args[0]) == '-1':
                return FlatVal(v)
            if isinstance(v, FlatVal) and len(e.args) == 1:
                sh = self.ev(e.args[0])
                if isinstance(sh, ShapeVal) and sh.dims == [[l.dim for l in ax] for ax in v.tensor.axes]:
                    return v.tensor          # a vector of the local space back in the shape of the tensor
                raise LegError(f'`{norm(e)[:60]}`: flattened tensor reshaped to another shape than its own')
            if isinstance(v, TVal):
                shape = e.args[0] if len(e.args) == 1 else ast.Tuple(elts=list(e.args), ctx=ast.Load())
                return self.do_reshape(v, shape, e)
        if f == 'np.reshape':
            v = self.ev(e.args[0])
            if isinstance(v, TVal):
                return self.do_reshape(v, e.args[1], e)
        if isinstance(e.func, ast.Attribute) and e.func.attr == 'copy' and not e.args:
            return self.ev(e.func.value)
        if f == 'len' and len(e.args) == 1:
            v = self.ev(e.args[0])
            if isinstance(v, SigmaVal):
                return DimVal([v.dim])
            if isinstance(v, ShapeVal):
                return Scalar(str(len(v.dims)))
            t = v.items[0][1] if isinstance(v, QV) and len(v.items) == 1 else (
                v.text if isinstance(v, Opaque) else norm(e.args[0]))
            return DimVal([f'len({t})'])
        if f in ('qnumber_flatten', 'qnumber_outer_sum') and len(e.args) == 1:
            lst = e.args[0]
            if not isinstance(lst, (ast.List, ast.Tuple)):
                raise LegError(f'{f}: argument is not a list display')
            items = []
            for x in lst.elts:
                items += self.charge(x).items
            return QV(items)
        if f == 'np.sqrt' and len(e.args) == 1:
            v = self.ev(e.args[0])
            if isinstance(v, SigmaVal):
                return SigmaVal(v.sid, v.dim, v.exponent / 2, v.rs, v.p)
            return Scalar(norm(e))
        if f in ('qr', 'split_matrix_svd', 'np.linalg.svd', 'np.linalg.qr'):
            return self.factorise(e, f)
        if f == 'retained_bond_indices':
            return Opaque(norm(e))
        if f == 'abs':
            return Scalar(norm(e))
        if f in ('np.array', 'np.identity', 'np.zeros', 'np.ones'):
            return Opaque(norm(e))
        if f in ('eigh_krylov', 'expm_krylov') and len(e.args) >= 2:
            # a local problem posed in line: the result vectors have the structure of the start vector (C04.R2)
            v = self.ev(e.args[1])
            if isinstance(v, FlatVal):
                return TupleVal([Opaque('ritz values'), RitzVal(v.tensor)]) if f == 'eigh_krylov' else FlatVal(v.tensor)
            raise LegError(f'{self.fi.qual}: `{norm(e)[:60]}`: start vector is not a flattened tensor')
        if isinstance(e.func, ast.Name) and e.func.id in self.IDENTITY_STEPS:
            # local evolution / optimisation step: the result has the leg structure of its tensor argument
            # (C04.R2: the output of the local operators can replace their argument)
            k = self.IDENTITY_STEPS[e.func.id]
            v = self.ev(e.args[k])
            if e.func.id == '_minimize_local_energy':
                return TupleVal([Scalar('energy'), v])
            return v
        if f.startswith('contraction_') or f in ('np.identity', 'compute_right_operator_blocks', 'is_qsparse'):
            return Opaque(norm(e))
        if isinstance(e.func, ast.Name) and self.repo is not None:
            r = self.repo.resolve_name(self.fi.module, e.func.id)
            if r and r[0] == 'func':
                return self.inline(r[1], e)
        if f.startswith('contraction_') or f in ('np.identity', 'compute_right_operator_blocks'):
            return Opaque(norm(e))
        raise LegUnknown(f'{self.fi.qual}: call `{norm(e)[:70]}` not in the leg domain')

    def inline(self, callee, e):
        if self.shared['depth'] > 4:
            raise LegError('call depth exceeded in the leg domain')
        env, consts = {}, {}
        args = list(e.args)
        for p, a in zip(callee.params, args):
            env[p] = self.ev(a)
            if isinstance(a, ast.Constant):
                consts[p] = a.value
        for k in e.keywords:
            if k.arg in callee.params:
                env[k.arg] = self.ev(k.value)
                if isinstance(k.value, ast.Constant):
                    consts[k.arg] = k.value.value
        if not any(isinstance(v, TVal) for v in env.values()):
            return Opaque(norm(e))         # no tracked tensor takes part in this call
        for p in callee.params:
            if p not in env and p in callee.defaults:
                d = callee.defaults[p]
                env[p] = Scalar(norm(d))
                if isinstance(d, ast.Constant):
                    consts[p] = d.value
        sub = LegInterp(callee, env, consts, self.repo, self.shared)
        self.shared['depth'] += 1
        try:
            out = sub.run()
        finally:
            self.shared['depth'] -= 1
        return out

    def charge(self, x):
        """signed charge list of a q-number expression"""
        if isinstance(x, ast.UnaryOp) and isinstance(x.op, ast.USub):
            return self.charge(x.operand).neg()
        v = self.ev(x)
        if isinstance(v, QV):
            return v
        if isinstance(v, Opaque):
            return QV([(1, v.text)])
        raise LegError(f'`{norm(x)[:40]}` is not a quantum-number expression')

    def factorise(self, e, f):
        m = self.ev(e.args[0])
        if not isinstance(m, TVal) or m.rank != 2:
            raise LegError(f'{f}: first argument is not a matrix in the leg domain')
        plain = f.startswith('np.linalg.')
        q0 = self.charge(e.args[1]) if not plain else QV([])
        q1 = self.charge(e.args[2]) if not plain else QV([])
        if plain:
            f = 'qr' if f.endswith('qr') else 'split_matrix_svd'
        self.shared['counter'] += 1
        n = self.shared['counter']
        tag = f'{"QR" if f == "qr" else "SVD"}{n}'
        lname, rname = ('Q', 'R') if f == 'qr' else ('U', 'V')
        lo = Occ(f'{lname}#{n}', lname)
        ro = Occ(f'{rname}#{n}', rname)
        rows, cols = m.axes
        row_map, col_map = {}, {}
        lrows = []
        for k, l in enumerate(rows):
            ml = Leg(lo, f'r{k}', l.dim, l.charge)
            lo.legs.append(ml)
            lrows.append(ml)
            row_map[ml] = l
        lb = Leg(lo, 'bond', f'bond#{n}', (-1, f'qbond#{n}'), 'bond')
        lo.legs.append(lb)
        rb = Leg(ro, 'bond', f'bond#{n}', (1, f'qbond#{n}'), 'bond')
        ro.legs.append(rb)
        rcols = []
        for k, l in enumerate(cols):
            ml = Leg(ro, f'c{k}', l.dim, l.charge)
            ro.legs.append(ml)
            rcols.append(ml)
            col_map[ml] = l
        rule = FactorRule('qr' if f == 'qr' else 'svd', lo, ro, lb, rb, m, row_map, col_map, n)
        ln = Net()
        ln.occs = [lo]
        ln.rules = [rule]
        rn = Net()
        rn.occs = [ro]
        rn.rules = [rule]
        L = TVal(ln, [lrows, [lb]])
        R = TVal(rn, [[rb], rcols])
        qb = QV([(1, f'qbond#{n}')])
        rec = {'node': e, 'kind': f, 'm': m, 'q0': q0, 'q1': q1, 'id': n, 'fi': self.fi, 'plain': plain,
               'tol': e.args[3] if len(e.args) > 3 else None}
        self.factor_calls.append(rec)
        self.shared['factor_calls'].append(rec)
        if f == 'qr':
            return TupleVal([L, R] if plain else [L, R, qb])
        if plain:
            return TupleVal([L, SigmaVal(n, f'bond#{n}'), R])
        return TupleVal([L, SigmaVal(n, f'bond#{n}'), R, qb])


class SumVal:
    def __init__(self, a, b, minus):
        self.a, self.b, self.minus = a, b, minus


def _int(n):
    if isinstance(n, ast.Constant) and isinstance(n.value, int) and not isinstance(n.value, bool):
        return n.value
    if isinstance(n, ast.UnaryOp) and isinstance(n.op, ast.USub):
        v = _int(n.operand)
        return None if v is None else -v
    return None


def _int_tuple(n):
    if isinstance(n, (ast.Tuple, ast.List)):
        out = tuple(_int(x) for x in n.elts)
        return None if any(x is None for x in out) else out
    i = _int(n)
    return None if i is None else (i,)


def _axes(axn, ra, rb):
    k = _int(axn)
    if k is not None:
        return list(range(ra - k, ra)), list(range(k))
    if isinstance(axn, (ast.Tuple, ast.List)) and len(axn.elts) == 2:
        ia, ib = _int_tuple(axn.elts[0]), _int_tuple(axn.elts[1])
        if ia is not None and ib is not None:
            ia = [x % ra for x in ia]
            ib = [x % rb for x in ib]
            return list(ia), list(ib)
    raise LegError(f'tensordot axes `{norm(axn)}` not recognised')


def ranks_from_asserts(fnode):
    """`assert X.ndim == n` / `assert len(s) == n` with `s = X.shape`"""
    out = {}
    shp = {}
    for n in ast.walk(fnode):
        if isinstance(n, ast.Assign) and len(n.targets) == 1 and isinstance(n.targets[0], ast.Name) and \
                isinstance(n.value, ast.Attribute) and n.value.attr == 'shape' and isinstance(n.value.value, ast.Name):
            shp[n.targets[0].id] = n.value.value.id
    for n in ast.walk(fnode):
        if isinstance(n, ast.Assert) and isinstance(n.test, ast.Compare) and len(n.test.ops) == 1 and \
                isinstance(n.test.ops[0], ast.Eq):
            l, r = n.test.left, n.test.comparators[0]
            k = _int(r)
            if k is None:
                continue
            if isinstance(l, ast.Attribute) and l.attr == 'ndim' and isinstance(l.value, ast.Name):
                out.setdefault(l.value.id, k)
            if isinstance(l, ast.Call) and norm(l.func) == 'len' and isinstance(l.args[0], ast.Name) and \
                    l.args[0].id in shp:
                out.setdefault(shp[l.args[0].id], k)
    return out
