"""Rule sets of anchored support code, reusable under the rule ids of the properties that rely on them.

A property whose anchors include bond_ops.py / operation.py / krylov.py / opgraph.from_opchains depends on the
structural clauses decided there; a change in that support code breaks the dependent property as well, so the same
rules are instantiated under the dependent property's id (the verdict is computed again, nothing is copied).
"""
from ..loader import AnalysisError
from .common import where


def block_rules(chk, repo, rid, which=('qr',), text=None):
    from .C11 import run_block, bounds_rule
    names = {'qr': ('bond_ops.qr', 'qr'), 'svd': ('bond_ops.split_matrix_svd', 'svd')}
    chk.rule(rid, text or 'support: frames, charge tags, block reads/stores, dummy bond and (for the SVD) truncation of '
                          + ' / '.join(names[w][0] for w in which) + ' (rules of C11 / C12 re-evaluated)')
    n = 0
    for w in which:
        q, kind = names[w]
        fi, ba, items = run_block(chk, repo, rid, q, kind, single_rule=rid)
        bounds_rule(chk, repo, rid, fi, getattr(ba, 'Dname', 'D'))
        n += len(items)
    chk.floor(rid, n, 40 * len(which), hard_min=20)
    return n


def kernel_rules(chk, repo, rid, only, text=None):
    from . import C04
    chk.rule(rid, text or f'support: the contraction kernels {sorted(only)} denote their documented networks and agree '
                          f'with their siblings (rules of C04 re-evaluated)')
    vals = {}
    C04.rule_R1(chk, repo, vals, rid=rid, only=set(only))
    return len(vals)


def krylov_rules(chk, repo, prefix):
    from .C14 import krylov_rules as kr
    return kr(chk, repo, prefix)


def chain_compiler_rules(chk, repo, prefix):
    from . import C05
    from .common import run_id_typestate
    chk.rule(f'{prefix}.a', 'support: id allocation typestate of OpGraph.from_opchains (rule C05.R1 re-evaluated)')
    run_id_typestate(chk, repo, f'{prefix}.a', [repo.func('opgraph.OpGraph.from_opchains')], 6)
    C05.rule_R2(chk, repo, rid=f'{prefix}.b')
    C05.rule_R3(chk, repo, rid=f'{prefix}.c')
    C05.rule_R5(chk, repo, rid=f'{prefix}.d')
    C05.rule_R6(chk, repo, rid=f'{prefix}.e')
    C05.rule_R7(chk, repo, rid=f'{prefix}.f')


def ownership_rules(chk, repo, rid, text=None):
    """MPS / MPO objects own their quantum-number arrays: constructors convert, results share nothing with operands.
    (rules of C19 re-evaluated for the MPS/MPO-returning operations)"""
    from ..effects import Engine
    from . import C19
    chk.rule(rid, text or 'support: every MPS / MPO owns its quantum-number arrays and tensors (constructors copy, results of the '
                          'arithmetic share no mutable state with operands), so that an in-place change of one object '
                          '(zero_qnumbers, orthonormalize, ...) cannot invalidate the labels of another (rules of C19 '
                          're-evaluated)')
    eng = Engine(repo)
    quals = ['mps.MPS.__init__', 'mpo.MPO.__init__'] + [q for q in C19.RESULT if q.split('.')[0] in ('mps', 'mpo', 'operation')]
    n = 0
    for q in quals:
        fi = repo.func(q)
        res, pw = C19.analyse_entry(eng, fi)
        w = f'pytenet/{fi.module}.py:{q.split(".", 1)[1]}:{fi.node.lineno}'
        if fi.name == '__init__':
            sh = C19.shared_with_params(eng, fi, res['args']['self'], exclude=('self',))
        else:
            sh = C19.shared_with_params(eng, fi, res['ret'])
        chk.ob(rid, w, f'{q}: the new object shares no mutable state with its arguments', not sh,
               'can reach ' + ', '.join(sh[:4]) if sh else '', key=f'{rid}|{q}|sharing')
        n += 1
    chk.floor(rid, n, 12)
    return n


def defassign_rules(chk, repo, rid, modules, facts=None, only=None):
    """definite assignment over whole modules: no read of a local that some path leaves unbound (a sweep / iteration
    loop may run zero times unless its range is provably non-empty under the documented lower bounds `facts`)"""
    from .. import defassign
    chk.rule(rid, 'definite assignment: every read of a local variable is preceded by a binding on every path; a `for` '
                  'loop may run zero times unless its iterable is provably non-empty (literal sequences, range bounds under '
                  'asserted / documented lower bounds); bindings made under a condition that cannot change are available '
                  'under the same condition later - the call cannot end in UnboundLocalError for boundary sizes the tests '
                  'do not visit')
    nfun = nreads = 0
    for q, fi in sorted(repo.funcs.items()):
        if fi.module not in modules or (only is not None and q not in only):
            continue
        d = defassign.DA(fi.node)
        d.lower.update((facts or {}).get(q, {}))
        try:
            d.run()
        except NotImplementedError as ex:
            raise AnalysisError(f'{q}: statement kind {ex} not handled by the definite-assignment analysis')
        nfun += 1
        nreads += d.nreads
        bad = {}
        for node, name, why in d.findings:
            bad.setdefault(name, (node, why))
        chk.ob(rid, where(repo, fi, fi.node), f'{fi.qual}: all {d.nreads} reads of locals are definitely assigned', not bad,
               '; '.join(f'`{n}` {w} (line {nd.lineno})' for n, (nd, w) in sorted(bad.items())), key=f'{rid}|{q}')
    if nfun == 0:
        raise AnalysisError(f'definite assignment: no function found in modules {sorted(modules)}')
    return nfun
