"""C16 - operator-graph rewrites (structural part)."""
import ast
from ..defuse import before as _before
import copy

from ..loader import norm, AnalysisError
from ..affine import try_affine, Affine
from ..effects import Engine
from .. import typestate as ts
from .common import where


from ..defuse import local_defs, canon_cond, dominating_conditions


def rule_R1(chk, repo):
    rid = 'C16.R1'
    chk.rule(rid, 'merge guard: the conditions that dominate the node-fusing merge_edges call in _simplify_step '
                  '(with local definitions expanded, negated skip-guards included) contain the three fusion '
                  'conditions (equal operators, single input edge of both upstream nodes, equal quantum numbers) and '
                  'every assert of merge_edges on its node-fusing path; the parallel-edge merge is guarded by equal '
                  'upstream nodes.')
    step = repo.func('opgraph.OpGraph._simplify_step')
    merge = repo.func('opgraph.OpGraph.merge_edges')
    sdefs = local_defs(step.node, keep_ctor_calls=True)
    calls = [n for n in ast.walk(step.node) if isinstance(n, ast.Call) and ts.callee_name(n) == 'merge_edges']
    if len(calls) < 1:
        raise AnalysisError('_simplify_step: no merge_edges call found')
    # formal -> actual substitution for the asserts of merge_edges
    mdefs = local_defs(merge.node, keep_ctor_calls=True)
    # asserts after the parallel-edge early return
    fusing_asserts = []
    seen_return = False
    parallel_cond = None
    for s in merge.node.body:
        if isinstance(s, ast.If) and s.body and isinstance(s.body[-1], ast.Return):
            seen_return = True
            parallel_cond = canon_cond(s.test, mdefs)
            continue
        if isinstance(s, ast.Assert):
            (fusing_asserts if seen_return else []).append(s)
    common_asserts = [s for s in merge.node.body if isinstance(s, ast.Assert)][:1]
    if not seen_return or not fusing_asserts:
        raise AnalysisError('merge_edges: parallel-edge early return / fusion asserts not found')
    fm = merge.params          # self, eid1, eid2, direction

    def spec_for(call):
        a1, a2, d = [norm(x) for x in call.args[:3]]
        up1 = f'self.nodes[self.edges[{a1}].nids[1 - {d}]]'
        up2 = f'self.nodes[self.edges[{a2}].nids[1 - {d}]]'
        return {
            'equal operators': f'self.edges[{a1}].opics == self.edges[{a2}].opics',
            'single input edge (node 1)': f'1 == len({up1}.eids[{d}])',
            'single input edge (node 2)': f'1 == len({up2}.eids[{d}])',
            'equal quantum numbers': f'{up1}.qnum == {up2}.qnum',
        }, f'self.edges[{a1}].nids[1 - {d}] == self.edges[{a2}].nids[1 - {d}]'

    def formal_to_actual(test, call):
        import copy as _c
        from ..canon import _Ren
        from ..defuse import expand
        t = expand(test, mdefs)
        m = {f: norm(a) for f, a in zip(fm[1:4], call.args[:3]) if isinstance(a, ast.Name)}
        return _Ren(m).visit(_c.deepcopy(t))

    def canon_text(s):
        # symmetric comparison ordering as in canon_cond
        l, op, r = s.partition(' == ')
        return f'{min(l, r)} == {max(l, r)}' if op else s
    n = 0
    fusing_seen = False
    for c in calls:
        conds = dominating_conditions(step.node, c, sdefs)
        if conds is None:
            raise AnalysisError('_simplify_step: could not locate merge_edges call in the statement tree')
        conds = set(conds)
        spec, par = spec_for(c)
        spec = {k: canon_text(v) for k, v in spec.items()}
        par = canon_text(par)
        if par in conds:
            chk.ob(rid, where(repo, step, c), 'parallel-edge merge is guarded by equal upstream nodes', True, par,
                   key=f'{rid}|parallel')
            n += 1
            continue
        fusing_seen = True
        for name, text in spec.items():
            ok = text in conds
            chk.ob(rid, where(repo, step, c), f'fusion guard contains: {name}', ok,
                   text if ok else f'`{text}` is not among the dominating conditions {sorted(conds)[:6]}',
                   key=f'{rid}|spec|{name}')
            n += 1
        for a in fusing_asserts:
            text = canon_cond(formal_to_actual(a.test, c), {})
            ok = text in conds
            chk.ob(rid, where(repo, merge, a), f'assert of merge_edges is implied by the guard: {norm(a.test)[:60]}',
                   ok, text if ok else f'`{text}` not among the dominating conditions', key=f'{rid}|assert|{text}')
            n += 1
    if not fusing_seen:
        raise AnalysisError('_simplify_step: node-fusing merge call not found')
    chk.floor(rid, n, 9)


# ---------------------------------------------------------------------------------------
def dir_affine(e):
    a = try_affine(e)
    if a is None:
        return None
    if a.syms() - {'direction'}:
        return None
    return a


def rule_R2(chk, repo, eng):
    rid = 'C16.R2'
    chk.rule(rid, 'id-bearing locations: rename_node_id writes the node table, the node id field, the edge end '
                  'points and the terminal list; rename_edge_id writes the edge table, the edge id field and the edge '
                  'lists of the nodes; flip writes the direction-bearing fields of nodes, edges and the terminal '
                  'list (may-write sets from the effects engine must contain these location kinds); loops over '
                  '`direction` cover {0, 1}; wherever a node is addressed through edge.nids[D] and an edge list '
                  'through eids[D\'], D + D\' = 1.')
    need = {
        'opgraph.OpGraph.rename_node_id': {'self.nodes': ('pop', 'store'), 'self.nodes[*]': ('store .nid',),
                                           'self.edges[*].nids': ('store',), 'self.nid_terminal': ('store',)},
        'opgraph.OpGraph.rename_edge_id': {'self.edges': ('pop', 'store'), 'self.edges[*]': ('store .eid',),
                                           'self.nodes[*].eids[*]': ('.remove', '.append')},
        'opgraph.OpGraph.flip': {'self.nodes[*]': ('store .eids',), 'self.edges[*].nids': ('.reverse',),
                                 'self.nid_terminal': ('.reverse',)},
    }
    n = 0
    for q, locs in need.items():
        fi = repo.func(q)
        res = eng.analyse(fi)
        got = {}
        for l, sites in res['writes'].items():
            if l.is_param():
                got.setdefault(l.describe(), set()).update(sites)
        for locname, kinds in locs.items():
            sites = got.get(locname, set())
            for k in kinds:
                ok = any(k in s for s in sites)
                chk.ob(rid, where(repo, fi, fi.node), f'{fi.name} updates {locname} ({k})', ok,
                       '' if ok else f'no `{k}` write to {locname}; writes seen: {sorted(got)[:8]}',
                       key=f'{rid}|{q}|{locname}|{k}')
                n += 1
    # loops over direction cover both directions
    mod = repo.modules['opgraph']
    for fi in repo.funcs.values():
        if fi.module != 'opgraph':
            continue
        for node in ast.walk(fi.node):
            if isinstance(node, ast.For) and isinstance(node.target, ast.Name) and node.target.id == 'direction':
                vals = None
                if isinstance(node.iter, (ast.Tuple, ast.List)):
                    vals = sorted(ts.literal_int(x) for x in node.iter.elts if ts.literal_int(x) is not None)
                ok = vals == [0, 1] and len(node.iter.elts) == 2
                if not ok and norm(node.iter) == 'range(2)':
                    ok = True
                if not ok and isinstance(node.iter, ast.Call) and norm(node.iter.func) == 'range' and len(node.iter.args) == 1 and \
                        norm(node.iter.args[0]).startswith('len(') and norm(node.iter.args[0]).endswith('.nids)'):
                    # one pass per end point of an edge: the edge constructor admits exactly two node ids
                    ctor = repo.func('opgraph.OpGraphEdge.__init__')
                    ok = any(isinstance(t, ast.If) and norm(t.test) in ('len(nids) != 2', 'not len(nids) == 2') and
                             any(isinstance(x, ast.Raise) for x in t.body) for t in ast.walk(ctor.node))
                chk.ob(rid, where(repo, fi, node), f'{fi.name}: loop over `direction` covers (0, 1)', ok,
                       norm(node.iter), key=f'{rid}|{fi.qual}|dirloop|{norm(node.iter)}|{node.lineno - fi.node.lineno}')
                n += 1
    # direction complementarity
    n += complementarity(chk, repo, rid)
    chk.floor(rid, n, 30)


EID_METHODS = {'add_edge_id': 1, 'remove_edge_id': 1, 'rename_edge_id': 2}


def complementarity(chk, repo, rid):
    n = 0
    for fi in repo.funcs.values():
        if fi.module not in ('opgraph', 'mpo'):
            continue
        defs = local_defs(fi.node)
        for call in ast.walk(fi.node):
            if not (isinstance(call, ast.Call) and isinstance(call.func, ast.Attribute) and
                    call.func.attr in EID_METHODS):
                continue
            pos = EID_METHODS[call.func.attr]
            if len(call.args) <= pos:
                continue
            dprime = dir_affine(call.args[pos])
            recv = call.func.value
            # receiver: self.nodes[E.nids[D]] directly or through a local definition
            if isinstance(recv, ast.Name) and recv.id in defs:
                recv = defs[recv.id]
            dd = None
            if isinstance(recv, ast.Subscript) and norm(recv.value).endswith('.nodes'):
                k = recv.slice
                if isinstance(k, ast.Subscript) and isinstance(k.value, ast.Attribute) and k.value.attr == 'nids':
                    dd = dir_affine(k.slice)
                elif isinstance(k, ast.Attribute) and k.attr == 'nidl':
                    dd = Affine.const(0)     # half-chain / U node: id of the left-connected node = nids[0]
            if dd is None or dprime is None:
                continue
            ok = (dd + dprime) == Affine.const(1)
            chk.ob(rid, where(repo, fi, call), f'{fi.name}: node at nids[{dd}] registers the edge in eids[{dprime}]',
                   ok, f'`{norm(call)[:90]}`: D + D\' = {dd + dprime}', key=f'{rid}|{fi.qual}|compl|{norm(call)[:120]}')
            n += 1
        # for eid in N.eids[D']: edge = <graph>.edges[eid] ... edge.nids[D] compared/assigned
        for loop in ast.walk(fi.node):
            if not (isinstance(loop, ast.For) and isinstance(loop.target, ast.Name)):
                continue
            it = loop.iter
            if isinstance(it, ast.Name) and it.id in defs:
                it = defs[it.id]
            if not (isinstance(it, ast.Subscript) and isinstance(it.value, ast.Attribute) and it.value.attr == 'eids'):
                continue
            dprime = dir_affine(it.slice)
            if dprime is None:
                continue
            evar = loop.target.id
            edge_names = set()
            for s in ast.walk(loop):
                if isinstance(s, ast.Assign) and len(s.targets) == 1 and isinstance(s.targets[0], ast.Name) and \
                        isinstance(s.value, ast.Subscript) and norm(s.value.value).endswith('.edges') and \
                        norm(s.value.slice) == evar:
                    edge_names.add(s.targets[0].id)
            for s in ast.walk(loop):
                tests = []
                if isinstance(s, ast.Assert) and isinstance(s.test, ast.Compare):
                    tests.append((s.test.left, s))
                if isinstance(s, ast.Assign) and len(s.targets) == 1:
                    tests.append((s.targets[0], s))
                if isinstance(s, ast.If) and isinstance(s.test, ast.Compare) and fi.name == 'is_consistent':
                    tests.append((s.test.left, s))
                for t, stmt in tests:
                    if isinstance(t, ast.Subscript) and isinstance(t.value, ast.Attribute) and t.value.attr == 'nids' \
                            and ((isinstance(t.value.value, ast.Name) and t.value.value.id in edge_names) or
                                 (isinstance(t.value.value, ast.Subscript) and
                                  norm(t.value.value.value).endswith('.edges') and
                                  norm(t.value.value.slice) == evar)):
                        dd = dir_affine(t.slice)
                        if dd is None:
                            continue
                        ok = (dd + dprime) == Affine.const(1)
                        chk.ob(rid, where(repo, fi, stmt),
                               f'{fi.name}: edges listed in eids[{dprime}] refer back through nids[{dd}]', ok,
                               f'`{norm(stmt)[:80]}`', key=f'{rid}|{fi.qual}|compl-loop|{norm(stmt)[:100]}')
                        n += 1
    return n


# ---------------------------------------------------------------------------------------
GROWERS = {'opgraph.OpGraph.add_node', 'opgraph.OpGraph.add_edge', 'opgraph.OpGraph.add_connect_edge',
           'opgraph.OpGraphNode.__init__', 'opgraph.OpGraphEdge.__init__'}
GROW_KINDS = ('subscript store', '.update', '.setdefault')


def growth_report(eng, repo, q):
    fi = repo.func(q)
    res = eng.analyse(fi)
    called = set(eng.called) & GROWERS
    grow_writes = []
    for l, sites in res['writes'].items():
        if l.is_param() and l.describe() in ('self.nodes', 'self.edges'):
            for s in sites:
                if any(k in s for k in GROW_KINDS):
                    grow_writes.append(f'{l.describe()}: {s}')
    return fi, res, called, grow_writes


def rule_R3(chk, repo, eng):
    rid = 'C16.R3'
    chk.rule(rid, 'no growth: nothing reachable from OpGraph.simplify (callees resolved by the effects engine) '
                  'constructs a node or an edge, calls add_node/add_edge/add_connect_edge, or stores a new key into '
                  'the node or edge table (only pop/remove are allowed); simplify returns self.  Built-in positive '
                  'example: OpGraph.add does reach them.')
    for q in ('opgraph.OpGraph.simplify', 'opgraph.OpGraph._simplify_step', 'opgraph.OpGraph.merge_edges'):
        fi, res, called, grow = growth_report(eng, repo, q)
        chk.ob(rid, where(repo, fi, fi.node), f'{fi.name} reaches no node/edge constructor or add_* method',
               not called, f'reaches {sorted(called)}', key=f'{rid}|{q}|callees')
        chk.ob(rid, where(repo, fi, fi.node), f'{fi.name} stores no new key into self.nodes / self.edges',
               not grow, '; '.join(grow[:3]), key=f'{rid}|{q}|stores')
        if q.endswith('.simplify'):
            ret_self = all(l.is_param() and l.describe() == 'self' for l in res['ret'].locs) and res['ret'].locs
            chk.ob(rid, where(repo, fi, fi.node), 'simplify returns self (in-place, chaining)', bool(ret_self),
                   f'{res["ret"]}', key=f'{rid}|{q}|returns-self')
            removed = any(l.describe() in ('self.nodes', 'self.edges') and any('.pop' in s for s in sites)
                          for l, sites in res['writes'].items() if l.is_param())
            if not removed:
                raise AnalysisError('effects engine lost track: simplify removes nothing')
    fi, res, called, grow = growth_report(eng, repo, 'opgraph.OpGraph.add')
    if not grow:
        raise AnalysisError('positive example failed: OpGraph.add is expected to grow the tables')
    chk.notes['positive_example_growth'] = f'OpGraph.add grows: {grow[:2]}'
    chk.floor(rid, 7, 7)


def _tuple_loop_versions(fn):
    """`for (a, b, ..) in ((x1, y1, ..), (x2, y2, ..)): body` over a literal tuple of tuples: one copy of the function
    per element with the loop replaced by its body under that binding (other loops untouched)"""
    import copy
    for l in ast.walk(fn):
        if isinstance(l, ast.For) and isinstance(l.target, ast.Tuple) and isinstance(l.iter, (ast.Tuple, ast.List)) and \
                l.iter.elts and all(isinstance(e, (ast.Tuple, ast.List)) and len(e.elts) == len(l.target.elts)
                                    for e in l.iter.elts) and all(isinstance(t, ast.Name) for t in l.target.elts):
            out = []
            for k in range(len(l.iter.elts)):
                f2 = copy.deepcopy(fn)
                l2 = [x for x in ast.walk(f2) if isinstance(x, ast.For) and x.lineno == l.lineno and
                      x.col_offset == l.col_offset and norm(x.iter) == norm(l.iter)][0]
                bind = {t.id: e for t, e in zip(l2.target.elts, l2.iter.elts[k].elts)}

                class Sub(ast.NodeTransformer):
                    def visit_Name(self, node):
                        if isinstance(node.ctx, ast.Load) and node.id in bind:
                            return copy.deepcopy(bind[node.id])
                        return node
                body = [Sub().visit(b) for b in l2.body]
                for parent in ast.walk(f2):
                    for fld in ('body', 'orelse', 'finalbody'):
                        lst = getattr(parent, fld, None)
                        if isinstance(lst, list) and l2 in lst:
                            j = lst.index(l2)
                            lst[j:j + 1] = body
                ast.fix_missing_locations(f2)
                out += _tuple_loop_versions(f2)
            return out
    return [fn]


def rule_R4(chk, repo, eng):
    rid = 'C16.R4'
    chk.rule(rid, 'OpGraph.add never writes `other` (the deep copy dominates every rename) and takes fresh node and '
                  'edge ids above the maximum id of BOTH graphs; terminal nodes of the copy are identified with the '
                  'terminals of self in both directions.')
    fi = repo.func('opgraph.OpGraph.add')
    res = eng.analyse(fi)
    bad = [(l.describe(), sorted(s)[0]) for l, s in res['writes'].items() if l.is_param() and l.root[1] == 'other']
    chk.ob(rid, where(repo, fi, fi.node), 'add may write only self', not bad,
           '; '.join(f'{d} at {s}' for d, s in bad[:3]), key=f'{rid}|writes-other')
    n = 1
    # fresh ids: the second argument of every rename call (other than the identification of the terminals) is followed
    # through the local definitions to the max(...) + 1 it starts from; that maximum must range over both graphs.
    # A loop over a literal tuple of tuples (one body for the node table and the edge table) is analysed per binding.
    seen = {}
    for ver in _tuple_loop_versions(fi.node):
        defs = {}
        for s_ in ast.walk(ver):
            if isinstance(s_, ast.Assign) and len(s_.targets) == 1 and isinstance(s_.targets[0], ast.Name):
                defs.setdefault(s_.targets[0].id, []).append(s_.value)
        for c in ast.walk(ver):
            if not (isinstance(c, ast.Call) and isinstance(c.func, ast.Attribute) and
                    c.func.attr in ('rename_node_id', 'rename_edge_id') and len(c.args) == 2):
                continue
            if 'nid_terminal' in norm(c.args[1]):
                continue
            src = c.args[1]
            if isinstance(src, ast.Name) and len(defs.get(src.id, [])) == 1 and 'nid_terminal' in norm(defs[src.id][0]):
                continue
            table = 'nodes' if c.func.attr == 'rename_node_id' else 'edges'
            todo, done, maxes = [c.args[1]], set(), []
            while todo:
                e = todo.pop()
                for x in ast.walk(e):
                    if isinstance(x, ast.BinOp) and isinstance(x.op, ast.Add) and isinstance(x.left, ast.Call) and \
                            norm(x.left.func) == 'max' and isinstance(x.right, ast.Constant) and x.right.value == 1:
                        maxes.append(x)
                    if isinstance(x, ast.BinOp) and isinstance(x.op, ast.Add) and isinstance(x.right, ast.Call) and \
                            norm(x.right.func) == 'max' and isinstance(x.left, ast.Constant) and x.left.value == 1:
                        maxes.append(x)         # 1 + max(...)
                    if isinstance(x, ast.Name) and x.id not in done:
                        done.add(x.id)
                        todo += defs.get(x.id, [])
            txt = ' | '.join(norm(m) for m in maxes)
            ok = bool(maxes) and all(f'self.{table}' in norm(m) and f'other.{table}' in norm(m) for m in maxes)
            prev = seen.get(table)
            seen[table] = (c, (prev[1] if prev else True) and ok, txt or f'no max(...) + 1 reaches `{norm(c.args[1])}`')
    for table, (c, ok, txt) in sorted(seen.items()):
        chk.ob(rid, where(repo, fi, c), f'new {table[:-1]} ids are taken above the maximum of both graphs', ok,
               f'`{txt}`', key=f'{rid}|alloc|{table}')
        n += 1
    if set(seen) != {'nodes', 'edges'}:
        raise AnalysisError(f'OpGraph.add: the renaming of shared node and edge ids was not found (found {sorted(seen)})')
    # shared ids are renamed before the tables are merged
    upd = [s for s in ast.walk(fi.node) if isinstance(s, ast.Call) and isinstance(s.func, ast.Attribute)
           and s.func.attr == 'update' and norm(s.func.value) in ('self.nodes', 'self.edges')]
    ren = [s for s in ast.walk(fi.node) if isinstance(s, ast.Call) and ts.callee_name(s) in ts.RENAMERS]
    ok = bool(upd) and bool(ren) and max(r.lineno for r in ren) < min(u.lineno for u in upd)
    chk.ob(rid, where(repo, fi, fi.node), 'ids are made disjoint before the tables are merged', ok, '',
           key=f'{rid}|order')
    n += 1
    chk.floor(rid, n, 4)


def rule_R5(chk, repo):
    rid = 'C16.R5'
    chk.rule(rid, 'parallel-edge merge adds the operators: merge_edges calls edge1.add(edge2) on the equal-upstream path and '
                  'OpGraphEdge.add keeps one entry per operator id with the summed coefficient, sorted; the node-fusing path '
                  'redirects every edge of the removed node and appends its edge list to the kept node')
    from ..match import find, pmatch
    merge = repo.func('opgraph.OpGraph.merge_edges')
    par = [s for s in merge.node.body if isinstance(s, ast.If) and s.body and isinstance(s.body[-1], ast.Return)]
    ok = False
    if par:
        calls = [c for x in par[0].body for c in ast.walk(x) if isinstance(c, ast.Call)]
        e1 = [k for k, v in local_defs(merge.node, keep_ctor_calls=True).items() if norm(v) == f'self.edges[{merge.params[1]}]']
        e2 = [k for k, v in local_defs(merge.node, keep_ctor_calls=True).items()
              if norm(v) in (f'self.edges.pop({merge.params[2]})', f'self.edges[{merge.params[2]}]')]
        ok = bool(e1) and bool(e2) and any(pmatch(f'{e1[0]}.add({e2[0]})', c) is not None for c in calls)
    chk.ob(rid, where(repo, merge, par[0] if par else merge.node), 'merge_edges: parallel edges are merged by adding the operators '
           'of the removed edge to the kept edge', ok, '', key=f'{rid}|parallel-add')
    fi = repo.func('opgraph.OpGraphEdge.add')
    hits = find('__L.append((__i, __c + __d))', fi.node)
    keep = find('__L.append((__i, __c))', fi.node)
    srt = [s for s in ast.walk(fi.node) if isinstance(s, ast.Assign) and norm(s.targets[0]) == 'self.opics' and
           norm(s.value) == 'sorted(self.opics)']
    src = [l for l in ast.walk(fi.node) if isinstance(l, ast.For) and norm(l.iter) == 'other.opics']
    chk.ob(rid, where(repo, fi, fi.node), 'OpGraphEdge.add: every operator of the other edge is either added to the matching '
           'entry (coefficients summed) or appended; the list stays sorted', len(hits) == 1 and len(keep) >= 1 and len(srt) == 1
           and len(src) == 1, '', key=f'{rid}|edge-add')
    # node fusing path: redirect + append
    D_ = merge.params[3]
    ld = local_defs(merge.node, keep_ctor_calls=True)
    e1n = [k for k, v in ld.items() if norm(v) == f'self.edges[{merge.params[1]}]']
    e2n = [k for k, v in ld.items() if norm(v) in (f'self.edges.pop({merge.params[2]})', f'self.edges[{merge.params[2]}]')]
    n1 = [k for k, v in ld.items() if e1n and norm(v) == f'self.nodes[{e1n[0]}.nids[1 - {D_}]]']
    n2 = [k for k, v in ld.items() if e2n and norm(v) in (f'self.nodes.pop({e2n[0]}.nids[1 - {D_}])',
                                                           f'self.nodes[{e2n[0]}.nids[1 - {D_}]]')]
    N1 = n1[0] if n1 else 'node1'
    N2 = n2[0] if n2 else 'node2'
    redir = [s for s in ast.walk(merge.node) if isinstance(s, ast.Assign) and
             pmatch(f'self.edges[__e].nids[{D_}]', s.targets[0]) is not None and norm(s.value) == f'{N1}.nid']
    loop = [l for l in ast.walk(merge.node) if isinstance(l, ast.For) and norm(l.iter) == f'{N2}.eids[1 - {D_}]']
    defs = local_defs(merge.node, keep_ctor_calls=True)
    app = [s for s in ast.walk(merge.node) if isinstance(s, ast.AugAssign) and isinstance(s.op, ast.Add) and
           norm(s.value) == f'{N2}.eids[1 - {D_}]']
    okapp = False
    if len(app) == 1 and isinstance(app[0].target, ast.Name):
        d_ = [x for x in ast.walk(merge.node) if isinstance(x, ast.Assign) and norm(x.targets[0]) == app[0].target.id]
        okapp = len(d_) == 1 and norm(d_[0].value) == f'{N1}.eids[1 - {D_}]'
    elif len(app) == 1:
        okapp = norm(app[0].target) == f'{N1}.eids[1 - {D_}]'
    chk.ob(rid, where(repo, merge, merge.node), 'merge_edges: every edge leaving the removed node is redirected to the kept node '
           'and listed there', len(redir) == 1 and len(loop) == 1 and okapp, '', key=f'{rid}|fuse')
    chk.floor(rid, 3, 3)


def _dict_accumulation(fi, loops):
    """The dict idiom of the coefficient sum: `D = {} | dict(self.opics)`, one loop over the incoming pairs whose body is
    straight-line code with membership tests, and `self.opics = sorted(D.items())`.  The body is executed symbolically for
    one pair (i, c) from both abstract pre-states (id absent / present with value d); afterwards D[i] must be c resp. c + d.
    Returns (ok, detail, node), or None if the function does not use the idiom."""
    from collections import Counter
    fin = [s for s in fi.node.body if isinstance(s, ast.Assign) and norm(s.targets[0]) == 'self.opics' and
           isinstance(s.value, ast.Call) and norm(s.value.func) == 'sorted' and len(s.value.args) == 1 and
           isinstance(s.value.args[0], ast.Call) and isinstance(s.value.args[0].func, ast.Attribute) and
           s.value.args[0].func.attr == 'items' and isinstance(s.value.args[0].func.value, ast.Name)]
    if len(fin) != 1 or len(loops) != 1:
        return None
    D = fin[0].value.args[0].func.value.id
    loop = loops[0]
    init = [s for s in fi.node.body if isinstance(s, ast.Assign) and norm(s.targets[0]) == D and _before(fi.node, s, loop)]
    if len(init) != 1 or norm(init[0].value) not in ('{}', 'dict()', 'dict(self.opics)'):
        return None
    if not (isinstance(loop.target, ast.Tuple) and len(loop.target.elts) == 2 and all(isinstance(x, ast.Name) for x in loop.target.elts)):
        return None
    I, C = (x.id for x in loop.target.elts)

    class Unknown(Exception):
        pass

    def run(present):
        st = {'present': present, 'val': Counter({'d': 1}) if present else None}
        env = {C: Counter({'c': 1})}

        def is_key(e):
            return isinstance(e, ast.Name) and e.id == I

        def ev(e):
            if isinstance(e, ast.Constant) and e.value in (0, 0.0):
                return Counter()
            if isinstance(e, ast.Name):
                if e.id in env:
                    return Counter(env[e.id])
                raise Unknown(norm(e))
            if isinstance(e, ast.BinOp) and isinstance(e.op, ast.Add):
                return ev(e.left) + ev(e.right)
            if isinstance(e, ast.Subscript) and isinstance(e.value, ast.Name) and e.value.id == D and is_key(e.slice):
                if not st['present']:
                    raise Unknown('read of an absent key')
                return Counter(st['val'])
            if isinstance(e, ast.Call) and isinstance(e.func, ast.Attribute) and isinstance(e.func.value, ast.Name) and \
                    e.func.value.id == D and e.args and is_key(e.args[0]):
                if e.func.attr == 'get' and len(e.args) == 2:
                    return Counter(st['val']) if st['present'] else ev(e.args[1])
                if e.func.attr == 'pop':
                    if st['present']:
                        v = Counter(st['val'])
                        st['present'], st['val'] = False, None
                        return v
                    if len(e.args) == 2:
                        return ev(e.args[1])
                    raise Unknown('pop of an absent key')
            raise Unknown(norm(e)[:50])

        def test(t):
            if isinstance(t, ast.UnaryOp) and isinstance(t.op, ast.Not):
                return not test(t.operand)
            if isinstance(t, ast.Compare) and len(t.ops) == 1 and is_key(t.left) and norm(t.comparators[0]) == D:
                if isinstance(t.ops[0], ast.In):
                    return st['present']
                if isinstance(t.ops[0], ast.NotIn):
                    return not st['present']
            raise Unknown(norm(t)[:50])

        def block(stmts):
            for s_ in stmts:
                if isinstance(s_, ast.Expr) and isinstance(s_.value, ast.Constant):
                    continue
                if isinstance(s_, ast.Assert):
                    continue
                if isinstance(s_, ast.If):
                    block(s_.body if test(s_.test) else s_.orelse)
                elif isinstance(s_, ast.Assign) and len(s_.targets) == 1 and isinstance(s_.targets[0], ast.Name):
                    env[s_.targets[0].id] = ev(s_.value)
                elif isinstance(s_, ast.AugAssign) and isinstance(s_.op, ast.Add) and isinstance(s_.target, ast.Name):
                    env[s_.target.id] = ev(ast.Name(s_.target.id, ast.Load())) + ev(s_.value)
                elif isinstance(s_, ast.Assign) and len(s_.targets) == 1 and isinstance(s_.targets[0], ast.Subscript) and \
                        isinstance(s_.targets[0].value, ast.Name) and s_.targets[0].value.id == D and is_key(s_.targets[0].slice):
                    v = ev(s_.value)
                    st['present'], st['val'] = True, v
                elif isinstance(s_, ast.AugAssign) and isinstance(s_.op, ast.Add) and isinstance(s_.target, ast.Subscript) and \
                        isinstance(s_.target.value, ast.Name) and s_.target.value.id == D and is_key(s_.target.slice):
                    if not st['present']:
                        raise Unknown('+= on an absent key')
                    st['val'] = st['val'] + ev(s_.value)
                elif isinstance(s_, ast.Expr) and isinstance(s_.value, ast.Call):
                    c_ = s_.value
                    if isinstance(c_.func, ast.Attribute) and norm(c_.func.value) == D and c_.func.attr == 'setdefault' and \
                            len(c_.args) == 2 and is_key(c_.args[0]):
                        if not st['present']:
                            st['present'], st['val'] = True, ev(c_.args[1])
                    else:
                        ev(c_)
                else:
                    raise Unknown(norm(s_)[:50])
        block(loop.body)
        return st
    try:
        a, b = run(False), run(True)
    except Unknown as ex:
        raise AnalysisError(f'OpGraphEdge.{fi.name}: dict accumulation with a step outside the recognised vocabulary: {ex}')
    ok_a = a['present'] and a['val'] == Counter({'c': 1})
    ok_b = b['present'] and b['val'] == Counter({'c': 1, 'd': 1})
    show = lambda st: ' + '.join(sorted(st['val'].elements())) if st['present'] and st['val'] else ('nothing' if not st['present'] else '0')
    det = '' if ok_a and ok_b else f'new id: stored {show(a)} (expected c); id present with d: stored {show(b)} (expected c + d)'
    # the receiver's own entries must be the start of the accumulation when the function adds to an existing edge
    if fi.name == 'add' and norm(init[0].value) != 'dict(self.opics)':
        return False, 'the accumulation does not start from the entries the edge already has', init[0]
    return ok_a and ok_b, det, loop


def rule_R6(chk, repo, rid='C16.R6', q='opgraph.OpGraphEdge.add', declare=True):
    """OpGraphEdge.add is the sum of two coefficient maps: per incoming pair (i, c) the coefficient c enters the list of
    the receiving edge exactly once on every path (added to the entry with the same operator id, or appended).  The
    constructor (q = OpGraphEdge.__init__) does the same with the pairs it is given."""
    fi = repo.func(q)
    what = 'OpGraphEdge.add' if fi.name == 'add' else f'OpGraphEdge.{fi.name}'
    if declare:
      chk.rule(rid, f'edge addition is a sum of coefficient maps: inside {what}, on every path through one iteration '
                  'of the loop over the incoming (id, coefficient) pairs the coefficient enters the receiving list '
                  'exactly once (path-partitioned counting through the search loop, its break and its else clause); a match '
                  'removes the old entry before the sum is re-inserted; the matching test compares operator ids')
    other = fi.params[1]
    srcs = (f'{other}.opics',) if fi.name == 'add' else tuple(p for p in fi.params if 'opic' in p) or (fi.params[-1],)
    loops = [s for s in fi.node.body if isinstance(s, ast.For) and norm(s.iter) in srcs]
    dres = _dict_accumulation(fi, loops)
    if dres is not None:
        ok, det, node = dres
        chk.ob(rid, where(repo, fi, node), f'{what}: every incoming (id, coefficient) pair adds its coefficient to what is stored under '
               f'the same id - both when the id is new and when it is already present - and the result is the sorted list of the '
               f'accumulated pairs', ok, det, key=f'{rid}|{fi.name}|dict-accumulation')
        return 1
    if len(loops) != 1 or not (isinstance(loops[0].target, ast.Tuple) and len(loops[0].target.elts) == 2 and
                               all(isinstance(x, ast.Name) for x in loops[0].target.elts)):
        # a read-modify-write of the accumulator through a comprehension: `acc.update([(i, acc.get(i, 0) + c) for i, c in
        # pairs])` evaluates every lookup before the first update - a repeated id keeps only its last coefficient
        for c in ast.walk(fi.node):
            if isinstance(c, ast.Call) and isinstance(c.func, ast.Attribute) and c.func.attr == 'update' and c.args and \
                    isinstance(c.func.value, ast.Name):
                acc = c.func.value.id
                for comp in ast.walk(c.args[0]):
                    if isinstance(comp, (ast.ListComp, ast.GeneratorExp, ast.DictComp, ast.SetComp)) and \
                            any(norm(g.iter) in srcs for g in comp.generators) and \
                            any(isinstance(n_, ast.Name) and n_.id == acc and isinstance(n_.ctx, ast.Load)
                                for part in ([comp.elt] if not isinstance(comp, ast.DictComp) else [comp.key, comp.value])
                                for n_ in ast.walk(part)):
                        chk.ob(rid, where(repo, fi, c), f'{what}: the incoming pairs are accumulated one at a time (each lookup '
                               f'sees the updates made for the pairs before it)', False,
                               f'`{norm(c)[:90]}`: every `{acc}` lookup is evaluated before the first update; a repeated '
                               f'operator id keeps only its last coefficient', key=f'{rid}|{q}|stale-read')
                        return 1
        raise AnalysisError(f'{what}: loop `for i, c in {srcs[0]}` not found')
    loop = loops[0]
    oid, coeff = (x.id for x in loop.target.elts)

    def is_sink(call):
        return isinstance(call.func, ast.Attribute) and call.func.attr in ('append', 'insert', 'extend') and \
            norm(call.func.value) == 'self.opics' and any(isinstance(n, ast.Name) and n.id == coeff
                                                          for a in call.args for n in ast.walk(a))

    class Body:
        pass
    body = Body()
    body.node = ast.FunctionDef(name='body', args=fi.node.args, body=loop.body, decorator_list=[], lineno=loop.lineno)
    body.node.end_lineno = loop.end_lineno
    results, nraise = ts.check_exactly_once(body, is_sink)
    if not results:
        raise AnalysisError(f'{what}: no path through the loop body')
    n = 0
    for r in results:
        chk.ob(rid, where(repo, fi, loop), f'{what}: path ending at line {r["line"]} under {r["facts"] or "no facts"} '
               f'inserts the incoming coefficient exactly once', r['lo'] == 1 and r['hi'] == 1,
               f'between {r["lo"]} and {r["hi"]}{"+" if r["hi"] >= 2 else ""} insertions (sites {r["sites"]})',
               key=f'{rid}|{fi.name}|path|{r["exit"]}|{"&".join(r["facts"])}|{n}')
        n += 1
    # a match removes the old entry and re-inserts the sum
    pops = [c for c in ast.walk(loop) if isinstance(c, ast.Call) and isinstance(c.func, ast.Attribute) and
            c.func.attr == 'pop' and norm(c.func.value) == 'self.opics']
    sums = [c for c in ast.walk(loop) if isinstance(c, ast.Call) and is_sink(c) and
            any(isinstance(b, ast.BinOp) and isinstance(b.op, ast.Add) for a in c.args for b in ast.walk(a))]
    tests = [t for t in ast.walk(loop) if isinstance(t, ast.If)]

    def arm_of(node):
        for t in tests:
            for arm, stmts in (('body', t.body), ('orelse', t.orelse)):
                if any(node is x for s_ in stmts for x in ast.walk(s_)):
                    return (id(t), arm)
        return None
    okm = len(pops) == 1 and len(sums) == 1 and arm_of(pops[0]) is not None and arm_of(pops[0]) == arm_of(sums[0])
    chk.ob(rid, where(repo, fi, loop), f'{what}: on a match the old entry is removed and the sum of both coefficients '
           're-inserted (in the same branch)', okm, f'{len(pops)} pop(s), {len(sums)} summed insertion(s)', key=f'{rid}|{fi.name}|match')
    if tests:
        # the comparison `<stored entry>[0] == <incoming id>` - in the loop itself or in a search helper it calls
        def id_compare(root, idname):
            for t_ in ast.walk(root):
                if isinstance(t_, ast.Compare) and len(t_.ops) == 1 and isinstance(t_.ops[0], ast.Eq):
                    sides = (norm(t_.left), norm(t_.comparators[0]))
                    if idname in sides and any(x.endswith('[0]') for x in sides):
                        return t_
            return None
        found = id_compare(loop, oid)
        if found is None:
            for c in ast.walk(loop):
                if isinstance(c, ast.Call) and isinstance(c.func, ast.Name):
                    r_ = repo.resolve_name(fi.module, c.func.id)
                    if r_ and r_[0] == 'func':
                        for k_, a_ in enumerate(c.args):
                            if isinstance(a_, ast.Name) and a_.id == oid and k_ < len(r_[1].params):
                                found = found or id_compare(r_[1].node, r_[1].params[k_])
        chk.ob(rid, where(repo, fi, tests[0]), f'{what}: the match compares the stored operator id with `{oid}`',
               found is not None, norm(tests[0].test), key=f'{rid}|{fi.name}|test')
        n += 1
    return n + 1


def run(chk, repo, tier):
    eng = Engine(repo)
    rule_R5(chk, repo)
    rule_R1(chk, repo)
    rule_R2(chk, repo, eng)
    rule_R3(chk, repo, eng)
    rule_R4(chk, repo, eng)
    rule_R6(chk, repo)
    from . import support
    support.graph_table_rules(chk, repo, 'C16.R7', ('OpGraph',))
    for a in sorted(eng.assumed):
        chk.assume(a)
    chk.undecided += ['denotational equality of the graph before and after a rewrite',
                      'collision handling in add beyond "fresh ids above the maximum of both graphs"']
    chk.trust('effects engine call resolution (sa/effects.py) for the reachability rules')
    return ('Static rules over opgraph.py: dominating-guard sets of the merge calls compared with the fusion '
            'conditions and the callee asserts (definitions expanded to access paths); may-write sets of '
            'rename/flip must cover every id-bearing location kind; direction complementarity eids[d] <-> nids[1-d] '
            'at every site; nothing reachable from simplify can grow the graph; add never writes the other graph.',
            'instances = guard/assert pairs, (function, location kind) pairs, direction loops, complementarity '
            'sites, reachability facts; distinct = distinct keys')
