#!/usr/bin/env python3
"""Confirm a seeded change and run the checks against it.

  tools/seedcheck.py <dir with patch.diff + demo.py> [--props C01,C02,...] [--no-suite]

Creates a scratch worktree of /repo under /tmp, runs the demo without the patch (must exit 0), applies the patch,
byte-compiles, runs the demo (must exit non-zero) and the pinned test suite (must pass), then runs every claimed check
with SA_REPO_ROOT pointing at the patched worktree and prints which properties report a violation.  The worktree is
removed at the end.  Nothing is applied to /repo itself.
"""
import json
import os
import shutil
import subprocess
import sys
import tempfile

VERIF = os.path.dirname(os.path.dirname(os.path.abspath(__file__)))
PY = '/venv/bin/python'


def sh(cmd, cwd=None, env=None, timeout=1800):
    r = subprocess.run(cmd, cwd=cwd, env=env, capture_output=True, text=True, timeout=timeout)
    return r.returncode, (r.stdout + r.stderr)


def main():
    args = sys.argv[1:]
    d = os.path.abspath(args[0])
    props = None
    suite = '--no-suite' not in args
    for a in args[1:]:
        if a.startswith('--props'):
            props = a.split('=', 1)[1].split(',')
    patch = os.path.join(d, 'patch.diff')
    demo = os.path.join(d, 'demo.py')
    wt = tempfile.mkdtemp(prefix='seedcheck_')
    os.rmdir(wt)
    out = {'dir': d}
    try:
        rc, o = sh(['git', '-C', '/repo', 'worktree', 'add', '--detach', wt, 'HEAD'])
        if rc != 0:
            print(o)
            return 2
        env = dict(os.environ, PYTHONPATH=wt, PYTHONDONTWRITEBYTECODE='1')
        rc0, o0 = sh([PY, demo], cwd=wt, env=env)
        out['demo_without'] = rc0
        rc, o = sh(['git', '-C', wt, 'apply', patch])
        if rc != 0:
            out['apply'] = o[-400:]
            print(json.dumps(out, indent=1))
            return 2
        rc, o = sh([PY, '-m', 'compileall', '-q', os.path.join(wt, 'pytenet')], env=env)
        out['compiles'] = rc == 0
        rc1, o1 = sh([PY, demo], cwd=wt, env=env)
        out['demo_with'] = rc1
        out['demo_with_tail'] = o1.strip().splitlines()[-3:]
        if suite:
            rc, o = sh([PY, '-m', 'pytest', '-q', '-p', 'no:cacheprovider', '--timeout=900', '-x'], cwd=wt, env=env)
            out['suite_rc'] = rc
            out['suite_tail'] = o.strip().splitlines()[-1:]
        # the checks
        man = json.load(open(os.path.join(VERIF, 'MANIFEST.json')))
        claimed = [c['property_id'] for c in man['checks']]
        evd = tempfile.mkdtemp(prefix='seedcheck_ev_')
        env2 = dict(os.environ, SA_REPO_ROOT=wt, SA_EVIDENCE_DIR=evd)
        res = {}
        for pid in (props or claimed):
            rc, o = sh([os.path.join(VERIF, 'check'), pid], env=env2)
            first = [l.strip() for l in o.splitlines() if l.strip().startswith('violated') or 'ANALYSIS-ERROR' in l][:2]
            res[pid] = {'exit': rc, 'first': [f[:260] for f in first]}
        out['checks'] = {p: r['exit'] for p, r in res.items()}
        out['reports'] = {p: r['first'] for p, r in res.items() if r['exit'] != 0}
        # restore evidence of the real tree (the runs above rewrote evidence files for the scratch tree)
        shutil.rmtree(evd, ignore_errors=True)
        print(json.dumps(out, indent=1))
        return 0
    finally:
        sh(['git', '-C', '/repo', 'worktree', 'remove', '--force', wt])
        shutil.rmtree(wt, ignore_errors=True)
        sh(['git', '-C', '/repo', 'worktree', 'prune'])


if __name__ == '__main__':
    sys.exit(main())
