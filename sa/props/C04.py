"""C04 - inner products, expectation values, environment blocks (structural part)."""
import ast
from ..defuse import before as _before

from ..loader import norm, AnalysisError
from .. import legs as lg
from ..legs import LegError, LegUnknown
from ..legs_interp import LegInterp, ranks_from_asserts
from ..match import pmatch
from ..defuse import local_defs, expand
from .common import where

# Reference networks, transcribed from the docstring diagrams of operation.py (independently of the code):
# open legs in output order, contracted pairs, conjugated tensors.
REF = {
    'contraction_step_right': {
        'params': ['A', 'B', 'R'],
        'open': ['A.1', 'B*.1'],
        'pairs': [('A.0', 'B*.0'), ('A.2', 'R.0'), ('B*.2', 'R.1')]},
    'contraction_step_left': {
        'params': ['A', 'B', 'L'],
        'open': ['A.2', 'B*.2'],
        'pairs': [('A.0', 'B*.0'), ('A.1', 'L.0'), ('B*.1', 'L.1')]},
    'contraction_operator_step_right': {
        'params': ['A', 'B', 'W', 'R'],
        'open': ['A.1', 'W.2', 'B*.1'],
        'pairs': [('A.0', 'W.1'), ('B*.0', 'W.0'), ('A.2', 'R.0'), ('W.3', 'R.1'), ('B*.2', 'R.2')]},
    'contraction_operator_step_left': {
        'params': ['A', 'B', 'W', 'L'],
        'open': ['A.2', 'W.3', 'B*.2'],
        'pairs': [('A.0', 'W.1'), ('B*.0', 'W.0'), ('A.1', 'L.0'), ('W.2', 'L.1'), ('B*.1', 'L.2')]},
    'contraction_operator_density_step_right': {
        'params': ['A', 'W', 'R'],
        'open': ['A.2', 'W.2'],
        'pairs': [('A.0', 'W.1'), ('A.1', 'W.0'), ('A.3', 'R.0'), ('W.3', 'R.1')]},
    'apply_local_hamiltonian': {
        'params': ['L', 'R', 'W', 'A'],
        'open': ['W.0', 'L.2', 'R.2'],
        'pairs': [('A.0', 'W.1'), ('A.1', 'L.0'), ('A.2', 'R.0'), ('W.2', 'L.1'), ('W.3', 'R.1')]},
    'apply_local_bond_contraction': {
        'params': ['L', 'R', 'C'],
        'open': ['L.2', 'R.2'],
        'pairs': [('C.0', 'L.0'), ('C.1', 'R.0'), ('L.1', 'R.1')]},
}


def kernel_value(repo, name):
    fi = repo.func('operation.' + name)
    ranks = ranks_from_asserts(fi.node)
    env = {}
    for p in fi.params:
        if p not in ranks:
            raise AnalysisError(f'{name}: rank of parameter {p} is not asserted (assert {p}.ndim == n)')
        env[p] = lg.param_tensor(p, ranks[p])
    it = LegInterp(fi, env)
    v = it.run()
    if not isinstance(v, lg.TVal):
        raise AnalysisError(f'{name}: result is not a tensor in the leg domain')
    return fi, v, env


def cpairs(pairs):
    return sorted(tuple(sorted(p)) for p in pairs)


def rule_R1(chk, repo, vals, rid='C04.R1', only=None):
    chk.rule(rid, 'each contraction kernel denotes the network documented in its docstring diagram: which legs are '
                  'contracted, which tensor is conjugated, output leg order (network normal form; the order of the '
                  'tensordot calls and intermediate transposes is irrelevant)')
    for name, ref in REF.items():
        if only is not None and name not in only:
            continue
        try:
            fi, v, env = kernel_value(repo, name)
        except LegError as ex:
            if isinstance(ex, LegUnknown):
                raise           # not understood is not a finding
            fi = repo.func('operation.' + name)
            chk.ob(rid, where(repo, fi, fi.node), f'{name}: body is a well-formed contraction', False, str(ex),
                   key=f'{rid}|{name}|wellformed')
            continue
        vals[name] = (fi, v, env)
        c = lg.canon(v)
        if fi.params != ref['params']:
            raise AnalysisError(f'{name}: parameter list changed to {fi.params}')
        opens = [x[0] if len(x) == 1 else '*'.join(x) for x in c['open']]
        w = where(repo, fi, fi.node)
        chk.ob(rid, w, f'{name}: output legs in documented order {ref["open"]}', opens == ref['open'],
               f'computed {opens}', key=f'{rid}|{name}|open')
        got = cpairs(c['pairs'])
        want = cpairs(ref['pairs'])
        miss = [p for p in want if p not in got]
        extra = [p for p in got if p not in want]
        chk.ob(rid, w, f'{name}: contracted leg pairs as documented', got == want,
               f'missing {miss}; unexpected {extra}', key=f'{rid}|{name}|pairs')
        wantc = sorted({p.split('*')[0] for pr in ref['pairs'] for p in pr if '*' in p} |
                       {p.split('*')[0] for p in ref['open'] if '*' in p})
        chk.ob(rid, w, f'{name}: conjugated tensors {wantc}', c['conj'] == wantc, f'computed {c["conj"]}',
               key=f'{rid}|{name}|conj')
    chk.floor(rid, len(vals), 7 if only is None else len(only))


def close(v, other_name, rank):
    """contract all open axes of v with a fresh tensor `other_name` (axis k with port k)"""
    o = lg.param_tensor(other_name, rank)
    return lg.tensordot(v, o, list(range(v.rank)), list(range(rank)), 'closing')


def rule_R2(chk, repo, vals, rid='C04.R2'):
    chk.rule(rid, 'sibling agreement: the left step closed with R, the right step closed with L and the local '
                  'Hamiltonian paired with conj(B) are one and the same closed network (likewise the two overlap '
                  'steps); the output legs of the local operators are the partners of the legs of their argument in '
                  'the same order; every step maps an environment to an environment with the same leg roles')
    n = 0
    need = ['contraction_operator_step_left', 'contraction_operator_step_right', 'apply_local_hamiltonian',
            'contraction_step_left', 'contraction_step_right', 'apply_local_bond_contraction']
    if not all(k in vals for k in need):
        return
    try:
        fl, vl, _ = vals['contraction_operator_step_left']
        fr, vr, _ = vals['contraction_operator_step_right']
        fh, vh, _ = vals['apply_local_hamiltonian']
        n1 = lg.closed_form(close(vl, 'R', 3))
        n2 = lg.closed_form(close(vr, 'L', 3))
        bconj = lg.conj(lg.param_tensor('B', 3))
        n3 = lg.closed_form(lg.tensordot(vh, bconj, [0, 1, 2], [0, 1, 2], 'pairing with conj(B)'))
        chk.ob(rid, where(repo, fl, fl.node), 'left operator step closed with R == right operator step closed with L',
               n1 == n2, f'differences: {sorted(set(n1) ^ set(n2))}', key=f'{rid}|op-left-right')
        chk.ob(rid, where(repo, fh, fh.node), 'local Hamiltonian paired with conj(B) == closed operator step network',
               n3 == n2, f'differences: {sorted(set(n3) ^ set(n2))}', key=f'{rid}|op-local')
        f1, v1, _ = vals['contraction_step_left']
        f2, v2, _ = vals['contraction_step_right']
        m1 = lg.closed_form(close(v1, 'R', 2))
        m2 = lg.closed_form(close(v2, 'L', 2))
        chk.ob(rid, where(repo, f1, f1.node), 'left overlap step closed with R == right overlap step closed with L',
               m1 == m2, f'differences: {sorted(set(m1) ^ set(m2))}', key=f'{rid}|overlap-left-right')
        n += 3
    except LegError as ex:
        if isinstance(ex, LegUnknown):
            raise           # not understood is not a finding
        chk.ob(rid, 'pytenet/operation.py', 'sibling networks can be closed', False, str(ex), key=f'{rid}|closing')
    # partner order
    for name, arg in (('apply_local_hamiltonian', 'A'), ('apply_local_bond_contraction', 'C'),
                      ('contraction_operator_step_right', 'R'), ('contraction_operator_step_left', 'L'),
                      ('contraction_step_right', 'R'), ('contraction_step_left', 'L')):
        fi, v, env = vals[name]
        partner = {}
        for a, b in v.net.pairs:
            partner[a] = b
            partner[b] = a
        argocc = [o for o in v.net.occs if o.name == arg][0]
        ok = True
        detail = []
        for k, leg in enumerate(sorted(argocc.legs, key=lambda l: l.port)):
            if k >= v.rank:
                ok = False
                break
            p = partner.get(leg)
            out_leg = v.axes[k][0]
            same = p is not None and p.occ is out_leg.occ
            detail.append(f'{leg}->{p}: output[{k}] = {out_leg}')
            ok = ok and same
        ok = ok and v.rank == len(argocc.legs)
        chk.ob(rid, where(repo, fi, fi.node), f'{name}: output leg k sits on the tensor contracted with {arg}.k '
               f'(the result can replace {arg})', ok, '; '.join(detail), key=f'{rid}|{name}|partners')
        n += 1
    chk.floor(rid, n, 9)


def rule_R3(chk, repo, vals):
    rid = 'C04.R3'
    chk.rule(rid, 'conventions: in every contraction that involves an MPO tensor its leg 1 meets the ket (or right '
                  'operand) and its leg 0 the bra / output; apply_operator and multiply_mpo contract W.1 with leg 0 of '
                  'the right operand')
    n = 0
    for name, (fi, v, env) in vals.items():
        if 'W' not in fi.params:
            continue
        c = lg.canon(v)
        pairs = cpairs(c['pairs'])
        ket = 'A'
        w1 = [p for p in pairs if 'W.1' in p]
        ok = len(w1) == 1 and any(x.startswith(ket + '.0') for x in w1[0])
        chk.ob(rid, where(repo, fi, fi.node), f'{name}: W.1 is contracted with the physical leg of the ket tensor', ok,
               f'{w1}', key=f'{rid}|{name}|W1')
        n += 1
    # apply_operator / multiply_mpo: the contraction of the site loop, read off the leg-domain value of the site tensor
    # (whichever of tensordot / einsum / matmul builds it)
    from . import arith
    for q, what in (('operation.apply_operator', 'op.A[i] leg 1 with psi.A[i] leg 0'),
                    ('mpo.multiply_mpo', 'op0.A[i] leg 1 with op1.A[i] leg 0')):
        fi, loop, v, err, (X, Y) = arith.product_site_value(repo, q)
        if v is None:
            chk.ob(rid, where(repo, fi, loop), f'{fi.name}: contracts {what}', False, err, key=f'{rid}|{q}|axes')
        else:
            c = lg.canon(v)
            chk.ob(rid, where(repo, fi, loop), f'{fi.name}: contracts {what}',
                   c['pairs'] == [tuple(sorted((f'{X}.1', f'{Y}.0')))] and not c['conj'], f'contracted pairs {c["pairs"]}',
                   key=f'{rid}|{q}|axes')
        n += 1
    chk.floor(rid, n, 6)


DRIVERS = {
    # driver -> (kernel, {kernel parameter: driver object whose site tensor must be passed})
    'operation.vdot': ('contraction_step_right', {'A': 'psi', 'B': 'chi'}),
    'operation.operator_average': ('contraction_operator_step_right', {'A': 'psi', 'B': 'psi', 'W': 'op'}),
    'operation.operator_inner_product': ('contraction_operator_step_right', {'A': 'psi', 'B': 'chi', 'W': 'op'}),
    'operation.operator_density_average': ('contraction_operator_density_step_right', {'A': 'rho', 'W': 'op'}),
}


def rule_R4(chk, repo):
    rid = 'C04.R4'
    chk.rule(rid, 'drivers: each driver passes, at every site i of a right-to-left sweep over all sites, the site tensor '
                  'of the documented object into the documented kernel slot (first argument of vdot / '
                  'operator_inner_product in the conjugated slot), threads the running environment through the last '
                  'slot, starts from an identity on the trailing bond and returns its single entry; norm is '
                  'sqrt(vdot(psi, psi).real)')
    n = 0
    for q, (kernel, roles) in DRIVERS.items():
        fi = repo.func(q)
        kfi = repo.func('operation.' + kernel)
        calls = [c for c in ast.walk(fi.node) if isinstance(c, ast.Call) and norm(c.func) == kernel]
        if not calls:
            # delegation: the driver returns the value of a sibling driver over the same kernel; the documented slot
            # assignment must come out of the sibling's assignment composed with the arguments of the call
            rets = [r for r in ast.walk(fi.node) if isinstance(r, ast.Return) and r.value is not None]
            live = [r for r in rets if not (isinstance(r.value, ast.Constant))]
            dc = live[0].value if len(live) == 1 else None
            g = 'operation.' + norm(dc.func) if isinstance(dc, ast.Call) and isinstance(dc.func, ast.Name) else None
            if g in DRIVERS and g != q and DRIVERS[g][0] == kernel and not dc.keywords and \
                    len(dc.args) == len(repo.func(g).params):
                bind = dict(zip(repo.func(g).params, [norm(a) for a in dc.args]))
                for p, obj in roles.items():
                    got = bind.get(DRIVERS[g][1][p])
                    chk.ob(rid, where(repo, fi, dc), f'{fi.name}: delegates to {norm(dc.func)}; slot {p} of {kernel} receives '
                           f'the tensors of {obj}', got == obj, f'`{norm(dc)}` puts `{got}` there', key=f'{rid}|{q}|{p}')
                    n += 1
                # the other obligations (threading, sweep, start, dummy bond) are those of the sibling, checked there
                n += 3 + (1 if 'operator' in kernel and 'density' not in kernel else 0)
                continue
        if len(calls) != 1:
            raise AnalysisError(f'{q}: expected exactly one call of {kernel}, found {len(calls)}')
        c = calls[0]
        loop = None
        for l in ast.walk(fi.node):
            if isinstance(l, ast.For) and any(x is c for x in ast.walk(l)):
                loop = l
        if loop is None or not isinstance(loop.target, ast.Name):
            raise AnalysisError(f'{q}: kernel call is not inside a site loop')
        iv = loop.target.id
        for p, obj in roles.items():
            k = kfi.params.index(p)
            arg = norm(c.args[k]) if k < len(c.args) else None
            ok = arg == f'{obj}.A[{iv}]'
            chk.ob(rid, where(repo, fi, c), f'{fi.name}: slot {p} of {kernel} receives {obj}.A[{iv}]', ok, f'got `{arg}`',
                   key=f'{rid}|{q}|{p}')
            n += 1
        # environment threading: last slot is the variable assigned by the call
        asg = [s for s in loop.body if isinstance(s, ast.Assign) and s.value is c]
        tvar = norm(asg[0].targets[0]) if asg else None
        ok = asg and norm(c.args[len(kfi.params) - 1]) == tvar
        chk.ob(rid, where(repo, fi, c), f'{fi.name}: the running environment is threaded through the last slot', bool(ok),
               f'target `{tvar}`, last argument `{norm(c.args[-1])}`', key=f'{rid}|{q}|thread')
        it = norm(loop.iter)
        nsites = {f'reversed(range({o}))' for o_ in ('psi', 'rho', 'chi', 'op') for o in (f'{o_}.nsites', f'len({o_}.A)')}
        from .arith import _loop_range
        rg = _loop_range(loop.iter)
        tops = {f'{o}{sfx}' for o_ in ('psi', 'rho', 'chi', 'op') for o in (f'{o_}.nsites', f'len({o_}.A)')
                for sfx in (' - 1',)} | {f'-1 + {o}' for o_ in ('psi', 'rho', 'chi', 'op') for o in (f'{o_}.nsites', f'len({o_}.A)')}
        down = rg is not None and rg[2] == -1 and str(rg[1]) == '0' and str(rg[0]) in tops
        chk.ob(rid, where(repo, fi, loop), f'{fi.name}: sweep runs right to left over all sites', it in nsites or down, it,
               key=f'{rid}|{q}|sweep')
        n += 2
        # initial environment: identity on the trailing bond dimension
        from ..defuse import inline_call
        defs = local_defs(fi.node)
        init = []
        for s in ast.walk(fi.node):
            if isinstance(s, ast.Assign) and norm(s.targets[0]) == tvar and _before(fi.node, s, loop):
                val = inline_call(s.value, repo, fi.module) or s.value
                ids = [c_ for c_ in ast.walk(val) if isinstance(c_, ast.Call) and norm(c_.func) == 'np.identity']
                if ids:
                    init.append(ids[0])
        dim0 = norm(expand(init[0].args[0], defs)) if len(init) == 1 and init[0].args else ''
        ok = len(init) == 1 and (dim0.endswith('.A[-1].shape[2]') or (dim0 == '1' and 'density' in kernel))
        chk.ob(rid, where(repo, fi, fi.node), f'{fi.name}: environment starts as the identity on the trailing bond', ok,
               norm(init[0])[:60] if init else "not found", key=f"{rid}|{q}|init")
        n += 1
        if 'operator' in kernel and 'density' not in kernel:
            rs = []
            for s in ast.walk(fi.node):
                if isinstance(s, ast.Assign) and norm(s.targets[0]) == tvar and _before(fi.node, s, loop):
                    val = inline_call(s.value, repo, fi.module) or s.value
                    rs += [c_ for c_ in ast.walk(val) if isinstance(c_, ast.Call) and isinstance(c_.func, ast.Attribute) and
                           c_.func.attr == 'reshape']
            b = pmatch('(__D, 1, __D)', expand(rs[0].args[0], defs)) if len(rs) == 1 and rs[0].args else None
            ok = b is not None and b['__D'].endswith('.A[-1].shape[2]')
            chk.ob(rid, where(repo, fi, fi.node), f'{fi.name}: a dummy MPO bond of dimension 1 is inserted in the middle',
                   ok, norm(rs[0])[:80] if rs else 'not found', key=f'{rid}|{q}|dummy-bond')
            n += 1
    fi = repo.func('operation.norm')
    rets = [r for r in ast.walk(fi.node) if isinstance(r, ast.Return)]
    ok = len(rets) == 1 and pmatch('np.sqrt(vdot(__p, __p).real)', rets[0].value) is not None
    chk.ob(rid, where(repo, fi, fi.node), 'norm(psi) = sqrt(vdot(psi, psi).real)', ok,
           norm(rets[0].value) if rets else '', key=f'{rid}|norm')
    n += 1
    # compute_right_operator_blocks
    from ..canon import canonical, ARITH_VALUE_ROLES
    fi = canonical(repo.func('operation.compute_right_operator_blocks'), ARITH_VALUE_ROLES)
    calls = [c for c in ast.walk(fi.node) if isinstance(c, ast.Call) and
             norm(c.func) == 'contraction_operator_step_right']
    if len(calls) != 1:
        raise AnalysisError('compute_right_operator_blocks: kernel call not found')
    c = calls[0]
    loop = [l for l in ast.walk(fi.node) if isinstance(l, ast.For) and any(x is c for x in ast.walk(l))]
    asg = [s for s in ast.walk(fi.node) if isinstance(s, ast.Assign) and s.value is c]
    # index algebra instead of one spelling: with the loop variable v, target BR[t(v)], site s(v), source BR[b(v)] must
    # satisfy s = t + 1 = b, and t must run over L-2, L-3, .., 0 in this order (negative indices count from the end of a
    # list of length L)
    from ..affine import Affine, try_affine
    from ..sweep import index_affine
    ok, detail = False, norm(c)[:100]
    Ls = Affine.sym('L')
    if loop and asg and isinstance(loop[0].target, ast.Name) and isinstance(asg[0].targets[0], ast.Subscript):
        v = loop[0].target.id
        BR = norm(asg[0].targets[0].value)

        def idx(e):
            try:
                return index_affine(e, Ls, {})
            except Exception:
                return None
        t = idx(asg[0].targets[0].slice)
        sites = [idx(a.slice) if isinstance(a, ast.Subscript) and norm(a.value) in ('psi.A', 'op.A') else None for a in c.args[:3]]
        src = idx(c.args[3].slice) if len(c.args) > 3 and isinstance(c.args[3], ast.Subscript) and norm(c.args[3].value) == BR else None
        owners = [norm(a.value) if isinstance(a, ast.Subscript) else None for a in c.args[:3]]
        it = loop[0].iter
        seq = None                      # (first value, last value) of v, affine in L, step -1 / +1
        if isinstance(it, ast.Call) and norm(it.func) == 'reversed' and len(it.args) == 1 and \
                isinstance(it.args[0], ast.Call) and norm(it.args[0].func) == 'range':
            ra = [try_affine(a) for a in it.args[0].args]
            if all(a is not None for a in ra) and len(ra) in (1, 2):
                lo_, hi_ = (Affine.const(0), ra[0]) if len(ra) == 1 else (ra[0], ra[1])
                seq = (hi_ - Affine.const(1), lo_, -1)
        elif isinstance(it, ast.Call) and norm(it.func) == 'range' and len(it.args) == 3 and norm(it.args[2]) == '-1':
            ra = [try_affine(a) for a in it.args[:2]]
            if all(a is not None for a in ra):
                seq = (ra[0], ra[1] + Affine.const(1), -1)
        if t is not None and all(x is not None for x in sites) and src is not None and seq is not None:
            one = Affine.const(1)
            t_first, t_last = t.subst(v, seq[0]), t.subst(v, seq[1])
            ok = sites[0] == t + one and sites[1] == t + one and sites[2] == t + one and src == t + one and \
                owners == ['psi.A', 'psi.A', 'op.A'] and t.coeff(v) == 1 and \
                t_first == Ls - Affine.const(2) and t_last == Affine.const(0)
            detail = f'target {BR}[{t}], sites {[str(x) for x in sites]}, source {BR}[{src}], {v} from {seq[0]} down to {seq[1]}'
    chk.ob(rid, where(repo, fi, c), 'compute_right_operator_blocks: BR[i] is built from site i+1 and BR[i+1], '
           'for i = L-2 .. 0, ket and bra both psi', ok, detail, key=f'{rid}|right-blocks')
    init = []
    for s_ in fi.node.body:
        if isinstance(s_, ast.Assign) and isinstance(s_.targets[0], ast.Subscript) and \
                isinstance(s_.targets[0].value, ast.Name):
            try:
                k_ = index_affine(s_.targets[0].slice, Ls, {})
            except Exception:
                k_ = None
            if k_ is not None and k_ == Ls - Affine.const(1):
                init.append(s_)
    ok2 = len(init) == 1 and pmatch('np.array([[[1]]], dtype=__t)', init[0].value) is not None
    chk.ob(rid, where(repo, fi, fi.node), 'compute_right_operator_blocks: rightmost block is the 1x1x1 identity', ok2,
           norm(init[0].value) if init else 'not found', key=f'{rid}|right-blocks-init')
    n += 2
    chk.floor(rid, n, 20)


def run(chk, repo, tier):
    vals = {}
    rule_R1(chk, repo, vals)
    rule_R2(chk, repo, vals)
    rule_R3(chk, repo, vals)
    rule_R4(chk, repo)
    chk.undecided += ['floating-point agreement with dense results',
                      'Hermiticity of the effective Hamiltonian as a matrix (decided: mirror symmetry of the network, '
                      'ket and bra slots receive the same tensors)']
    chk.trust('reference networks transcribed from the docstring diagrams (table REF in sa/props/C04.py)')
    chk.trust('semantics of np.tensordot / transpose / conj as modelled in sa/legs.py')
    return ('Tensor-leg typing of the seven contraction kernels of operation.py: each body is evaluated in a domain of '
            'contraction networks (tensor occurrences, contracted leg pairs, conjugation flags, ordered open legs) and '
            'compared with the documented network; sibling kernels are closed and compared with each other; driver '
            'call sites are checked for the documented slot assignment.',
            'instances = kernels x {open legs, pairs, conjugation}, sibling closures, driver slots; distinct = distinct keys')
