"""Constant folding of the operator tables of the built-in lattice models (DESIGN.md section 15).

The model constructors of hamiltonian.py are tables: literal matrices, `np.identity`, `np.kron`, `np.diag`, an IntEnum of
operator ids, a dict from ids to matrices and a list of `OpChain(oids, qnums, coeff, istart)` literals.  This module
evaluates those initialisers inside the analyser, the way a compiler folds constants: no pytenet function is called.

Values
  number            Python int / float / complex
  Mat(n, m, data)   dense small matrix as {(r, c): value} (zeros omitted)
  Band(offs)        matrix of symbolic order d given by its diagonals: {k: generator text}, entries (i, i + k)
  Oid(name)         member of the local IntEnum
  Opaque(text)      a run-time parameter (J, h, coeff[i], ...)

Anything outside this vocabulary raises FoldError (the caller turns it into an analysis error, never into a verdict).
"""
import ast
import math

from .loader import norm


class FoldError(Exception):
    pass


class Mat:
    def __init__(self, n, m, data):
        self.n, self.m = n, m
        self.data = {k: v for k, v in data.items() if abs(v) > 1e-14}

    @staticmethod
    def identity(n):
        return Mat(n, n, {(i, i): 1.0 for i in range(n)})

    def kron(self, o):
        d = {}
        for (r, c), v in self.data.items():
            for (r2, c2), w in o.data.items():
                d[(r * o.n + r2, c * o.m + c2)] = v * w
        return Mat(self.n * o.n, self.m * o.m, d)

    def matmul(self, o):
        if self.m != o.n:
            raise FoldError('matrix product of incompatible shapes')
        d = {}
        for (r, k), v in self.data.items():
            for (k2, c), w in o.data.items():
                if k == k2:
                    d[(r, c)] = d.get((r, c), 0) + v * w
        return Mat(self.n, o.m, d)

    def add(self, o, sign=1):
        if (self.n, self.m) != (o.n, o.m):
            raise FoldError('sum of matrices of different shapes')
        d = dict(self.data)
        for k, v in o.data.items():
            d[k] = d.get(k, 0) + sign * v
        return Mat(self.n, self.m, d)

    def scale(self, x):
        return Mat(self.n, self.m, {k: v * x for k, v in self.data.items()})

    def adjoint(self):
        return Mat(self.m, self.n, {(c, r): (v.conjugate() if isinstance(v, complex) else v) for (r, c), v in self.data.items()})

    def close_to(self, o, tol=1e-12):
        if (self.n, self.m) != (o.n, o.m):
            return False
        keys = set(self.data) | set(o.data)
        return all(abs(self.data.get(k, 0) - o.data.get(k, 0)) <= tol for k in keys)

    def is_diagonal(self):
        return all(r == c for r, c in self.data)

    def __repr__(self):
        return f'Mat{self.n}x{self.m}{sorted(self.data.items())}'


class Band:
    """matrix of symbolic order: {offset k: generator text}; np.diag(v, k) has its entries at (i, i + k)"""

    def __init__(self, offs):
        self.offs = dict(offs)

    def adjoint(self):
        return Band({-k: g for k, g in self.offs.items()})

    def matmul(self, o):
        out = {}
        for k, g in self.offs.items():
            for k2, g2 in o.offs.items():
                kk = k + k2
                t = f'({g})*({g2})'
                out[kk] = f'{out[kk]}+{t}' if kk in out else t
        return Band(out)

    def add(self, o, sign=1):
        out = dict(self.offs)
        for k, g in o.offs.items():
            t = g if sign > 0 else f'-({g})'
            out[k] = f'{out[k]}+{t}' if k in out else t
        return Band(out)

    def scale(self, x):
        return Band({k: f'{x!r}*({g})' for k, g in self.offs.items()})

    def __repr__(self):
        return f'Band{self.offs}'


class Oid:
    def __init__(self, name):
        self.name = name

    def __repr__(self):
        return f'Oid({self.name})'


class Opaque:
    def __init__(self, text):
        self.text = text

    def __repr__(self):
        return f'Opaque({self.text})'


NUM = (int, float, complex)


class Folder:
    """evaluates the straight-line statements of a constructor; `symbolic` names are run-time parameters"""

    def __init__(self, repo, fi, symbolic_dim=None):
        self.repo = repo
        self.fi = fi
        self.env = {}
        self.enums = {}             # class name -> {member: int}
        self.dim = symbolic_dim     # name of the parameter that is the (symbolic) local dimension
        for p in fi.params:
            self.env[p] = Opaque(p)

    # ------------------------------------------------------------------
    def run(self, stmts):
        for s in stmts:
            if isinstance(s, ast.Expr) and isinstance(s.value, ast.Constant):
                continue
            if isinstance(s, ast.ClassDef):
                members = {}
                for b in s.body:
                    if isinstance(b, ast.Assign) and len(b.targets) == 1 and isinstance(b.targets[0], ast.Name):
                        try:
                            members[b.targets[0].id] = self.ev(b.value)
                        except FoldError:
                            pass
                self.enums[s.name] = members
                continue
            if isinstance(s, ast.Assign) and len(s.targets) == 1 and isinstance(s.targets[0], ast.Name):
                try:
                    self.env[s.targets[0].id] = self.ev(s.value)
                except FoldError as ex:
                    self.env[s.targets[0].id] = ('unfolded', s.value, str(ex))
                continue
            # other statements (asserts, returns, loops) are read by the rules themselves
        return self.env

    def get(self, name):
        v = self.env.get(name)
        if isinstance(v, tuple) and v and v[0] == 'unfolded':
            raise FoldError(f'`{name}` = `{norm(v[1])[:60]}`: {v[2]}')
        return v

    # ------------------------------------------------------------------
    def ev(self, e):
        if isinstance(e, ast.Constant):
            if isinstance(e.value, NUM) and not isinstance(e.value, bool):
                return e.value
            if isinstance(e.value, (str, bool)) or e.value is None:
                return Opaque(repr(e.value))
            raise FoldError(f'constant {e.value!r}')
        if isinstance(e, ast.Name):
            if e.id in self.env:
                return self.get(e.id)
            raise FoldError(f'unknown name `{e.id}`')
        if isinstance(e, ast.Attribute):
            if isinstance(e.value, ast.Name) and e.value.id in self.enums:
                if e.attr not in self.enums[e.value.id]:
                    raise FoldError(f'`{norm(e)}` is not a member of the enumeration')
                return Oid(e.attr)
            if isinstance(e.value, ast.Name) and self.repo is not None and self.repo.classes.get(e.value.id) is not None and \
                    e.attr in getattr(self.repo.classes[e.value.id], 'class_attrs', {}):
                return Oid(e.attr)
            b = self.ev(e.value)
            if isinstance(b, Opaque):
                return Opaque(norm(e))
            raise FoldError(f'attribute `{norm(e)}`')
        if isinstance(e, ast.UnaryOp) and isinstance(e.op, (ast.USub, ast.UAdd)):
            v = self.ev(e.operand)
            if isinstance(e.op, ast.UAdd):
                return v
            if isinstance(v, NUM):
                return -v
            if isinstance(v, (Mat, Band)):
                return v.scale(-1)
            if isinstance(v, Opaque):
                return Opaque(f'-{v.text}')
            raise FoldError(f'negation of `{norm(e.operand)}`')
        if isinstance(e, (ast.List, ast.Tuple)):
            return [self.ev(x) for x in e.elts]
        if isinstance(e, ast.Dict):
            out = {}
            for k, v in zip(e.keys, e.values):
                kk = self.ev(k)
                out[kk.name if isinstance(kk, Oid) else kk] = self.ev(v)
            return out
        if isinstance(e, ast.Subscript):
            b = self.ev(e.value)
            i = self.ev(e.slice)
            if isinstance(b, list) and isinstance(i, int):
                return b[i]
            if isinstance(b, Opaque):
                return Opaque(norm(e))
            raise FoldError(f'subscript `{norm(e)}`')
        if isinstance(e, ast.IfExp):
            return ('choice', e.test, self.ev(e.body), self.ev(e.orelse))
        if isinstance(e, ast.Compare):
            return Opaque(norm(e))
        if isinstance(e, ast.BinOp):
            return self.binop(e)
        if isinstance(e, ast.ListComp):
            return self.listcomp(e)
        if isinstance(e, ast.Call):
            return self.call(e)
        raise FoldError(f'expression `{norm(e)[:60]}`')

    def binop(self, e):
        a, b = self.ev(e.left), self.ev(e.right)
        op = e.op
        if isinstance(a, NUM) and isinstance(b, NUM):
            if isinstance(op, ast.Add):
                return a + b
            if isinstance(op, ast.Sub):
                return a - b
            if isinstance(op, ast.Mult):
                return a * b
            if isinstance(op, ast.Div):
                return a / b
            if isinstance(op, ast.LShift) and isinstance(a, int) and isinstance(b, int):
                return a << b
            if isinstance(op, ast.Pow):
                return a ** b
            if isinstance(op, ast.FloorDiv):
                return a // b
            raise FoldError(f'operator in `{norm(e)}`')
        if isinstance(a, Opaque) or isinstance(b, Opaque):
            return Opaque(norm(e))
        mats = (Mat, Band)
        if isinstance(a, mats) and isinstance(b, mats) and type(a) is type(b):
            if isinstance(op, ast.MatMult):
                return a.matmul(b)
            if isinstance(op, ast.Add):
                return a.add(b)
            if isinstance(op, ast.Sub):
                return a.add(b, -1)
            raise FoldError(f'elementwise operator in `{norm(e)}`')
        if isinstance(a, mats) and isinstance(b, NUM):
            if isinstance(op, ast.Mult):
                return a.scale(b)
            if isinstance(op, ast.Div):
                return a.scale(1 / b)
        if isinstance(a, NUM) and isinstance(b, mats) and isinstance(op, ast.Mult):
            return b.scale(a)
        raise FoldError(f'`{norm(e)[:60]}`')

    def listcomp(self, e):
        if len(e.generators) != 1 or e.generators[0].ifs:
            raise FoldError(f'comprehension `{norm(e)[:60]}`')
        g = e.generators[0]
        it = g.iter
        if isinstance(it, ast.Call) and norm(it.func) == 'zip':
            seqs = [self.ev(a) for a in it.args]
            if not all(isinstance(s, list) for s in seqs):
                raise FoldError(f'zip over `{norm(it)}`')
            items = [list(t) for t in zip(*seqs)]
        else:
            items = self.ev(it)
            if not isinstance(items, list):
                raise FoldError(f'iteration over `{norm(it)}`')
        out = []
        saved = dict(self.env)
        for item in items:
            if isinstance(g.target, ast.Name):
                self.env[g.target.id] = item
            elif isinstance(g.target, ast.Tuple) and all(isinstance(t, ast.Name) for t in g.target.elts):
                for t, v in zip(g.target.elts, item):
                    self.env[t.id] = v
            else:
                raise FoldError(f'comprehension target `{norm(g.target)}`')
            out.append(self.ev(e.elt))
        self.env = saved
        return out

    def call(self, e):
        f = norm(e.func)
        kw = {k.arg: k.value for k in e.keywords if k.arg}
        if f == 'np.array' and e.args:
            v = self.ev(e.args[0])
            if isinstance(v, list) and v and all(isinstance(r, list) for r in v):
                n, m = len(v), len(v[0])
                if not all(len(r) == m and all(isinstance(x, NUM) for x in r) for r in v):
                    raise FoldError(f'matrix literal `{norm(e)[:50]}`')
                return Mat(n, m, {(i, j): v[i][j] for i in range(n) for j in range(m)})
            if isinstance(v, list):
                return v
            raise FoldError(f'`{norm(e)[:50]}`')
        if f in ('np.identity', 'np.eye') and len(e.args) >= 1 and (f == 'np.identity' or len(e.args) == 1):
            n = self.ev(e.args[0])
            if isinstance(n, int):
                return Mat.identity(n)
            if isinstance(n, Opaque) and n.text == self.dim:
                return Band({0: '1'})
            raise FoldError(f'`{norm(e)}`')
        if f == 'np.kron' and len(e.args) == 2:
            a, b = self.ev(e.args[0]), self.ev(e.args[1])
            if isinstance(a, Mat) and isinstance(b, Mat):
                return a.kron(b)
            raise FoldError(f'`{norm(e)[:50]}`')
        if f == 'np.sqrt' and len(e.args) == 1:
            v = self.ev(e.args[0])
            if isinstance(v, (int, float)):
                return math.sqrt(v)
            if isinstance(v, tuple) and v and v[0] == 'arange':
                return ('gen', f'sqrt({v[1]})')
            raise FoldError(f'`{norm(e)}`')
        if f == 'np.arange':
            args = [self.ev(a) for a in e.args]
            if all(isinstance(a, int) for a in args):
                return list(range(*args))
            txt = ', '.join(a.text if isinstance(a, Opaque) else repr(a) for a in args)
            return ('arange', f'arange({txt})', args)
        if f == 'np.diag' and e.args:
            v = self.ev(e.args[0])
            k = self.ev(e.args[1]) if len(e.args) > 1 else 0
            if not isinstance(k, int):
                raise FoldError(f'offset of `{norm(e)[:50]}`')
            if isinstance(v, list) and all(isinstance(x, NUM) for x in v):
                n = len(v) + abs(k)
                return Mat(n, n, {((i, i + k) if k >= 0 else (i - k, i)): x for i, x in enumerate(v)})
            if isinstance(v, tuple) and v and v[0] in ('gen', 'arange'):
                return Band({k: v[1]})
            raise FoldError(f'`{norm(e)[:50]}`')
        if f in ('OpChain', 'AutOpNode', 'AutOpEdge', 'OpGraphNode', 'OpGraphEdge'):
            return ('ctor', f, e)
        if isinstance(e.func, ast.Name) and self.repo is not None:
            r = self.repo.resolve_name(self.fi.module, e.func.id)
            if r and r[0] == 'func':
                # a pure expression helper of the package (the pair encoding): its return expression is folded
                g = r[1]
                body = [s for s in g.node.body if not (isinstance(s, ast.Expr) and isinstance(s.value, ast.Constant))]
                if len(body) == 1 and isinstance(body[0], ast.Return) and len(g.params) == len(e.args) and not e.keywords:
                    sub = Folder(self.repo, g)
                    for p, a in zip(g.params, e.args):
                        sub.env[p] = self.ev(a)
                    return sub.ev(body[0].value)
        if f in ('len',) and len(e.args) == 1:
            v = self.ev(e.args[0])
            if isinstance(v, list):
                return len(v)
            return Opaque(norm(e))
        raise FoldError(f'call `{norm(e)[:60]}`')


# ----------------------------------------------------------------------
def charges(op, qd):
    """set of qd[r] - qd[c] over the non-zero entries of an operator"""
    if isinstance(op, Mat):
        if not isinstance(qd, list) or len(qd) != op.n or op.n != op.m:
            raise FoldError(f'operator of shape {op.n}x{op.m} against {len(qd) if isinstance(qd, list) else "symbolic"} '
                            f'physical quantum numbers')
        return {qd[r] - qd[c] for (r, c) in op.data}
    if isinstance(op, Band):
        if not (isinstance(qd, tuple) and qd[0] == 'arange'):
            raise FoldError('a banded operator of symbolic order needs qd = np.arange(d)')
        return {-k for k in op.offs}
    raise FoldError(f'not an operator: {op!r}')


def kron_factor(m, na=2, nb=2):
    """M (na*nb square) = A (x) B ?  -> (A, B) or None"""
    if m.n != na * nb or m.m != na * nb or not m.data:
        return None
    (r0, c0), v0 = sorted(m.data.items())[0]
    i0, k0, j0, l0 = r0 // nb, r0 % nb, c0 // nb, c0 % nb
    A = Mat(na, na, {(i, j): m.data.get((i * nb + k0, j * nb + l0), 0) / v0 for i in range(na) for j in range(na)})
    B = Mat(nb, nb, {(k, l): m.data.get((i0 * nb + k, j0 * nb + l), 0) for k in range(nb) for l in range(nb)})
    if A.kron(B).close_to(m):
        return A, B
    return None


def mode_class(a):
    """2x2 mode factor -> 'F' (fermionic: purely off-diagonal, one entry), 'Z', 'I', 'E' (other diagonal), None"""
    if a.n != 2 or a.m != 2 or not a.data:
        return None
    if a.is_diagonal():
        d0, d1 = a.data.get((0, 0), 0), a.data.get((1, 1), 0)
        if abs(d0 - d1) < 1e-12:
            return 'I'
        if abs(d0 + d1) < 1e-12:
            return 'Z'
        return 'E'
    if all(r != c for r, c in a.data) and len(a.data) == 1:
        return 'F'
    return None
