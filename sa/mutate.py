"""AST-computed single edits of /repo/pytenet for the checker's own self-test (thorough tier).

A Variant is (file, description, new source text, expectation, properties to run):
  expectation 'violation' : at least one of the listed properties must report a violation
  expectation 'silent'    : none of the listed properties may report a violation (or an analysis error)
Edits are spliced into the original text at the positions of the syntax nodes (formatting of the rest of the
file is untouched); every variant must still byte-compile.
"""
import ast
import re

from .loader import norm
from . import typestate as ts


class Variant:
    def __init__(self, file, desc, source, expect, props, site=None, more=None, mode='any'):
        self.more = dict(more or {})      # further files changed by the same variant: file -> source
        # 'any': a breaking edit must be reported by at least one of the listed properties (they share the engine that
        #        owns the edited construct; which of them phrases a rule about it is not part of the expectation);
        # 'all': every listed property must report it (kept seeded changes: the recorded detection must not regress)
        self.mode = mode
        self.file = file
        self.desc = desc
        self.source = source
        self.expect = expect
        self.props = list(props)
        self.site = site

    def __repr__(self):
        return f'<{self.expect} {self.file}: {self.desc}>'


def _offsets(src):
    offs = [0]
    for line in src.splitlines(keepends=True):
        offs.append(offs[-1] + len(line.encode('utf-8')))
    return offs


def splice(src, node, new_text):
    """replace the source segment of `node` by new_text (byte offsets as given by ast)"""
    b = src.encode('utf-8')
    offs = _offsets(src)
    start = offs[node.lineno - 1] + node.col_offset
    end = offs[node.end_lineno - 1] + node.end_col_offset
    return (b[:start] + new_text.encode('utf-8') + b[end:]).decode('utf-8')


def seg(src, node):
    return ast.get_source_segment(src, node)


def functions(tree):
    for n in ast.walk(tree):
        if isinstance(n, ast.FunctionDef):
            yield n


def func_named(tree, qual):
    parts = qual.split('.')
    body = tree.body
    node = None
    for p in parts:
        node = None
        for n in body:
            if isinstance(n, (ast.FunctionDef, ast.ClassDef)) and n.name == p:
                node = n
                body = n.body
                break
        if node is None:
            return None
    return node


# ----------------------------------------------------------------------
ID_FUNCS = {
    'opgraph.py': {'OpGraph.from_opchains': ['C05'], 'OpGraph.from_automaton': ['C17'],
                   'OpGraph._insert_opchain': ['C17']},
    'hamiltonian.py': {'MolecularOpGraphNodes.__init__': ['C07'], 'MolecularOpGraphNodes.generate_graph': ['C07'],
                       'SpinMolecularOpGraphNodes.__init__': ['C07'], 'SpinMolecularOpGraphNodes.generate_graph': ['C07']},
}


def gen_delete_increments(sources):
    """delete each id-counter increment in turn"""
    for file, funcs in ID_FUNCS.items():
        src = sources[file]
        tree = ast.parse(src)
        for q, props in funcs.items():
            fn = func_named(tree, q)
            if fn is None:
                continue
            counters, _, _, _ = ts.find_counters(fn)
            for n in ast.walk(fn):
                if isinstance(n, ast.AugAssign) and isinstance(n.target, ast.Name) and n.target.id in counters:
                    yield Variant(file, f'{q}: delete `{norm(n)}` at line {n.lineno}', splice(src, n, 'pass'),
                                  'violation', props, site=q)


def gen_drop_copies(sources):
    for file, quals in (('mps.py', ['add_mps']), ('mpo.py', ['add_mpo'])):
        src = sources[file]
        tree = ast.parse(src)
        for q in quals:
            fn = func_named(tree, q)
            for n in ast.walk(fn):
                if isinstance(n, ast.Call) and isinstance(n.func, ast.Attribute) and n.func.attr == 'copy' and not n.args:
                    yield Variant(file, f'{q}: drop `.copy()` of `{norm(n.func.value)}` at line {n.lineno}',
                                  splice(src, n, seg(src, n.func.value)), 'violation', ['C19'], site=q)
    for file, q in (('mps.py', 'MPS.__init__'), ('mpo.py', 'MPO.__init__')):
        src = sources[file]
        fn = func_named(ast.parse(src), q)
        for n in ast.walk(fn):
            if isinstance(n, ast.Call) and norm(n.func) == 'np.array':
                yield Variant(file, f'{q}: `np.array` -> `np.asarray` at line {n.lineno}',
                              splice(src, n.func, 'np.asarray'), 'violation', ['C19'], site=q)


SWEEP_FUNCS = {
    'evolution.py': {'integrate_local_singlesite': ['C08', 'C02'], 'integrate_local_twosite': ['C08', 'C02']},
    'minimization.py': {'calculate_ground_state_local_singlesite': ['C10', 'C02'],
                        'calculate_ground_state_local_twosite': ['C10', 'C02']},
}


def gen_shift_slots(sources):
    """shift one slot index of an environment / tensor / label reference by +1 inside the sweep loops"""
    for file, funcs in SWEEP_FUNCS.items():
        src = sources[file]
        tree = ast.parse(src)
        for q, props in funcs.items():
            fn = func_named(tree, q)
            outer = [s for s in fn.body if isinstance(s, ast.For) and 'num' in norm(s.iter)]
            if not outer:
                continue
            for n in ast.walk(outer[0]):
                if isinstance(n, ast.Subscript) and norm(n.value) in ('BL', 'BR', 'psi.A', 'H.A', 'psi.qD') and \
                        not isinstance(n.slice, ast.Slice):
                    idx = seg(src, n.slice)
                    new = f'{idx} + 1' if idx.isidentifier() else f'({idx}) + 1'
                    yield Variant(file, f'{q}: `{norm(n)}` -> index + 1 at line {n.lineno}:{n.col_offset}',
                                  splice(src, n.slice, new), 'violation', props, site=q)


def gen_dt_fractions(sources):
    file = 'evolution.py'
    src = sources[file]
    tree = ast.parse(src)
    for q in ('integrate_local_singlesite', 'integrate_local_twosite'):
        fn = func_named(tree, q)
        for n in ast.walk(fn):
            if isinstance(n, ast.Call) and norm(n.func) in ('_local_hamiltonian_step', '_local_bond_step'):
                a = n.args[4] if norm(n.func) == '_local_hamiltonian_step' else n.args[3]
                t = norm(a)
                if t in ('0.5 * dt', '-0.5 * dt'):
                    yield Variant(file, f'{q}: step fraction `{t}` -> `{t.replace("0.5 * ", "")}` at line {n.lineno}',
                                  splice(src, a, t.replace('0.5 * ', '')), 'violation', ['C08', 'C09'], site=q)
                    yield Variant(file, f'{q}: step fraction `{t}` -> `{t.replace("0.5 * dt", "dt / 2")}` (benign) at line '
                                        f'{n.lineno}', splice(src, a, t.replace('0.5 * dt', 'dt / 2')), 'silent',
                                  ['C08', 'C09'], site=q)
                if t == 'dt':
                    yield Variant(file, f'{q}: full step `dt` -> `0.5 * dt` at line {n.lineno}',
                                  splice(src, a, '0.5 * dt'), 'violation', ['C08'], site=q)


def gen_swap_split_direction(sources):
    for file, funcs in SWEEP_FUNCS.items():
        src = sources[file]
        tree = ast.parse(src)
        for q, props in funcs.items():
            fn = func_named(tree, q)
            for n in ast.walk(fn):
                if isinstance(n, ast.Call) and norm(n.func) == 'split_mps_tensor' and len(n.args) >= 5 and \
                        isinstance(n.args[4], ast.Constant):
                    old = n.args[4].value
                    new = {'left': 'right', 'right': 'left'}[old]
                    yield Variant(file, f'{q}: split direction {old!r} -> {new!r} at line {n.lineno}',
                                  splice(src, n.args[4], repr(new)), 'violation', [props[0]], site=q)


def gen_kernel_axes(sources):
    """perturb the axes of each tensordot in the contraction kernels"""
    file = 'operation.py'
    src = sources[file]
    tree = ast.parse(src)
    kernels = ['contraction_step_right', 'contraction_step_left', 'contraction_operator_step_right',
               'contraction_operator_step_left', 'contraction_operator_density_step_right', 'apply_local_hamiltonian',
               'apply_local_bond_contraction']
    for q in kernels:
        fn = func_named(tree, q)
        for n in ast.walk(fn):
            if isinstance(n, ast.Call) and norm(n.func) == 'np.tensordot':
                axn = n.args[2] if len(n.args) > 2 else [k.value for k in n.keywords if k.arg == 'axes'][0]
                if isinstance(axn, ast.Tuple) and len(axn.elts) == 2 and isinstance(axn.elts[0], ast.Tuple) and \
                        len(axn.elts[0].elts) >= 2:
                    e = axn.elts[0].elts
                    new = '(' + ', '.join([norm(e[1]), norm(e[0])] + [norm(x) for x in e[2:]]) + ')'
                    yield Variant(file, f'{q}: swap first two contracted axes of the first operand at line {n.lineno}',
                                  splice(src, axn.elts[0], new), 'violation', ['C04'], site=q)
            if isinstance(n, ast.Call) and isinstance(n.func, ast.Attribute) and n.func.attr == 'conj':
                yield Variant(file, f'{q}: drop `.conj()` at line {n.lineno}', splice(src, n, seg(src, n.func.value)),
                              'violation', ['C04'], site=q)
            if isinstance(n, ast.Call) and isinstance(n.func, ast.Attribute) and n.func.attr == 'transpose' and \
                    n.args and isinstance(n.args[0], ast.Tuple):
                p = [norm(x) for x in n.args[0].elts]
                p2 = p[1:] + p[:1]
                yield Variant(file, f'{q}: rotate the output transpose at line {n.lineno}',
                              splice(src, n.args[0], '(' + ', '.join(p2) + ')'), 'violation', ['C04'], site=q)


def gen_driver_swaps(sources):
    file = 'operation.py'
    src = sources[file]
    tree = ast.parse(src)
    for q in ('vdot', 'operator_inner_product'):
        fn = func_named(tree, q)
        for n in ast.walk(fn):
            if isinstance(n, ast.Call) and norm(n.func).startswith('contraction_') and len(n.args) >= 2:
                a, b = seg(src, n.args[0]), seg(src, n.args[1])
                s1 = splice(src, n.args[1], a)
                tree2 = ast.parse(s1)
                # second splice on the re-parsed text
                fn2 = func_named(tree2, q)
                for m in ast.walk(fn2):
                    if isinstance(m, ast.Call) and norm(m.func) == norm(n.func):
                        s2 = splice(s1, m.args[0], b)
                        yield Variant(file, f'{q}: swap ket and bra arguments at line {n.lineno}', s2, 'violation', ['C04'],
                                      site=q)
                        break


def gen_merge_guards(sources):
    file = 'opgraph.py'
    src = sources[file]
    fn = func_named(ast.parse(src), 'OpGraph._simplify_step')
    for n in ast.walk(fn):
        if isinstance(n, ast.If) and len(n.body) == 1 and isinstance(n.body[0], ast.Continue) and not n.orelse:
            yield Variant(file, f'_simplify_step: remove guard `{norm(n.test)[:50]}` at line {n.lineno}',
                          splice(src, n, 'pass'), 'violation', ['C16'], site='OpGraph._simplify_step')


def gen_family_tables(sources):
    file = 'hamiltonian.py'
    src = sources[file]
    tree = ast.parse(src)
    for cls in ('MolecularOpGraphNodes', 'SpinMolecularOpGraphNodes'):
        fn = func_named(tree, f'{cls}.copy_nids')
        k = 0
        for n in ast.walk(fn):
            if isinstance(n, ast.For) and isinstance(n.iter, ast.Call) and norm(n.iter.func) == 'range' and n.iter.args:
                last = n.iter.args[-1]
                k += 1
                if k % 3 != 0:
                    continue            # every third loop header is enough for the self-test
                yield Variant(file, f'{cls}.copy_nids: range bound `{norm(last)}` -> `{norm(last)} - 1` at line {n.lineno}',
                              splice(src, last, f'({seg(src, last)}) - 1'), 'violation', ['C07'], site=f'{cls}.copy_nids')


def gen_dispatch(sources):
    file = 'opgraph.py'
    src = sources[file]
    fn = func_named(ast.parse(src), 'OpGraph.from_automaton')
    for n in ast.walk(fn):
        if isinstance(n, ast.IfExp) and isinstance(n.test, ast.Call) and norm(n.test.func) == 'isinstance':
            yield Variant(file, f'from_automaton: unwrap callable dispatch `{norm(n.orelse)}` at line {n.lineno}',
                          splice(src, n, seg(src, n.orelse)), 'violation', ['C17'], site='OpGraph.from_automaton')
            if isinstance(n.body, ast.Call) and n.body.args:
                yield Variant(file, f'from_automaton: dispatch `{norm(n.orelse)}` evaluated at site 0 at line {n.lineno}',
                              splice(src, n.body.args[0], '0'), 'violation', ['C17'], site='OpGraph.from_automaton')


def gen_krylov_slices(sources):
    file = 'krylov.py'
    src = sources[file]
    tree = ast.parse(src)
    for q in ('lanczos_iteration', 'arnoldi_iteration'):
        fn = func_named(tree, q)
        for r in ast.walk(fn):
            if isinstance(r, ast.Return):
                for n in ast.walk(r):
                    if isinstance(n, ast.Slice) and n.upper is not None and n.lower is None:
                        yield Variant(file, f'{q}: early-return slice end `{norm(n.upper)}` + 1 at line {r.lineno}',
                                      splice(src, n.upper, f'{seg(src, n.upper)} + 1'), 'violation', ['C14'], site=q)


def gen_block_perms(sources):
    file = 'bond_ops.py'
    src = sources[file]
    tree = ast.parse(src)
    for q, prop in (('qr', 'C11'), ('split_matrix_svd', 'C12')):
        fn = func_named(tree, q)
        for n in ast.walk(fn):
            if isinstance(n, ast.Name) and n.id in ('idx0', 'idx1') and isinstance(n.ctx, ast.Load):
                other = 'idx1' if n.id == 'idx0' else 'idx0'
                yield Variant(file, f'{q}: `{n.id}` -> `{other}` at line {n.lineno}:{n.col_offset}', splice(src, n, other),
                              'violation', [prop], site=q)
            if isinstance(n, ast.Name) and n.id in ('i0', 'i1', 'j0', 'j1') and isinstance(n.ctx, ast.Load):
                other = {'i0': 'j0', 'i1': 'j1', 'j0': 'i0', 'j1': 'i1'}[n.id]
                yield Variant(file, f'{q}: `{n.id}` -> `{other}` at line {n.lineno}:{n.col_offset}', splice(src, n, other),
                              'violation', [prop], site=q)


def gen_local_step_axes(sources):
    """perturb the tensordot that pushes R into the neighbour in each local orthonormalisation step"""
    for file, props in (('mps.py', {'qr': 'C01', 'svd': 'C13'}), ('mpo.py', {'qr': 'C01'})):
        src = sources[file]
        tree = ast.parse(src)
        for fn in tree.body:
            if isinstance(fn, ast.FunctionDef) and fn.name.startswith('local_orthonormalize'):
                prop = props['qr' if fn.name.endswith('qr') else 'svd']
                for n in ast.walk(fn):
                    if isinstance(n, ast.Call) and norm(n.func) == 'np.tensordot' and len(n.args) > 2 and \
                            isinstance(n.args[2], ast.Tuple) and len(n.args[2].elts) == 2:
                        a, b = n.args[2].elts
                        if norm(a).isdigit():
                            yield Variant(file, f'{fn.name}: tensordot axis `{norm(a)}` -> `{int(norm(a)) ^ 1}` at line {n.lineno}',
                                          splice(src, a, str(int(norm(a)) ^ 1)), 'violation', [prop], site=fn.name)
                    if isinstance(n, ast.Return) and isinstance(n.value, ast.Tuple) and len(n.value.elts) == 3:
                        lab = n.value.elts[2]
                        new = seg(src, lab)[1:] if seg(src, lab).startswith('-') else '-' + seg(src, lab)
                        yield Variant(file, f'{fn.name}: flip the sign of the returned label at line {n.lineno}',
                                      splice(src, lab, new), 'violation', [prop, 'C02'], site=fn.name)


# ----------------------------------------------------------------------
# benign edits
class _Renamer(ast.NodeTransformer):
    def __init__(self, old, new):
        self.old, self.new = old, new

    def visit_Name(self, node):
        if node.id == self.old:
            node.id = self.new
        return node


BENIGN_RENAMES = [
    ('mps.py', 'add_mps', 's0', 'shape_first', ['C02', 'C03', 'C19']),
    ('bond_ops.py', 'qr', 'iqn', 'sector', ['C11']),
    ('bond_ops.py', 'split_matrix_svd', 'Dprev', 'Dstart', ['C12']),
    ('evolution.py', 'integrate_local_singlesite', 'C', 'Cmat', ['C08', 'C09', 'C02']),
    ('minimization.py', 'calculate_ground_state_local_twosite', 'Am', 'Amerged', ['C10', 'C02']),
    ('opgraph.py', 'OpGraph.from_automaton', 'idx', 'pos', ['C17']),
    ('opgraph.py', 'OpGraph.from_opchains', 'coeffs_next', 'pending', ['C05']),
    ('krylov.py', 'lanczos_iteration', 'w', 'wvec', ['C14']),
    ('operation.py', 'contraction_operator_step_left', 'T', 'tmp', ['C04']),
    ('mpo.py', 'MPO.from_opgraph', 'nids1', 'layer', ['C05']),
]


def gen_benign_renames(sources):
    for file, q, old, new, props in BENIGN_RENAMES:
        src = sources[file]
        tree = ast.parse(src)
        fn = func_named(tree, q)
        if fn is None:
            continue
        out = src
        names = [n for n in ast.walk(fn) if isinstance(n, ast.Name) and n.id == old]
        # splice from the end so that earlier offsets stay valid
        for n in sorted(names, key=lambda x: (x.lineno, x.col_offset), reverse=True):
            out = splice(out, n, new)
        if out != src:
            yield Variant(file, f'{q}: rename local `{old}` -> `{new}` (benign)', out, 'silent', props, site=q)


def gen_benign_copies(sources):
    file = 'mps.py'
    src = sources[file]
    fn = func_named(ast.parse(src), 'add_mps')
    for n in ast.walk(fn):
        if isinstance(n, ast.Call) and norm(n.func) == 'np.concatenate':
            yield Variant(file, 'add_mps: extra `.copy()` on a concatenated label (benign)',
                          splice(src, n, seg(src, n) + '.copy()'), 'silent', ['C19', 'C02'], site='add_mps')
            break


# ----------------------------------------------------------------------
# the kept seeded changes (seeded/<id>/patch.diff) are part of the catalogue: every check that reported a change when
# the seed matrix was last refreshed must keep reporting it
def gen_seeded(sources):
    import json
    import os
    import shutil
    import subprocess
    import tempfile
    here = os.path.dirname(os.path.dirname(os.path.abspath(__file__)))
    base = os.path.join(here, 'seeded')
    if not os.path.isdir(base):
        return
    for sid in sorted(os.listdir(base)):
        d = os.path.join(base, sid)
        patch, meta = os.path.join(d, 'patch.diff'), os.path.join(d, 'meta.json')
        if not (os.path.exists(patch) and os.path.exists(meta)):
            continue
        m = json.load(open(meta))
        props = m.get('checks_reporting_violation') or []
        if not props:
            continue
        tmp = tempfile.mkdtemp(prefix='sa_seedvar_')
        try:
            os.makedirs(os.path.join(tmp, 'pytenet'))
            for f, text in sources.items():
                with open(os.path.join(tmp, 'pytenet', f), 'w', encoding='utf-8') as fh:
                    fh.write(text)
            r = subprocess.run(['git', 'apply', '--include=pytenet/*', patch], cwd=tmp, capture_output=True, text=True)
            if r.returncode != 0:
                continue            # made against another revision of the file
            changed = {}
            for f, text in sources.items():
                new = open(os.path.join(tmp, 'pytenet', f), encoding='utf-8').read()
                if new != text:
                    changed[f] = new
            if not changed:
                continue
            first = sorted(changed)[0]
            yield Variant(first, f'seeded change {sid} ({m.get("breaks_property")})', changed[first], 'violation', props,
                          site=sid, more={f: t for f, t in changed.items() if f != first}, mode='all')
        finally:
            shutil.rmtree(tmp, ignore_errors=True)


# ----------------------------------------------------------------------
# single textual edits (anchor must occur exactly once); rules added after the AST generators were written
TEXT_EDITS = [
    # (file, anchor, replacement, expectation, properties, description)
    ('bond_ops.py', 'return np.where(s > tol)[0]', 'return np.where(s >= tol)[0]', 'violation', ['C12', 'C13'],
     'retained_bond_indices: non-strict comparison'),
    ('bond_ops.py', 'return np.where(s > tol)[0]', 'return np.where(tol < s)[0]', 'silent', ['C12', 'C13'],
     'retained_bond_indices: comparison written the other way round (benign)'),
    ('bond_ops.py', 's = (s / w)**2', 's = s**2 / w', 'violation', ['C12', 'C13'], 'retained_bond_indices: norm not squared'),
    ('bond_ops.py', 's = (s / w)**2', 's = s**2 / w**2', 'silent', ['C12', 'C13'],
     'retained_bond_indices: same weights, written differently (benign)'),
    ('bond_ops.py', 's = (s / w)**2', 's = s / w', 'violation', ['C12', 'C13'], 'retained_bond_indices: weights not squared'),
    ('bond_ops.py', 's[sort_idx] = np.cumsum(s[sort_idx])', 's = np.cumsum(s[::-1])[::-1]', 'violation', ['C12', 'C13'],
     'retained_bond_indices: accumulation assumes a sorted input'),
    ('bond_ops.py', 'sort_idx = np.argsort(s)', 'sort_idx = np.argsort(-s)', 'violation', ['C12', 'C13'],
     'retained_bond_indices: accumulation from the largest value'),
    ('bond_ops.py', 'idx = retained_bond_indices(s, tol)', 'idx = retained_bond_indices(s**2, tol)', 'violation', ['C12', 'C13'],
     'split_matrix_svd: squared values handed to the truncation rule'),
    ('krylov.py', '    j = numiter-1\n    w = Afunc(V[j])\n    alpha[j]', '    j += 1\n    w = Afunc(V[j])\n    alpha[j]', 'violation', ['C14', 'C08', 'C10'],
     'lanczos_iteration: final step uses the stale loop variable'),
    ('krylov.py', 'return V @ (np.linalg.norm(v) * expm(dt*H)[:, 0])', 'return V @ expm(dt*H)[:, 0]', 'violation', ['C08', 'C09'],
     'expm_krylov: norm of the start vector not restored'),
    ('krylov.py', 'return V @ (np.linalg.norm(v) * expm(dt*H)[:, 0])', 'return np.linalg.norm(v) * (V @ expm(dt*H)[:, 0])', 'silent',
     ['C08', 'C09', 'C14'], 'expm_krylov: norm factor moved outside (benign)'),
    ('krylov.py', '    vstart = vstart / nrmv\n\n    alpha', '    alpha', 'violation', ['C14', 'C09'],
     'lanczos_iteration: start vector not normalised'),
    ('opgraph.py', 'nids_prev = nids_active_d[-1 if direction == 1 else 0]', 'nids_prev = nids_active_d[-1]', 'violation', ['C17'],
     'from_automaton: backward pass reads the wrong end of the layer list'),
    ('opgraph.py', 'nids_prev = nids_active_d[-1 if direction == 1 else 0]', 'nids_prev = nids_active_d[0 if direction == 0 else -1]',
     'silent', ['C17'], 'from_automaton: frontier index written the other way round (benign)'),
    ('opgraph.py', '            op = np.kron(op_sub, op_loc)', '            op = np.kron(op_loc, op_sub)', 'violation', ['C17'],
     '_subgraph_as_matrix: Kronecker order swapped for direction 0'),
    ('opchain.py', 'op = np.kron(op, opmap[oid])', 'op = np.kron(opmap[oid], op)', 'violation', ['C17'],
     'OpChain.as_matrix: Kronecker order reversed'),
    ('optree.py', 'op_sum = np.kron(op_sum, np.identity(m))', 'op_sum = np.kron(np.identity(m), op_sum)', 'violation', ['C17'],
     '_subtree_as_matrix: identity padding on the left'),
    ('optree.py', 'op_sum = op_sum + op', 'op_sum = op + op_sum', 'silent', ['C17'], '_subtree_as_matrix: summands swapped (benign)'),
    ('minimization.py', 'for i in reversed(range(L - 1)):', 'for i in reversed(range(L - 2)):', 'violation', ['C10'],
     'two-site DMRG: right-to-left sweep skips the last pair'),
    ('opgraph.py', 'coeffs_next = [chain.coeff for chain in chains]', 'coeffs_next = [c.coeff for c in chains]', 'silent', ['C05', 'C07'],
     'from_opchains: comprehension variable of the coefficient list renamed (benign)'),
    ('opgraph.py', 'coeffs_next = [chain.coeff for chain in chains]', 'coeffs_next = [chain.coeff for chain in chains if chain.coeff != 0]',
     'violation', ['C05'], 'from_opchains: coefficient list filtered differently from the half-chain list'),
    ('opgraph.py', '                    coeffs_next.append(gamma[(i, j)])\n', '', 'violation', ['C05'],
     'from_opchains: half-chain appended without its coefficient'),
    ('opgraph.py', "        if coeffs_next[0] != 1.0:", "        if coeffs_next[0] != 1:", 'silent', ['C05', 'C07'],
     'from_opchains: pending test against the integer 1 (benign)'),
    ('opgraph.py', '        edge = (i, j)\n        if edge in edges:', '        edge = (i, j)\n        if coeff == 0:\n            continue\n        if edge in edges:',
     'violation', ['C05'], '_site_partition_halfchains: zero coefficients skip the edge'),
    ('mpo.py', '                op = op.reshape((n**2, -1))\n', '                op = op.reshape((n**2, -1))\n                op.eliminate_zeros()\n',
     'silent', ['C03'], 'MPO.as_matrix: exact zeros removed from the sparse intermediate (benign)'),
    ('mpo.py', '                op = op.reshape((n**2, -1))\n', '                op = op.reshape((n**2, -1))\n                op.data[np.abs(op.data) < 1e-14] = 0\n',
     'violation', ['C03'], 'MPO.as_matrix: small entries of the sparse intermediate zeroed'),
    ('krylov.py', '        H[j+1, j] = np.linalg.norm(w)\n        if H[j+1, j] < 100',
     '        for k in range(j+1):\n            c = np.vdot(V[k], w)\n            H[k, j] += c\n            w -= c*V[k]\n'
     '        H[j+1, j] = np.linalg.norm(w)\n        if H[j+1, j] < 100', 'silent', ['C14', 'C08'],
     'arnoldi_iteration: second orthogonalisation pass that accumulates its coefficients (benign)'),
    ('krylov.py', '        H[j+1, j] = np.linalg.norm(w)\n        if H[j+1, j] < 100',
     '        for k in range(j+1):\n            H[k, j] = np.vdot(V[k], w)\n            w -= H[k, j]*V[k]\n'
     '        H[j+1, j] = np.linalg.norm(w)\n        if H[j+1, j] < 100', 'violation', ['C14'],
     'arnoldi_iteration: second orthogonalisation pass that overwrites its coefficients'),
    ('mps.py', "        if len(self.A) == 0:\n            return 1\n\n        if mode == 'left':\n            for i in range(len(self.A) - 1):\n                self.A[i], self.A[i+1], self.qD[i+1] = local_orthonormalize_left_qr(self.A[i], self.A[i+1], self.qd, self.qD[i:i+2])",
     "        if len(self.A) == 0:\n            return 1\n        assert mode in ('left', 'right')\n        if mode == 'left':\n            for i in range(len(self.A) - 1):\n                self.A[i], self.A[i+1], self.qD[i+1] = local_orthonormalize_left_qr(self.A[i], self.A[i+1], self.qd, self.qD[i:i+2])",
     'silent', ['C01', 'C02'], 'MPS.orthonormalize: extra assert on the mode before the branches (benign)'),
    ('mps.py', "        if len(self.A) == 0:\n            return 1\n\n        if mode == 'left':\n            for i in range(len(self.A) - 1):\n                self.A[i], self.A[i+1], self.qD[i+1] = local_orthonormalize_left_qr(self.A[i], self.A[i+1], self.qd, self.qD[i:i+2])",
     "        if len(self.A) == 0:\n            return 1\n        if len(self.A) == 1 and self.A[0].size == 1:\n            return abs(self.A[0].item())\n        if mode == 'left':\n            for i in range(len(self.A) - 1):\n                self.A[i], self.A[i+1], self.qD[i+1] = local_orthonormalize_left_qr(self.A[i], self.A[i+1], self.qd, self.qD[i:i+2])",
     'violation', ['C01'], 'MPS.orthonormalize: early return that bypasses the sweep'),
    ('opgraph.py', '                    if len(node1.eids[direction]) != 1:\n                        continue\n                    if len(node2.eids[direction]) != 1:\n                        continue',
     '                    if len(node1.eids[direction]) != 1 or len(node2.eids[direction]) != 1:\n                        continue',
     'silent', ['C16'], '_simplify_step: two skip guards merged with `or` (benign)'),
    ('opgraph.py', '                    if len(node1.eids[direction]) != 1:\n                        continue\n                    if len(node2.eids[direction]) != 1:\n                        continue',
     '                    if len(node1.eids[direction]) != 1 and len(node2.eids[direction]) != 1:\n                        continue',
     'violation', ['C16'], '_simplify_step: two skip guards merged with `and`'),
    ('hamiltonian.py', '            for j in range(2, i):\n                graph.add_connect_edge(\n                    OpGraphEdge(eid_next, [self.a_ann_r[i][j].nid, self.a_ann_r[i][j + 1].nid], [(MolecularOID.Z, 1.)]))\n                eid_next += 1',
     '            nodes_i = self.a_ann_r[i]\n            for j in range(2, i):\n                graph.add_connect_edge(\n                    OpGraphEdge(eid_next, [nodes_i[j].nid, nodes_i[j + 1].nid], [(MolecularOID.Z, 1.)]))\n                eid_next += 1',
     'silent', ['C07'], 'generate_graph: local name for a row of a node-family table (benign)'),
    ('mps.py', '            v = v * s[:, None]', '            v = np.diag(s) @ v', 'silent', ['C13', 'C02'],
     'from_vector: singular values applied as a diagonal matrix (benign)'),
    ('mps.py', '            mps.qD[i + 1] = np.zeros(len(s), dtype=int)', '            mps.qD[i + 1] = np.zeros(len(idx), dtype=int)', 'silent',
     ['C13', 'C02'], 'from_vector: label length taken from the retained index set (benign)'),
    ('mps.py', '            u = u[:, idx]\n            v = v[idx, :]\n            s = s[idx]', '            u, v, s = u[:, idx], v[idx, :], s[idx]',
     'silent', ['C13', 'C02', 'C12'], 'from_vector: truncation written as one tuple assignment (benign)'),
    ('mps.py', '            v = v * s[:, None]', '            v = np.diag(s**2) @ v', 'violation', ['C13'],
     'from_vector: squared singular values carried to the right'),
    ('bond_ops.py', '        Dprev = D\n        D += Qsub.shape[1]\n\n        Q[i0:i1, Dprev:D] = Qsub\n        R[Dprev:D, j0:j1] = Rsub\n        qinterm[Dprev:D] = qn',
     '        Dnext = D + Qsub.shape[1]\n\n        Q[i0:i1, D:Dnext] = Qsub\n        R[D:Dnext, j0:j1] = Rsub\n        qinterm[D:Dnext] = qn\n        D = Dnext',
     'silent', ['C11', 'C01'], 'qr: counter-next spelling of the intermediate offset (benign)'),
    ('bond_ops.py', '    Q = np.zeros((A.shape[0], max_interm_dim), dtype=A.dtype)\n    R = np.zeros((max_interm_dim, A.shape[1]), dtype=A.dtype)',
     '    m, n = A.shape\n    Q = np.zeros((m, max_interm_dim), dtype=A.dtype)\n    R = np.zeros((max_interm_dim, n), dtype=A.dtype)',
     'silent', ['C11', 'C01'], 'qr: shape unpacked into locals (benign)'),
    ('bond_ops.py', '        Q = Q[np.argsort(idx0), :]', '        Q = Q[np.argsort(idx0)]', 'silent', ['C11'],
     'qr: one-axis row index (benign)'),
    ('bond_ops.py', '        Q = Q[np.argsort(idx0), :]', '        Q = Q[np.argsort(idx1), :]', 'violation', ['C11'],
     'qr: rows un-sorted with the column permutation'),
    ('mps.py', '                mask = qnumber_outer_sum([self.qd, self.qD[i], -self.qD[i+1]])', '                mask = qnumber_outer_sum([self.qd, self.qD[i], -self.qD[i]])',
     'violation', ['C02'], 'MPS.__init__: mask built from the wrong label'),
    # --- variants added with the third seeding round (new rules must stay silent on correct re-spellings)
    ('autop.py', "        for direction in (0, 1):\n            if edge.nids[direction] in self.nodes:\n                self.nodes[edge.nids[direction]].add_edge_id(edge.eid, 1-direction)",
     "        for direction in (0, 1):\n            if edge.nids[direction] not in self.nodes:\n                continue\n            self.nodes[edge.nids[direction]].add_edge_id(edge.eid, 1-direction)",
     'silent', ['C17', 'C19'], 'AutOp.add_connect_edge: continue-guard instead of a positive test (benign)'),
    ('autop.py', "        for direction in (0, 1):\n            if edge.nids[direction] in self.nodes:\n                self.nodes[edge.nids[direction]].add_edge_id(edge.eid, 1-direction)",
     "        for direction in (0, 1):\n            if edge.nids[direction] not in self.nodes:\n                break\n            self.nodes[edge.nids[direction]].add_edge_id(edge.eid, 1-direction)",
     'violation', ['C17'], 'AutOp.add_connect_edge: break leaves the second end unconnected'),
    ('opgraph.py', "        for direction in (0, 1):\n            if edge.nids[direction] in self.nodes:\n                self.nodes[edge.nids[direction]].add_edge_id(edge.eid, 1-direction)",
     "        for direction in (0, 1):\n            if edge.nids[direction] in self.nodes:\n                self.nodes[edge.nids[direction]].add_edge_id(edge.eid, direction)",
     'violation', ['C17', 'C16', 'C05', 'C07'], 'OpGraph.add_connect_edge: edge registered on the wrong side of the node'),
    ('hamiltonian.py', "    gint0 = 0.5 * (vint                             + np.transpose(vint, (1, 0, 3, 2)))\n    gint1 = 0.5 * (np.transpose(vint, (1, 0, 2, 3)) + np.transpose(vint, (0, 1, 3, 2)))",
     "    gint0 = np.empty((L, L, L, L), dtype=np.result_type(vint, float))\n    gint0[:] = 0.5 * (vint                             + np.transpose(vint, (1, 0, 3, 2)))\n    gint1 = 0.5 * (np.transpose(vint, (1, 0, 2, 3)) + np.transpose(vint, (0, 1, 3, 2)))",
     'silent', ['C07'], 'spin molecular build: table preallocated with the promoted type (benign)'),
    ('hamiltonian.py', "    gint0 = 0.5 * (vint                             + np.transpose(vint, (1, 0, 3, 2)))\n    gint1 = 0.5 * (np.transpose(vint, (1, 0, 2, 3)) + np.transpose(vint, (0, 1, 3, 2)))",
     "    gint0 = np.empty((L, L, L, L), dtype=vint.dtype)\n    gint0[:] = 0.5 * (vint                             + np.transpose(vint, (1, 0, 3, 2)))\n    gint1 = 0.5 * (np.transpose(vint, (1, 0, 2, 3)) + np.transpose(vint, (0, 1, 3, 2)))",
     'violation', ['C07'], 'spin molecular build: table preallocated with the type of the input (halves truncated for integer input)'),
    ('mpo.py', "    for i in range(L + 1):\n        op.qD[i] = qnumber_flatten([op0.qD[i], op1.qD[i]])\n\n    for i in range(L):",
     "    for i in range(L):\n        op.qD[i] = qnumber_flatten([op0.qD[i], op1.qD[i]])\n    op.qD[L] = qnumber_flatten([op0.qD[L], op1.qD[L]])\n\n    for i in range(L):",
     'silent', ['C03', 'C02'], 'multiply_mpo: last bond label stored after the loop (benign)'),
    ('mpo.py', "    for i in range(L + 1):\n        op.qD[i] = qnumber_flatten([op0.qD[i], op1.qD[i]])\n\n    for i in range(L):",
     "    for i in range(1, L + 1):\n        op.qD[i] = qnumber_flatten([op0.qD[i], op1.qD[i]])\n\n    for i in range(L):",
     'violation', ['C03', 'C02'], 'multiply_mpo: leading bond keeps the placeholder label'),
    ('opgraph.py', "        next_nid = max(max(self.nodes.keys()), max(other.nodes.keys())) + 1\n        for nid in shared_nids:\n            other.rename_node_id(nid, next_nid)\n            next_nid += 1",
     "        first_free = max(max(self.nodes.keys()), max(other.nodes.keys())) + 1\n        for k, nid in enumerate(shared_nids):\n            other.rename_node_id(nid, first_free + k)",
     'silent', ['C16', 'C19'], 'OpGraph.add: fresh node ids as first_free + k (benign)'),
    ('opgraph.py', "        next_nid = max(max(self.nodes.keys()), max(other.nodes.keys())) + 1\n        for nid in shared_nids:",
     "        next_nid = max(self.nodes.keys()) + 1\n        for nid in shared_nids:",
     'violation', ['C16'], 'OpGraph.add: fresh node ids above the ids of self only'),
    ('evolution.py', "        for i in reversed(range(1, L)):\n            # right-orthonormalize current psi.A[i]",
     "        for i in range(L - 1, 0, -1):\n            # right-orthonormalize current psi.A[i]",
     'silent', ['C08', 'C09', 'C02'], 'single-site TDVP: descending range instead of reversed(range) (benign)'),
    # --- C06: operator tables of the built-in lattice models
    ('hamiltonian.py', "OpChain([OID.Su, OID.Sd], [0,  2, 0], 0.5*J, 0)", "OpChain([OID.Su, OID.Sd], [0,  1, 0], 0.5*J, 0)", 'violation', ['C06'],
     'XXZ: bond quantum number of the flip-flop term does not match the charge of S+'),
    ('hamiltonian.py', "OpChain([OID.Sd, OID.Su], [0, -2, 0], 0.5*J, 0)", "OpChain([OID.Sd, OID.Su], [0, -2, 0], 0.5*D, 0)", 'violation', ['C06'],
     'XXZ: adjoint partner of the flip-flop term carries another parameter'),
    ('hamiltonian.py', "OpChain([OID.Sd, OID.Su], [0, -2, 0], 0.5*J, 0)", "OpChain([OID.Sd, OID.Su], [0, -2, 0], J/2, 0)", 'silent', ['C06'],
     'XXZ: J/2 for 0.5*J (benign)'),
    ('hamiltonian.py', "        OpChain([OID.CZ, OID.AI], [0, _encode_quantum_number_pair( 1,  1), 0], -t, 0),",
     "        OpChain([OID.CI, OID.AI], [0, _encode_quantum_number_pair( 1,  1), 0], -t, 0),", 'violation', ['C06'],
     'Fermi-Hubbard: Jordan-Wigner Z missing between the two spin-up operators'),
    ('hamiltonian.py', "        OpChain([OID.IC, OID.ZA], [0, _encode_quantum_number_pair( 1, -1), 0], -t, 0),",
     "        OpChain([OID.IC, OID.ZA], [0, _encode_quantum_number_pair( 1,  1), 0], -t, 0),", 'violation', ['C06'],
     'Fermi-Hubbard: spin-down hopping labelled with the spin-up quantum number'),
    ('hamiltonian.py', "    qS = [0, -1,  1,  0]\n    qd = [_encode_quantum_number_pair(q[0], q[1]) for q in zip(qN, qS)]\n    id2 = np.identity(2)",
     "    qS = [0,  1, -1,  0]\n    qd = [_encode_quantum_number_pair(q[0], q[1]) for q in zip(qN, qS)]\n    id2 = np.identity(2)", 'violation', ['C06'],
     'Fermi-Hubbard: spin quantum numbers of the two singly occupied states exchanged'),
    ('hamiltonian.py', "    b_dag = np.diag(np.sqrt(np.arange(1, d, dtype=float)), -1)\n    b_ann = np.diag(np.sqrt(np.arange(1, d, dtype=float)),  1)",
     "    b_dag = np.diag(np.sqrt(np.arange(1, d, dtype=float)),  1)\n    b_ann = np.diag(np.sqrt(np.arange(1, d, dtype=float)), -1)", 'violation', ['C06'],
     'Bose-Hubbard: creation and annihilation matrices exchanged'),
    ('hamiltonian.py', "    for i in range(1, L):\n        graph.add_connect_edge(\n            OpGraphEdge(eid_next, [z_string_r[i].nid, z_string_r[i + 1].nid], [(OID.Z, 1.)]))",
     "    for i in range(1, L - 1):\n        graph.add_connect_edge(\n            OpGraphEdge(eid_next, [z_string_r[i].nid, z_string_r[i + 1].nid], [(OID.Z, 1.)]))", 'violation', ['C06'],
     'linear fermionic operator: last Z edge missing'),
    ('hamiltonian.py', "[(OID.C if use_creation_op else OID.A, coeff[i])]", "[(OID.A if use_creation_op else OID.C, coeff[i])]", 'violation', ['C06'],
     'linear fermionic operator: creation and annihilation exchanged'),
    ('hamiltonian.py', "        for i in range(size - lopc.length + 1):", "        for i in range(size - lopc.length):", 'violation', ['C06'],
     'shifting helper: last admissible start left out'),
    ('hamiltonian.py', "            chain = copy.copy(lopc)\n            chain.istart = i", "            chain = lopc\n            chain.istart = i", 'violation', ['C06'],
     'shifting helper: all placements share one chain object'),
    ('hamiltonian.py', "            chain = copy.copy(lopc)\n            chain.istart = i", "            chain = OpChain(lopc.oids, lopc.qnums, lopc.coeff, i)", 'silent', ['C06'],
     'shifting helper: placement built by the constructor (benign)'),
    ('hamiltonian.py', "    node_z     = AutOpNode(2, [], [], 0)", "    node_z     = AutOpNode(2, [], [], 1)", 'violation', ['C06'],
     'Ising automaton: intermediate state carries a quantum number'),
    ('hamiltonian.py', "    sigma_x = np.array([[0., 1.], [1.,  0.]])", "    sigma_x = np.array([[0., 1.], [0.,  0.]])", 'violation', ['C06'],
     'Ising: transverse-field operator not Hermitian'),
    ('hamiltonian.py', "    Z = np.array([[1., 0.], [0., -1.]])\n    # operator map\n    class OID(IntEnum):\n        Id =  0",
     "    Z = np.diag([1., -1.])\n    # operator map\n    class OID(IntEnum):\n        Id =  0", 'silent', ['C06'],
     'Fermi-Hubbard: Z written as np.diag (benign)'),
    ('hamiltonian.py', "    sq2 = np.sqrt(2.)", "    sq2 = 2.**0.5", 'silent', ['C06'], 'spin-1: sqrt(2) as a power (benign)'),
    ('hamiltonian.py', "    Sz  = np.array([[1.,  0.,  0.], [0.,  0.,  0. ], [0.,  0., -1.]])", "    Sz  = np.array([[1.,  0.,  0.], [0.,  0.,  1. ], [0.,  0., -1.]])",
     'violation', ['C06'], 'spin-1: S_z with an off-diagonal entry'),
    # hand-written harmless spellings that were reported at first (DESIGN.md section 14, seventh round)
    ('operation.py', "    for i in reversed(range(psi.nsites)):\n        T = contraction_step_right(psi.A[i], chi.A[i], T)",
     "    for i in range(psi.nsites - 1, -1, -1):\n        T = contraction_step_right(psi.A[i], chi.A[i], T)",
     'silent', ['C04'], 'vdot: descending range written with a negative step (benign)'),
    ('krylov.py', "        alpha[j] = np.vdot(w, V[j]).real\n        w -= alpha[j]*V[j] + (beta[j-1]*V[j-1] if j > 0 else 0)",
     "        alpha[j] = np.real(np.vdot(w, V[j]))\n        w -= alpha[j]*V[j] + (beta[j-1]*V[j-1] if j > 0 else 0)",
     'silent', ['C08', 'C09', 'C14'], 'lanczos_iteration: np.real(.) for .real (benign)'),
    ('mps.py', "        psi = self.A[0]\n        for i in range(1, len(self.A)):\n            psi = merge_mps_tensor_pair(psi, self.A[i])",
     "        psi = self.A[0]\n        for i in range(1, self.nsites):\n            psi = merge_mps_tensor_pair(psi, self.A[i])",
     'silent', ['C03'], 'MPS.as_vector: number of sites spelled self.nsites (benign)'),
    ('mps.py', "            nrm = T[0, 0, 0].real\n            if nrm < 0:\n                # flip sign such that normalization factor is always non-negative\n                self.A[-1] = -self.A[-1]\n                nrm = -nrm",
     "            nrm = np.real(T[0, 0, 0])\n            if nrm < 0:\n                # flip sign such that normalization factor is always non-negative\n                self.A[-1] = -self.A[-1]\n                nrm = abs(nrm)",
     'silent', ['C01', 'C13'], 'MPS.orthonormalize: np.real(.) for .real and abs(.) for the negation of a negative number (benign)'),
    ('bond_ops.py', 's[sort_idx] = np.cumsum(s[sort_idx])', 's[sort_idx] = s[sort_idx].cumsum()', 'silent', ['C12', 'C13'],
     'retained_bond_indices: method form of cumsum (benign)'),
    # T5 (weights sum to one) and the must-pass-through rule of the local TDVP steps
    ('bond_ops.py', 'w = np.linalg.norm(s)', 'w = np.sum(s)', 'violation', ['C12', 'C13'],
     'retained_bond_indices: normalised by the sum instead of the 2-norm - scale invariant and quadratic, but the weights no longer sum to one'),
    ('bond_ops.py', 's = (s / w)**2', 's = (s / w)**2 / 2', 'violation', ['C12', 'C13'],
     'retained_bond_indices: weights halved - tol is no longer a fraction of the total weight'),
    ('bond_ops.py', 's = (s / w)**2', 's = np.square(s / w)', 'silent', ['C12', 'C13'],
     'retained_bond_indices: np.square for the second power (benign)'),
    ('bond_ops.py', "    w = np.linalg.norm(s)\n    if w == 0:\n        return np.array([], dtype=int)\n\n    # normalized squares\n    s = (s / w)**2",
     "    w = np.sum(s**2)\n    if w == 0:\n        return np.array([], dtype=int)\n\n    # normalized squares\n    s = s**2 / w",
     'silent', ['C12', 'C13'], 'retained_bond_indices: squares over the sum of squares (benign)'),
    ('bond_ops.py', "    w = np.linalg.norm(s)\n    if w == 0:\n        return np.array([], dtype=int)\n\n    # normalized squares\n    s = (s / w)**2",
     "    w = np.sqrt(np.dot(s, s))\n    if w == 0:\n        return np.array([], dtype=int)\n\n    # normalized squares\n    s = (s / w)**2",
     'silent', ['C12', 'C13'], 'retained_bond_indices: 2-norm written as the root of the dot product (benign)'),
    ('bond_ops.py', 'return np.where(s > tol)[0]', 'keep = s > tol\n    return np.flatnonzero(keep)', 'silent', ['C12', 'C13'],
     'retained_bond_indices: flatnonzero of a named mask (benign)'),
    ('evolution.py', '    Local "zero-site" bond step, based on a Lanczos iteration.\n    """\n',
     '    Local "zero-site" bond step, based on a Lanczos iteration.\n    """\n    if C.size == 1:\n        return C\n',
     'violation', ['C08', 'C09'], '_local_bond_step: one-dimensional bond handed back un-evolved (the scalar factor exp(c*dt*E) is lost)'),
    ('evolution.py', '    Local "zero-site" bond step, based on a Lanczos iteration.\n    """\n',
     '    Local "zero-site" bond step, based on a Lanczos iteration.\n    """\n    if dt == 0:\n        return C\n',
     'silent', ['C08', 'C09'], '_local_bond_step: early exit for a vanishing time step (benign)'),
    ('evolution.py', "    return expm_krylov(\n        lambda x: apply_local_hamiltonian(L, R, W, x.reshape(A.shape)).reshape(-1),\n            A.reshape(-1), -dt, numiter, hermitian=True).reshape(A.shape)",
     "    v = expm_krylov(\n        lambda x: apply_local_hamiltonian(L, R, W, x.reshape(A.shape)).reshape(-1),\n            A.reshape(-1), -dt, numiter, hermitian=True)\n    Anew = v.reshape(A.shape)\n    return Anew",
     'silent', ['C08', 'C09'], '_local_hamiltonian_step: result held in local names before it is returned (benign)'),
    ('bond_ops.py', 's = (s / w)**2', 's = s / w\n    s = s * s', 'silent', ['C12', 'C13'],
     'retained_bond_indices: square written as a product of the normalised vector with itself (benign)'),
    ('bond_ops.py', 's = (s / w)**2', 's = s / w\n    s = s * s / w', 'violation', ['C12', 'C13'],
     'retained_bond_indices: norm divided out three times'),
    ('opchain.py', "        for oid in self.oids:\n            op = np.kron(op, opmap[oid])",
     "        for k in range(len(self.oids)):\n            op = np.kron(op, opmap[self.oids[k]])",
     'silent', ['C03', 'C17'], 'OpChain.as_matrix: index loop over the operator ids (benign)'),
    ('mps.py', "mps.A[0] = np.block([mps0.A[0], alpha*mps1.A[0]])", "mps.A[0] = np.block([mps0.A[0], mps1.A[0]*alpha])",
     'silent', ['C02', 'C03'], 'add_mps: scalar factor written on the right (equal up to the last bit of a complex product)'),
    ('mps.py', "mps.A[0] = np.block([mps0.A[0], alpha*mps1.A[0]])", "mps.A[0] = np.block([mps0.A[0], mps1.A[0]])",
     'violation', ['C03'], 'add_mps: scale dropped from the multi-site branch'),
    ('mpo.py', "op.A[-1] = np.block([[op0.A[-1]], [op1.A[-1]]])", "op.A[-1] = np.concatenate((op0.A[-1], op1.A[-1]), axis=3)",
     'violation', ['C03'], 'add_mpo: last tensor stacked along the wrong bond axis'),
    ('mpo.py', "op.A[-1] = np.block([[op0.A[-1]], [op1.A[-1]]])", "op.A[-1] = np.concatenate((op1.A[-1], op0.A[-1]), axis=2)",
     'violation', ['C03'], 'add_mpo: last tensor stacked in the wrong operand order'),
    ('operation.py', "    for i in reversed(range(psi.nsites)):\n        T = contraction_step_right(psi.A[i], chi.A[i], T)",
     "    for i in range(psi.nsites - 1, 0, -1):\n        T = contraction_step_right(psi.A[i], chi.A[i], T)",
     'violation', ['C04'], 'vdot: descending range that stops before site 0'),
    ('bond_ops.py', "Qsub, Rsub = np.linalg.qr(A[i0:i1, j0:j1], mode='reduced')", "Qsub, Rsub = np.linalg.qr(A[i0:i1, j0:j1])",
     'silent', ['C01', 'C02', 'C11'], "qr: mode left at its default, which is 'reduced' (benign)"),
    ('bond_ops.py', "    max_interm_dim = min(A.shape)\n\n    # keep track of intermediate dimension\n    D = 0\n\n    Q = np.zeros(",
     "    max_interm_dim = min(A.shape[0], A.shape[1])\n\n    # keep track of intermediate dimension\n    D = 0\n\n    Q = np.zeros(",
     'silent', ['C01', 'C02', 'C11'], 'qr: min of the two extents spelled out (benign)'),
    ('bond_ops.py', "    max_interm_dim = min(A.shape)\n\n    # keep track of intermediate dimension\n    D = 0\n\n    Q = np.zeros(",
     "    max_interm_dim = A.shape[1]\n\n    # keep track of intermediate dimension\n    D = 0\n\n    Q = np.zeros(",
     'violation', ['C11'], 'qr: intermediate dimension bounded by the number of columns only'),
    ('optree.py', "        if edge.node.is_leaf():\n            op_subtree = np.identity(1)\n        else:\n            op_subtree = _subtree_as_matrix(edge.node, opmap)",
     "        op_subtree = np.identity(1) if edge.node.is_leaf() else _subtree_as_matrix(edge.node, opmap)",
     'silent', ['C03', 'C17'], '_subtree_as_matrix: conditional expression for the leaf case (benign)'),
    ('optree.py', "        op_sum = op_sum + op\n    return op_sum", "        op_sum = np.add(op_sum, op)\n    return op_sum",
     'silent', ['C03', 'C17'], '_subtree_as_matrix: np.add for + (benign)'),
    ('opgraph.py', "            if tree.istart > 0:\n                # insert identities between start node and beginning of tree\n                nid_root = max(graph.nodes.keys()) + 1",
     "            if tree.istart >= 1:\n                # insert identities between start node and beginning of tree\n                nid_root = max(graph.nodes) + 1",
     'silent', ['C17', 'C16'], 'from_optrees: `>= 1` for `> 0` on an integer, max over the table itself (benign)'),
    ('opgraph.py', "            if tree.istart > 0:\n                # insert identities between start node and beginning of tree\n                nid_root = max(graph.nodes.keys()) + 1",
     "            if tree.istart >= 0:\n                # insert identities between start node and beginning of tree\n                nid_root = max(graph.nodes.keys()) + 1",
     'violation', ['C17'], 'from_optrees: identity padding also for a tree that starts at site 0'),
    ('opgraph.py', "        next_nid = max(max(self.nodes.keys()), max(other.nodes.keys())) + 1", "        next_nid = 1 + max(max(self.nodes.keys()), max(other.nodes.keys()))",
     'silent', ['C16'], 'OpGraph.add: `1 + max(..)` (benign)'),
    ('evolution.py', "        # rightmost tensor pair\n        i = L - 2\n", "        # rightmost tensor pair\n        i = psi.nsites - 2\n",
     'silent', ['C08', 'C09'], 'integrate_local_twosite: turning point written with psi.nsites (benign)'),
    ('evolution.py', "        # rightmost tensor pair\n        i = L - 2\n", "        # rightmost tensor pair\n        i = L - 3\n",
     'violation', ['C08', 'C09'], 'integrate_local_twosite: turning point one pair too far left'),
    ('opgraph.py', "        nids_active = [sorted(list(s0 & s1)) for s0, s1 in zip(nids_active_dir[0], nids_active_dir[1])]",
     "        nids_active = [sorted(s0.intersection(s1)) for s0, s1 in zip(*nids_active_dir)]",
     'silent', ['C17'], 'from_automaton: intersection method and zip(*..) (benign)'),
    ('opgraph.py', "        nids_active = [sorted(list(s0 & s1)) for s0, s1 in zip(nids_active_dir[0], nids_active_dir[1])]",
     "        nids_active = [sorted(list(s0 | s1)) for s0, s1 in zip(nids_active_dir[0], nids_active_dir[1])]",
     'violation', ['C17'], 'from_automaton: union instead of intersection of the reachable sets'),
    ('opgraph.py', "            for node_autop in [autop.nodes[nid_autop] for nid_autop in nids_active[i + 1]]:\n                node = OpGraphNode(nid_next, [], [], node_autop.qnum)",
     "            for nid_autop in nids_active[i + 1]:\n                node_autop = autop.nodes[nid_autop]\n                node = OpGraphNode(nid_next, [], [], node_autop.qnum)",
     'silent', ['C17'], 'from_automaton: loop over the ids of the next layer, node looked up in the body (benign)'),
    ('opgraph.py', "            for node_autop in [autop.nodes[nid_autop] for nid_autop in nids_active[i + 1]]:\n                node = OpGraphNode(nid_next, [], [], node_autop.qnum)",
     "            for nid_autop in nids_active[i]:\n                node_autop = autop.nodes[nid_autop]\n                node = OpGraphNode(nid_next, [], [], node_autop.qnum)",
     'violation', ['C17'], 'from_automaton: new nodes enumerate the wrong layer'),
    ('opgraph.py', "                    edge_active = edge_autop.active(i) if isinstance(edge_autop.active, Callable) else edge_autop.active",
     "                    edge_active = edge_autop.active(i) if callable(edge_autop.active) else edge_autop.active",
     'silent', ['C17'], 'from_automaton: callable(.) for isinstance(., Callable) (benign)'),
    ('mps.py', "    if svd_distr == 'left':\n        A0 = A0 * sigma\n    elif svd_distr == 'right':",
     "    if svd_distr not in ('left', 'right', 'sqrt'):\n        raise ValueError('svd_distr parameter must be \"left\", \"right\" or \"sqrt\".')\n    if svd_distr == 'left':\n        A0 = A0 * sigma\n    elif svd_distr == 'right':",
     'silent', ['C02', 'C03', 'C12'], 'split_mps_tensor: option value also validated before the case distinction (benign)'),
    ('mps.py', "    elif svd_distr == 'sqrt':\n        s = np.sqrt(sigma)\n        A0 = A0 * s\n        A1 = A1 * s[:, None, None]\n    else:\n        raise ValueError('svd_distr parameter must be \"left\", \"right\" or \"sqrt\".')\n",
     "    else:\n        s = np.sqrt(sigma)\n        A0 = A0 * s\n        A1 = A1 * s[:, None, None]\n",
     'violation', ['C12'], 'split_mps_tensor: every unknown option value treated as sqrt'),
    ('mps.py', "        mps.A[-1] *= v[0, 0]\n        return mps", "        mps.A[-1] = mps.A[-1] * v[0, 0]\n        return mps",
     'silent', ['C02', 'C13'], 'from_vector: trailing factor absorbed by a written-out product (benign)'),
    ('mpo.py', "    for i in range(L + 1):\n        op.qD[i] = qnumber_flatten([op0.qD[i], op1.qD[i]])",
     "    op.qD = [qnumber_flatten([op0.qD[i], op1.qD[i]]) for i in range(L + 1)]",
     'silent', ['C02', 'C03'], 'multiply_mpo: label list built by one comprehension (benign)'),
    ('mpo.py', "    for i in range(L + 1):\n        op.qD[i] = qnumber_flatten([op0.qD[i], op1.qD[i]])",
     "    op.qD = [qnumber_flatten([op1.qD[i], op0.qD[i]]) for i in range(L + 1)]",
     'violation', ['C02', 'C03'], 'multiply_mpo: label list built by one comprehension, operands in the wrong order'),
    ('operation.py', "    qD = [qnumber_flatten((op.qD[i], psi.qD[i])) for i in range(psi.nsites + 1)]",
     "    qD = [qnumber_flatten((qo, qp)) for qo, qp in zip(op.qD, psi.qD)]",
     'silent', ['C02', 'C03'], 'apply_operator: labels by zip over the two label lists (benign)'),
    ('operation.py', "    qD = [qnumber_flatten((op.qD[i], psi.qD[i])) for i in range(psi.nsites + 1)]",
     "    qD = [qnumber_flatten((qp, qo)) for qo, qp in zip(op.qD, psi.qD)]",
     'violation', ['C02', 'C03'], 'apply_operator: labels by zip, flattened in the wrong order'),
    ('opgraph.py', "        chains = [chain.padded(length, oid_identity) for chain in chains if chain.coeff != 0]",
     "        chains = [chain.padded(length, oid_identity) for chain in chains if not chain.coeff == 0]",
     'silent', ['C05'], 'from_opchains: zero filter written as `not .. == 0` (benign)'),
    ('mps.py', "        mps.qD[ 0] = mps0.qD[ 0].copy()\n        mps.qD[-1] = mps0.qD[-1].copy()",
     "        mps.qD[ 0] = mps1.qD[ 0].copy()\n        mps.qD[-1] = mps1.qD[-1].copy()",
     'silent', ['C02', 'C03', 'C19'], 'add_mps: boundary labels copied from the second operand, which is asserted equal (benign)'),
    ('mps.py', "        mps.qD[ 0] = mps0.qD[ 0].copy()\n        mps.qD[-1] = mps0.qD[-1].copy()",
     "        mps.qD[ 0] = mps0.qD[ 0][:]\n        mps.qD[-1] = mps0.qD[-1][:]",
     'violation', ['C19'], 'add_mps: boundary labels taken as views of the operand (slicing an ndarray does not copy)'),
]


def gen_text_edits(sources):
    for file, old, new, expect, props, desc in TEXT_EDITS:
        if expect == 'skip':
            continue
        src = sources[file]
        old_, new_ = old.replace('\\n', '\n'), new.replace('\\n', '\n')
        if src.count(old_) != 1:
            continue
        yield Variant(file, desc, src.replace(old_, new_), expect, props, site=desc.split(':')[0])


# ----------------------------------------------------------------------
# behaviour-preserving refactorings written by independent sub-agents (benign/<id>/patch.diff, each with an equivalence
# demo whose digest is identical with and without the change): every check of the file's properties must stay silent
# restructurings that the engines cannot follow yet (DESIGN.md section 14): kept under benign/ for the record, not asserted
KNOWN_LIMITS = set()


def gen_benign_patches(sources):
    import os
    import shutil
    import subprocess
    import tempfile
    here = os.path.dirname(os.path.dirname(os.path.abspath(__file__)))
    base = os.path.join(here, 'benign')
    if not os.path.isdir(base):
        return
    for bid in sorted(os.listdir(base)):
        patch = os.path.join(base, bid, 'patch.diff')
        if not os.path.exists(patch) or bid in KNOWN_LIMITS:
            continue
        tmp = tempfile.mkdtemp(prefix='sa_benignvar_')
        try:
            os.makedirs(os.path.join(tmp, 'pytenet'))
            for f, text in sources.items():
                with open(os.path.join(tmp, 'pytenet', f), 'w', encoding='utf-8') as fh:
                    fh.write(text)
            r = subprocess.run(['git', 'apply', '--include=pytenet/*', patch], cwd=tmp, capture_output=True, text=True)
            if r.returncode != 0:
                continue
            changed = {}
            for f, text in sources.items():
                new = open(os.path.join(tmp, 'pytenet', f), encoding='utf-8').read()
                if new != text:
                    changed[f] = new
            if not changed:
                continue
            first = sorted(changed)[0]
            props = list(ALL_PROPS)      # a harmless edit must leave every check silent, whichever files it reads
            yield Variant(first, f'behaviour-preserving refactoring {bid} (benign)', changed[first], 'silent', props, site=bid,
                          more={f: t for f, t in changed.items() if f != first})
        finally:
            shutil.rmtree(tmp, ignore_errors=True)


GENERATORS = [gen_delete_increments, gen_drop_copies, gen_shift_slots, gen_dt_fractions, gen_swap_split_direction,
              gen_kernel_axes, gen_driver_swaps, gen_merge_guards, gen_family_tables, gen_dispatch, gen_krylov_slices,
              gen_block_perms, gen_local_step_axes, gen_benign_renames, gen_benign_copies, gen_text_edits, gen_seeded, gen_benign_patches]


def all_variants(sources, only_props=None, rename_every=3):
    out = []
    gens = list(GENERATORS) + [lambda src: gen_rename_locals(src, every=rename_every)]
    for g in gens:
        for v in g(sources):
            if only_props is not None:
                if not (set(v.props) & set(only_props)):
                    continue
                if v.mode == 'all' or v.expect == 'silent':
                    v.props = [p for p in v.props if p in only_props]
            try:
                import warnings
                with warnings.catch_warnings():
                    warnings.simplefilter('ignore')
                    compile(v.source, v.file, 'exec')
            except SyntaxError:
                continue
            out.append(v)
    return out


# ----------------------------------------------------------------------
# robustness: renaming any local variable must not change any verdict
ALL_PROPS = ['C01', 'C02', 'C03', 'C04', 'C05', 'C06', 'C07', 'C08', 'C09', 'C10', 'C11', 'C12', 'C13', 'C14', 'C16', 'C17', 'C19']
FILE_PROPS = {
    'mps.py': ['C01', 'C02', 'C03', 'C12', 'C13', 'C19'],
    'mpo.py': ['C01', 'C02', 'C03', 'C05', 'C19'],
    'bond_ops.py': ['C11', 'C12', 'C19'],
    'operation.py': ['C03', 'C04', 'C19'],
    'evolution.py': ['C02', 'C08', 'C09'],
    'minimization.py': ['C02', 'C10'],
    'krylov.py': ['C14'],
    'opgraph.py': ['C05', 'C16', 'C17', 'C19'],
    'opchain.py': ['C05'],
    'hamiltonian.py': ['C07'],
    'qnumber.py': ['C19'],
}


def gen_rename_locals(sources, every=1):
    """one variant per (function, local variable): rename it consistently inside that function"""
    k = 0
    for file, props in FILE_PROPS.items():
        src = sources[file]
        tree = ast.parse(src)
        for fn in ast.walk(tree):
            if not isinstance(fn, ast.FunctionDef):
                continue
            params = {a.arg for a in fn.args.args}
            nested = [n for n in ast.walk(fn) if isinstance(n, (ast.FunctionDef, ast.Lambda, ast.ClassDef)) and n is not fn]
            if any(isinstance(n, ast.FunctionDef) for n in nested):
                continue          # closures share names with the enclosing function
            stored = set()
            for n in ast.walk(fn):
                if isinstance(n, ast.Name) and isinstance(n.ctx, ast.Store):
                    stored.add(n.id)
            for name in sorted(stored - params):
                if name == '_' or name.startswith('__'):
                    continue
                # names captured by lambdas / nested classes are left alone
                if any(isinstance(x, ast.Name) and x.id == name for nn in nested for x in ast.walk(nn)):
                    continue
                k += 1
                if k % every:
                    continue
                new = name + '_rn'
                occ = [n for n in ast.walk(fn) if isinstance(n, ast.Name) and n.id == name]
                out = src
                for n in sorted(occ, key=lambda x: (x.lineno, x.col_offset), reverse=True):
                    out = splice(out, n, new)
                # keyword arguments / f-string texts are untouched by construction
                yield Variant(file, f'{fn.name}: rename local `{name}` (benign)', out, 'silent', props, site=fn.name)
