"""Tiny structural pattern matcher over expressions.

Patterns are written as Python source; a name starting with `__` is a metavariable that
matches any expression, consistently (same normalised text at every occurrence).  Matching
is on the syntax tree, so local names in the repository can be renamed freely without
affecting a rule that only relates roles.
"""
import ast

from .loader import norm

_cache = {}


def pat(src):
    if src not in _cache:
        _cache[src] = ast.parse(src, mode='eval').body
    return _cache[src]


def pmatch(p, node, env=None):
    """Returns the binding dict or None."""
    if isinstance(p, str):
        p = pat(p)
    env = {} if env is None else dict(env)
    return env if _m(p, node, env) else None


def _m(p, n, env):
    if isinstance(p, ast.Name) and p.id.startswith('__'):
        t = norm(n) if isinstance(n, ast.AST) else repr(n)
        if p.id in env:
            return env[p.id] == t
        env[p.id] = t
        return True
    if type(p) is not type(n):
        return False
    if isinstance(p, ast.AST):
        for f in p._fields:
            if f == 'ctx':
                continue
            if not _m(getattr(p, f, None), getattr(n, f, None), env):
                return False
        return True
    if isinstance(p, list):
        if len(p) != len(n):
            return False
        return all(_m(a, b, env) for a, b in zip(p, n))
    return p == n


def find(p, root, env=None):
    """All (node, bindings) under root matching pattern p."""
    if isinstance(p, str):
        p = pat(p)
    out = []
    for n in ast.walk(root):
        if isinstance(n, ast.expr):
            b = pmatch(p, n, env)
            if b is not None:
                out.append((n, b))
    return out
