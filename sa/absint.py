"""Syntax-directed abstract interpreter skeleton.

A Domain supplies the state operations and the transfer functions for simple
statements; this module supplies the control flow: sequencing, branches with
refinement, loops with fixpoints, break/continue/return/raise.

Statement kinds present in pytenet (measured): Assign, AugAssign, AnnAssign(0), Expr,
If, For, While, Break, Continue, Return, Raise, Assert, Pass, FunctionDef (one nested),
ClassDef (nested enums), Delete(0).  Try/With/Global/Match do not occur; meeting one
is an AnalysisError, never a silent pass.
"""
import ast

from .loader import AnalysisError


class Domain:
    """Override in engines.  States must be treated as immutable values or copied."""

    def copy(self, st):
        raise NotImplementedError

    def join(self, a, b):
        raise NotImplementedError

    def eq(self, a, b):
        return a == b

    def stmt(self, node, st):
        """Transfer for a simple statement; returns the new state (or None = unreachable)."""
        return st

    def branch(self, test, st):
        """Returns (state if test true, state if test false); None = infeasible."""
        return self.copy(st), self.copy(st)

    def loop_bind(self, node, st):
        """State at the top of a `for` body (target bound)."""
        return st

    def loop_nonempty(self, node, st):
        """True if the `for` loop certainly runs at least once."""
        return False

    def on_return(self, node, st):
        return st

    def on_raise(self, node, st):
        return st

    def widen(self, old, new, it):
        return new


class Flow:
    __slots__ = ('normal', 'brk', 'cont', 'rets', 'raises')

    def __init__(self):
        self.normal = None
        self.brk = None
        self.cont = None
        self.rets = []      # (state, ast.Return)
        self.raises = []    # (state, ast.Raise)


def _j(dom, a, b):
    if a is None:
        return b
    if b is None:
        return a
    return dom.join(a, b)


MAX_ITER = 60


class Interp:
    def __init__(self, dom):
        self.dom = dom

    def run(self, body, st):
        flow = Flow()
        out = self.block(body, st, flow)
        flow.normal = out
        return flow

    def block(self, stmts, st, flow):
        cur = st
        for s in stmts:
            if cur is None:
                break
            cur = self.stmt(s, cur, flow)
        return cur

    def stmt(self, s, st, flow):
        dom = self.dom
        if isinstance(s, ast.If):
            t, f = dom.branch(s.test, st)
            a = self.block(s.body, t, flow) if t is not None else None
            b = self.block(s.orelse, f, flow) if f is not None else None
            return _j(dom, a, b)
        if isinstance(s, ast.For):
            return self.for_loop(s, st, flow)
        if isinstance(s, ast.While):
            return self.while_loop(s, st, flow)
        if isinstance(s, ast.Break):
            flow.brk = _j(dom, flow.brk, st)
            return None
        if isinstance(s, ast.Continue):
            flow.cont = _j(dom, flow.cont, st)
            return None
        if isinstance(s, ast.Return):
            st = dom.on_return(s, st)
            if st is not None:
                flow.rets.append((st, s))
            return None
        if isinstance(s, ast.Raise):
            st = dom.on_raise(s, st)
            if st is not None:
                flow.raises.append((st, s))
            return None
        if isinstance(s, (ast.Try, ast.With, ast.Global, ast.Nonlocal, ast.AsyncFor, ast.AsyncWith)) or \
                s.__class__.__name__ in ('Match', 'TryStar'):
            raise AnalysisError(f'unsupported statement kind {s.__class__.__name__} at line {s.lineno}')
        return dom.stmt(s, st)

    def _inner(self, flow):
        f = Flow()
        f.rets = flow.rets
        f.raises = flow.raises
        return f

    def for_loop(self, s, st, flow):
        dom = self.dom
        nonempty = dom.loop_nonempty(s, st)
        head = st
        exhausted = None if nonempty else st
        brk = None
        for it in range(MAX_ITER):
            inner = self._inner(flow)
            body_in = dom.loop_bind(s, dom.copy(head))
            out = self.block(s.body, body_in, inner) if body_in is not None else None
            back = _j(dom, out, inner.cont)
            brk = _j(dom, brk, inner.brk)
            if back is None:
                break
            exhausted = _j(dom, exhausted, back)
            new_head = dom.widen(head, dom.join(head, back), it)
            if dom.eq(new_head, head):
                break
            head = new_head
        else:
            raise AnalysisError(f'loop at line {s.lineno} did not reach a fixpoint')
        after = exhausted
        if s.orelse and after is not None:
            after = self.block(s.orelse, after, flow)
        return _j(dom, after, brk)

    def while_loop(self, s, st, flow):
        dom = self.dom
        head = st
        brk = None
        exit_false = None
        for it in range(MAX_ITER):
            t, f = dom.branch(s.test, dom.copy(head))
            exit_false = _j(dom, exit_false, f)
            inner = self._inner(flow)
            out = self.block(s.body, t, inner) if t is not None else None
            back = _j(dom, out, inner.cont)
            brk = _j(dom, brk, inner.brk)
            if back is None:
                break
            new_head = dom.widen(head, dom.join(head, back), it)
            if dom.eq(new_head, head):
                break
            head = new_head
        else:
            raise AnalysisError(f'loop at line {s.lineno} did not reach a fixpoint')
        after = exit_false
        if s.orelse and after is not None:
            after = self.block(s.orelse, after, flow)
        return _j(dom, after, brk)
