"""C05 - operator chains -> graph -> MPO (structural part)."""
import ast
from ..defuse import before as _before

from ..loader import norm, AnalysisError
from ..taint import Taint
from .. import typestate as ts
from .common import where, run_id_typestate, top_level_loops, first_ref_is_load


def coeff_source(e):
    return isinstance(e, ast.Attribute) and e.attr == 'coeff' and isinstance(e.ctx, ast.Load)


def sink_exprs(stmt, tainted):
    """Coefficient-slot expressions of sinks in `stmt` (OpGraphEdge(.., .., opics) / `.opics = ...`)."""
    out = []
    for n in ast.walk(stmt):
        if isinstance(n, ast.Call) and ts.callee_name(n) == 'OpGraphEdge' and len(n.args) >= 3:
            out.append(('OpGraphEdge opics', n.args[2], n))
        if isinstance(n, ast.Assign):
            for t in n.targets:
                if isinstance(t, ast.Attribute) and t.attr == 'opics':
                    out.append(('store to .opics', n.value, n))
    return out


def names_in(e):
    return {x.id for x in ast.walk(e) if isinstance(x, ast.Name)}


def rule_R2(chk, repo, rid='C05.R2'):
    chk.rule(rid, 'no chain coefficient is dropped on the way to an edge: every coefficient-tainted '
                  'loop-carried variable of the site sweep flows, after the sweep, into the coefficient slot '
                  'of an edge (OpGraphEdge opics / store to .opics); a use inside assert/compare only is '
                  '"asserted, not placed". Inside the sweep the repartitioned coefficients reach both an edge '
                  'and the carried list.')
    fi = repo.func('opgraph.OpGraph.from_opchains')
    T = Taint(repo, fi, (), coeff_source)
    loops = [l for l in top_level_loops(fi.node) if any(sink_exprs(s, T.t) for s in l.body)]
    if not loops:
        raise AnalysisError('from_opchains: site sweep (top-level loop adding edges) not found')
    loop = loops[-1]
    idx = fi.node.body.index(loop)
    post = fi.node.body[idx + 1:]
    stored = set()
    for n in ast.walk(loop):
        if isinstance(n, ast.Name) and isinstance(n.ctx, ast.Store):
            stored.add(n.id)
    carried = sorted(v for v in stored if v in T.t and first_ref_is_load(v, loop.body))
    if not carried:
        raise AnalysisError('from_opchains: no coefficient-carrying loop variable found (source `.coeff` vanished?)')
    n_ob = 0
    for v in carried:
        # forward slice of v through the statements after the sweep
        S = {v}
        placed, asserted, other = [], [], []
        for s in post:
            if isinstance(s, ast.Assert):
                if names_in(s.test) & S:
                    asserted.append(s)
                continue
            for kind, e, node in sink_exprs(s, None):
                if names_in(e) & S:
                    placed.append((kind, node))
            for n in ast.walk(s):
                if isinstance(n, ast.Assign) and names_in(n.value) & S:
                    for t in n.targets:
                        for x in ast.walk(t):
                            if isinstance(x, ast.Name) and isinstance(x.ctx, ast.Store):
                                S.add(x.id)
                if isinstance(n, (ast.For, ast.comprehension)) and names_in(n.iter) & S:
                    for x in ast.walk(n.target):
                        if isinstance(x, ast.Name):
                            S.add(x.id)
        ok = bool(placed)
        # a placement through `.opics = ...` must address the edges ENTERING the node that becomes the end terminal
        term = [n_ for s_ in post for n_ in ast.walk(s_) if isinstance(n_, ast.Assign) and
                norm(n_.targets[0]).endswith('nid_terminal[1]')]
        for kind, node in placed:
            if kind != 'store to .opics':
                continue
            from ..defuse import enclosing_loops
            from ..match import pmatch
            loops_ = [l for l in enclosing_loops(fi.node, node) if isinstance(l, ast.For)]
            b = pmatch('__G.nodes[__N].eids[__D]', loops_[-1].iter) if loops_ else None
            good = b is not None and b['__D'] == '0' and len(term) == 1 and b['__N'] == norm(term[0].value)
            chk.ob(rid, where(repo, fi, node), f'pending coefficient of `{v}` is put on the edges entering the end node',
                   good, f'loop over `{norm(loops_[-1].iter) if loops_ else None}`, end node '
                         f'`{norm(term[0].value) if term else None}`', key=f'{rid}|{fi.qual}|{v}|in-edges')
            n_ob += 1
        if ok:
            detail = f'pending coefficients in `{v}` are placed after the sweep by: ' + \
                     '; '.join(f'{k} at line {n.lineno}' for k, n in placed)
        elif asserted:
            detail = (f'`{v}` carries coefficients out of the sweep but is only asserted '
                      f'(`{norm(asserted[0])[:60]}`), never placed on an edge')
        else:
            detail = f'`{v}` carries coefficients out of the sweep and is never used afterwards'
        chk.ob(rid, where(repo, fi, loop), f'pending coefficient variable `{v}` reaches an edge after the sweep',
               ok, detail, key=f'{rid}|{fi.qual}|{v}')
        n_ob += 1
    # inside the sweep: coefficient values produced by the repartition reach an edge and the carried list
    produced = sorted(v for v in stored if v in T.t and v not in carried)
    for v in produced:
        to_sink = any(names_in(e) & {v} for s in loop.body for _, e, _ in sink_exprs(s, None))
        to_carry = False
        for n in ast.walk(loop):
            if isinstance(n, ast.Call) and isinstance(n.func, ast.Attribute) and n.func.attr in ('append', 'extend') \
                    and isinstance(n.func.value, ast.Name) and n.func.value.id in carried and \
                    any(names_in(a) & {v} for a in n.args):
                to_carry = True
        direct_source = any(isinstance(n, ast.Assign) and isinstance(n.value, ast.Call) and
                            any(isinstance(x, ast.Name) and x.id == v for t in n.targets for x in ast.walk(t))
                            for n in ast.walk(loop))
        if not direct_source:
            continue
        chk.ob(rid, where(repo, fi, loop), f'repartitioned coefficients `{v}` reach an edge inside the sweep',
               to_sink, '' if to_sink else f'`{v}` never appears in the coefficient slot of an edge',
               key=f'{rid}|{fi.qual}|{v}->edge')
        chk.ob(rid, where(repo, fi, loop), f'repartitioned coefficients `{v}` are forwarded to the next site',
               to_carry, '' if to_carry else f'`{v}` is never appended to a carried coefficient list',
               key=f'{rid}|{fi.qual}|{v}->carry')
        n_ob += 2
    # the repartition helper returns the coefficients it was given (per-index summary)
    part = repo.func('opgraph._site_partition_halfchains')
    sub = Taint(repo, part, ['coeffs'], None)
    rt = sub.return_taint()
    ok = isinstance(rt, tuple) and len(rt) == 4 and rt[3] and not rt[0]
    chk.ob(rid, where(repo, part, part.node), '_site_partition_halfchains returns the coefficients in its 4th result',
           ok, f'per-index taint of the result for tainted `coeffs`: {rt}', key=f'{rid}|{part.qual}|return')
    # both branches of the duplicate test keep the coefficient
    chk.floor(rid, n_ob + 1, 4)


def rule_R3(chk, repo, rid='C05.R3'):
    """from_opgraph: one ordering of the next layer serves labels, nid_map, columns and next rows."""
    chk.rule(rid, 'MPO.from_opgraph: the bond labels (qD.append), the node map (nid_map[nid] = (l, i)), the '
                  'column index (nids1.index) and the next layer rows (nids0 = nids1) are all reached by the '
                  'same definition of the layer ordering; the layer counter advances once per appended layer; '
                  'the start node sits at (0, 0).')
    fi = repo.func('mpo.MPO.from_opgraph')
    # roles: the label list is the 2nd argument of the constructor call, the node map is what is stored as .nid_map
    import copy as _copy
    from ..canon import _Ren, CanonFunc
    ren = {}
    for n_ in ast.walk(fi.node):
        if isinstance(n_, ast.Call) and norm(n_.func) == 'cls' and len(n_.args) >= 2 and isinstance(n_.args[1], ast.Name):
            if n_.args[1].id != 'qD':
                ren[n_.args[1].id] = 'qD'
        if isinstance(n_, ast.Assign) and isinstance(n_.targets[0], ast.Attribute) and n_.targets[0].attr == 'nid_map' and \
                isinstance(n_.value, ast.Name) and n_.value.id != 'nid_map':
            ren[n_.value.id] = 'nid_map'
    if ren:
        fi = CanonFunc(fi, _Ren(ren).visit(_copy.deepcopy(fi.node)), ren)
    loop = None
    for s in fi.node.body:
        if isinstance(s, ast.While):
            loop = s
    if loop is None:
        raise AnalysisError('from_opgraph: layer loop not found')
    # a position table of the layer, `P = {x: j for j, x in enumerate(LAYER)}`, is the layer ordering held in another form:
    # `P[e]` is the column `LAYER.index(e)` and `for x, j in P.items()` enumerates the layer (dicts keep insertion order);
    # the table's definition is itself a consumer of the ordering (positions taken there are the ones used later)
    posdict = {}
    for n in ast.walk(loop):
        if isinstance(n, ast.Assign) and len(n.targets) == 1 and isinstance(n.targets[0], ast.Name) and \
                isinstance(n.value, ast.DictComp) and len(n.value.generators) == 1 and not n.value.generators[0].ifs:
            g_ = n.value.generators[0]
            if isinstance(g_.iter, ast.Call) and norm(g_.iter.func) == 'enumerate' and len(g_.iter.args) == 1 and \
                    isinstance(g_.iter.args[0], ast.Name) and isinstance(g_.target, ast.Tuple) and len(g_.target.elts) == 2 and \
                    norm(g_.target.elts[0]) == norm(n.value.value) and norm(g_.target.elts[1]) == norm(n.value.key) and \
                    sum(1 for m in ast.walk(fi.node) if isinstance(m, ast.Name) and m.id == n.targets[0].id and
                        isinstance(m.ctx, ast.Store)) == 1:
                posdict[n.targets[0].id] = (g_.iter.args[0].id, n)
    if posdict:
        class _View(ast.NodeTransformer):
            def visit_Subscript(self, node):
                self.generic_visit(node)
                if isinstance(node.value, ast.Name) and node.value.id in posdict and isinstance(node.ctx, ast.Load):
                    c_ = ast.Call(func=ast.Attribute(value=ast.Name(id=posdict[node.value.id][0], ctx=ast.Load()), attr='index',
                                                     ctx=ast.Load()), args=[node.slice], keywords=[])
                    return ast.fix_missing_locations(ast.copy_location(c_, node))
                return node

            def visit_For(self, node):
                self.generic_visit(node)
                it = node.iter
                if isinstance(it, ast.Call) and isinstance(it.func, ast.Attribute) and it.func.attr == 'items' and not it.args and \
                        isinstance(it.func.value, ast.Name) and it.func.value.id in posdict and \
                        isinstance(node.target, ast.Tuple) and len(node.target.elts) == 2:
                    node.target = ast.Tuple(elts=[node.target.elts[1], node.target.elts[0]], ctx=ast.Store())
                    node.iter = ast.Call(func=ast.Name(id='enumerate', ctx=ast.Load()),
                                         args=[ast.Name(id=posdict[it.func.value.id][0], ctx=ast.Load())], keywords=[])
                    ast.fix_missing_locations(node)
                return node
        node2 = _View().visit(_copy.deepcopy(fi.node))
        fi = CanonFunc(fi, node2, dict(ren))
        loop = [s for s in fi.node.body if isinstance(s, ast.While)][-1]
        posdefs = {k_: v_[0] for k_, v_ in posdict.items()}
    else:
        posdefs = {}
    # find the layer variable: the name passed to .index(...) to compute a column
    layer = None
    for n in ast.walk(loop):
        if isinstance(n, ast.Call) and isinstance(n.func, ast.Attribute) and n.func.attr == 'index' and \
                isinstance(n.func.value, ast.Name):
            layer = n.func.value.id
    via_map = False
    if layer is None:
        # columns read back from the node map itself (`_, j = nid_map[edge.nids[1]]`): the map recorded by enumerating the
        # layer IS the position table of the layer
        for n in ast.walk(loop):
            if isinstance(n, ast.For) and isinstance(n.iter, ast.Call) and norm(n.iter.func) == 'enumerate' and \
                    len(n.iter.args) == 1 and isinstance(n.iter.args[0], ast.Name) and \
                    any(isinstance(x, ast.Subscript) and norm(x.value) == 'nid_map' and isinstance(x.ctx, ast.Store)
                        for x in ast.walk(n)) and \
                    any(isinstance(x, ast.Subscript) and norm(x.value) == 'nid_map' and isinstance(x.ctx, ast.Load)
                        for x in ast.walk(loop)):
                layer = n.iter.args[0].id
                via_map = True
    if layer is None:
        raise AnalysisError('from_opgraph: column lookup `<layer>.index(...)` not found')
    # straight-line order of top-level statements of the loop body: definitions of `layer` and consumers
    events = []   # (pos, kind, node)
    for pos, s in enumerate(loop.body):
        for n in ast.walk(s):
            if isinstance(n, ast.Assign) and any(isinstance(t, ast.Name) and t.id == layer for t in n.targets):
                events.append((pos, 'def', n))
        mut = [n for n in ast.walk(s) if isinstance(n, ast.Call) and isinstance(n.func, ast.Attribute) and
               isinstance(n.func.value, ast.Name) and n.func.value.id == layer and
               n.func.attr in ('append', 'sort', 'reverse', 'insert', 'remove', 'pop', 'extend')]
        for n in mut:
            events.append((pos, 'mut', n))
        for n in ast.walk(s):
            if isinstance(n, ast.Call) and isinstance(n.func, ast.Attribute) and n.func.attr == 'append' and \
                    norm(n.func.value) == 'qD' and layer in {x.id for x in ast.walk(n) if isinstance(x, ast.Name)}:
                events.append((pos, 'use:labels', n))
            if isinstance(n, ast.For) and isinstance(n.iter, ast.Call) and norm(n.iter.func) == 'enumerate' and \
                    n.iter.args and norm(n.iter.args[0]) == layer:
                if any(isinstance(x, ast.Subscript) and norm(x.value) == 'nid_map' for x in ast.walk(n)):
                    events.append((pos, 'use:nid_map', n))
            if isinstance(n, ast.Call) and isinstance(n.func, ast.Attribute) and n.func.attr == 'index' and \
                    norm(n.func.value) == layer:
                events.append((pos, 'use:column', n))
            if via_map and isinstance(n, ast.Subscript) and norm(n.value) == 'nid_map' and isinstance(n.ctx, ast.Load):
                events.append((pos, 'use:column', n))
            if isinstance(n, ast.Assign) and isinstance(n.targets[0], ast.Name) and posdefs.get(n.targets[0].id) == layer and \
                    isinstance(n.value, ast.DictComp):
                events.append((pos, 'use:positions', n))
            if isinstance(n, ast.Assign) and isinstance(n.value, ast.Name) and n.value.id == layer and \
                    any(isinstance(t, ast.Name) for t in n.targets):
                events.append((pos, 'use:next_rows', n))
            if isinstance(n, ast.Call) and norm(n.func) == 'np.zeros' and \
                    layer in {x.id for x in ast.walk(n) if isinstance(x, ast.Name)}:
                events.append((pos, 'use:shape', n))
    uses = [e for e in events if e[1].startswith('use:')]
    kinds = {e[1] for e in uses}
    need = {'use:labels', 'use:nid_map', 'use:column', 'use:next_rows', 'use:shape'}
    if need - kinds == {'use:nid_map'}:
        # the node map is still written inside the layer loop, but not by enumerating the new layer: positions recorded
        # from any other sequence are not the bond indices of the layer that was just labelled (and the last layer is
        # never recorded when the loop ends on an empty next layer)
        stores = [n for n in ast.walk(loop) if isinstance(n, ast.Assign) and
                  any(isinstance(t, ast.Subscript) and norm(t.value) == 'nid_map' for t in n.targets)]
        if stores:
            chk.ob(rid, where(repo, fi, stores[0]), f'the node map is recorded by enumerating the new layer `{layer}` (the list whose '
                   f'order defines labels and columns)', False, f'`{norm(stores[0])[:70]}` is not inside `for i, nid in '
                   f'enumerate({layer})`', key=f'{rid}|{fi.qual}|nid-map-enumerates-layer')
            return
    if not need <= kinds:
        raise AnalysisError(f'from_opgraph: consumers of the layer ordering not all found: missing {sorted(need - kinds)}')
    first_use = min(e[0] for e in uses)
    last_change = max([e[0] for e in events if e[1] in ('def', 'mut')] or [-1])
    ok = last_change < first_use
    bad = [e for e in events if e[1] in ('def', 'mut') and e[0] >= first_use]
    chk.ob(rid, where(repo, fi, loop), f'single ordering of `{layer}` for labels / nid_map / columns / next rows',
           ok, '' if ok else f'`{norm(bad[0][2])[:70]}` (line {bad[0][2].lineno}) changes the ordering after it '
                              f'was first consumed at line {uses[0][2].lineno}',
           key=f'{rid}|{fi.qual}|single-ordering')
    for e in uses:
        chk.ob(rid, where(repo, fi, e[2]), f'{e[1][4:]} consumer reads the final ordering', e[0] > last_change or ok,
               '', key=f'{rid}|{fi.qual}|{e[1]}|{norm(e[2])[:60]}')
    # counter coupling: `l` advances exactly once per appended layer, after its use
    lvar = None
    store = None
    for n in ast.walk(loop):
        if isinstance(n, ast.Assign) and any(isinstance(t, ast.Subscript) and norm(t.value) == 'nid_map'
                                             for t in n.targets) and isinstance(n.value, ast.Tuple):
            store = n
            second = n.value.elts[1]
            if isinstance(n.value.elts[0], ast.Name):
                lvar = n.value.elts[0].id
    if store is None:
        raise AnalysisError('from_opgraph: nid_map store `(bond, index)` not found')
    if lvar is not None:
        # the bond variable may itself be defined from the length of the label list inside the layer loop
        ldefs = [n for n in ast.walk(loop) if isinstance(n, ast.Assign) and len(n.targets) == 1 and
                 norm(n.targets[0]) == lvar]
        incs_ = [n for n in ast.walk(loop) if isinstance(n, ast.AugAssign) and norm(n.target) == lvar]
        if len(ldefs) == 1 and not incs_ and 'len(' in norm(ldefs[0].value):
            import copy as _c
            store = _c.deepcopy(store)
            store.value.elts[0] = _c.deepcopy(ldefs[0].value)
            ast.copy_location(store, ldefs[0])
            ast.fix_missing_locations(store)
            # position of the definition decides how many appends precede it
            store._pos_stmt = ldefs[0]
            lvar = None
    if lvar is None:
        # bond index written as len(<list>) + c: the list must grow once per layer; the value must be the layer index
        from ..affine import try_affine
        first = store.value.elts[0]
        a = try_affine(first)
        lens = [s_ for s_ in (a.syms() if a is not None else []) if s_.startswith('len(')]
        ok_b, detail = False, f'`{norm(first)}` is not of the form len(<list>) + c'
        if a is not None and len(lens) == 1 and a.coeff(lens[0]) == 1 and a.syms() == {lens[0]}:
            X = lens[0][4:-1]
            def appends(stmts):
                return [c_ for s_ in stmts for c_ in ast.walk(s_) if isinstance(c_, ast.Call) and
                        isinstance(c_.func, ast.Attribute) and c_.func.attr == 'append' and norm(c_.func.value) == X]
            before_loop = [s_ for s_ in fi.node.body if _before(fi.node, s_, loop)]
            n0 = len(appends(before_loop))
            for s_ in before_loop:
                if isinstance(s_, ast.Assign) and norm(s_.targets[0]) == X and isinstance(s_.value, ast.List):
                    n0 += len(s_.value.elts)
            anchor = getattr(store, '_pos_stmt', store)
            pos_store = [k_ for k_, s_ in enumerate(loop.body) if any(x is anchor for x in ast.walk(s_))][0]
            in_loop = appends(loop.body)
            k_before = len(appends(loop.body[:pos_store]))
            want = 1 - n0 - k_before
            ok_b = len(in_loop) == 1 and a.c == want
            detail = (f'`{norm(first)}`: `{X}` has {n0} element(s) before the loop and grows {len(in_loop)}x per layer '
                      f'({k_before} before the store); the layer index needs the offset {want:+d}')
        chk.ob(rid, where(repo, fi, store), 'nid_map records the bond index of the layer (first layer after the start node is '
               'bond 1)', ok_b, detail, key=f'{rid}|{fi.qual}|bond-index')
        start_sub = any(isinstance(n_, ast.Assign) and any(isinstance(t, ast.Subscript) and norm(t.value) == 'nid_map' and
                        'nid_terminal[0]' in norm(t.slice) for t in n_.targets) and norm(n_.value) == '(0, 0)'
                        for n_ in ast.walk(fi.node))
        start_lit = any(isinstance(n_, ast.Assign) and norm(n_.targets[0]) == 'nid_map' and isinstance(n_.value, ast.Dict) and
                        len(n_.value.keys) == 1 and 'nid_terminal[0]' in norm(n_.value.keys[0]) and
                        norm(n_.value.values[0]) == '(0, 0)' for n_ in ast.walk(fi.node))
        chk.ob(rid, where(repo, fi, fi.node), 'start node is mapped to (0, 0)', start_sub or start_lit, '',
               key=f'{rid}|{fi.qual}|start')
        chk.floor(rid, len(uses), 5)
        return
    incs = [(pos, n) for pos, s in enumerate(loop.body) for n in ast.walk(s)
            if isinstance(n, ast.AugAssign) and isinstance(n.target, ast.Name) and n.target.id == lvar]
    use_pos = [e[0] for e in uses if e[1] == 'use:nid_map']
    app_pos = [e[0] for e in uses if e[1] == 'use:labels']
    ok = len(incs) == 1 and isinstance(incs[0][1].op, ast.Add) and ts.literal_int(incs[0][1].value) == 1 \
        and incs[0][0] > max(use_pos) and len(app_pos) == 1
    chk.ob(rid, where(repo, fi, loop), f'layer counter `{lvar}` advances once per appended layer, after its use',
           ok, '' if ok else f'found {len(incs)} increments of `{lvar}`', key=f'{rid}|{fi.qual}|counter')
    # the increment must not be skippable: not under a condition other than compute_nid_map and not after break/continue
    inc_stmt = loop.body[incs[0][0]] if incs else None
    guarded_ok = inc_stmt is not None and (isinstance(inc_stmt, ast.AugAssign) or (
        isinstance(inc_stmt, ast.If) and norm(inc_stmt.test) == 'compute_nid_map'))
    chk.ob(rid, where(repo, fi, inc_stmt or loop), 'counter increment is unconditional within a layer', guarded_ok,
           '', key=f'{rid}|{fi.qual}|counter-guard')
    # initial values: l = 1 before the loop and the start node at (0, 0); index variable of enumerate stored
    init_ok = False
    start_ok = False
    for n in ast.walk(fi.node):
        if isinstance(n, ast.Assign) and any(isinstance(t, ast.Name) and t.id == lvar for t in n.targets) and \
                ts.literal_int(n.value) == 1 and _before(fi.node, n, loop):
            init_ok = True
        if isinstance(n, ast.Assign) and any(isinstance(t, ast.Subscript) and norm(t.value) == 'nid_map' and
                                             'nid_terminal[0]' in norm(t.slice) for t in n.targets):
            start_ok = norm(n.value) == '(0, 0)'
        if isinstance(n, ast.Assign) and norm(n.targets[0]) == 'nid_map' and isinstance(n.value, ast.Dict) and \
                len(n.value.keys) == 1 and n.value.keys[0] is not None and 'nid_terminal[0]' in norm(n.value.keys[0]) and \
                _before(fi.node, n, loop):
            # the table is created holding the start node
            start_ok = norm(n.value.values[0]) == '(0, 0)'
    chk.ob(rid, where(repo, fi, fi.node), f'`{lvar}` starts at 1 (bond 0 holds the start node)', init_ok, '',
           key=f'{rid}|{fi.qual}|counter-init')
    chk.ob(rid, where(repo, fi, fi.node), 'start node is mapped to (0, 0)', start_ok, '',
           key=f'{rid}|{fi.qual}|start')
    # the stored index is the enumerate index over the same ordering
    en = [e[2] for e in uses if e[1] == 'use:nid_map'][0]
    idx_ok = isinstance(en.target, ast.Tuple) and isinstance(second, ast.Name) and \
        isinstance(en.target.elts[0], ast.Name) and en.target.elts[0].id == second.id
    chk.ob(rid, where(repo, fi, en), 'nid_map stores the enumerate position of the node in the ordering', idx_ok, '',
           key=f'{rid}|{fi.qual}|nid_map-index')
    # labels are the quantum numbers of the nodes in that order
    lab = [e[2] for e in uses if e[1] == 'use:labels'][0]
    a = lab.args[0] if lab.args else None
    lab_ok = isinstance(a, ast.ListComp) and len(a.generators) == 1 and norm(a.generators[0].iter) == layer and \
        norm(a.elt).endswith('.qnum') and not a.generators[0].ifs
    chk.ob(rid, where(repo, fi, lab), 'bond labels are the node quantum numbers in layer order', lab_ok,
           '' if lab_ok else f'`{norm(lab)[:80]}`', key=f'{rid}|{fi.qual}|labels-form')
    chk.floor(rid, len(uses), 5)


def rule_R4(chk, repo, rid='C05.R4'):
    """OpChain.padded, by partial evaluation with a symbolic chain (sa/peval.py): the method is run for a chain of n
    operators starting at site s; the lists of the returned chain are sequences of segments (count, element)."""
    chk.rule(rid, 'OpChain.padded: operator list = istart identities + oids + npad identities with '
                  'npad = length - len(oids) - istart; quantum-number list padded by the same counts with 0; '
                  'coefficient passed through unchanged; new start site 0 (decided on the partially evaluated method, for '
                  'every path through it).')
    from .. import peval as pe
    from ..optable import FoldError
    from ..affine import Affine
    fi = repo.func('opchain.OpChain.padded')
    n_, s_ = Affine.sym('n'), Affine.sym('s')
    one, zero = Affine.const(1), Affine.const(0)

    def make_args():
        me = pe.Obj('OpChain', oids=pe.SymSeq([pe.Gen('_o', zero, n_ - one, [pe.Opaque('self.oids[_o]')])]),
                    qnums=pe.SymSeq([pe.Gen('_q', zero, n_, [pe.Opaque('self.qnums[_q]')])]),
                    coeff=pe.Sym(Affine.sym('self.coeff')), istart=pe.Sym(s_))
        return [me, pe.Sym(Affine.sym(fi.params[1])), pe.Sym(Affine.sym(fi.params[2]))]
    try:
        runs = pe.evaluate_call(repo, fi, make_args)
    except FoldError as ex:
        raise AnalysisError(f'OpChain.padded: outside the vocabulary of the partial evaluator: {ex}')
    Ls = Affine.sym(fi.params[1])
    ident = fi.params[2]
    many = len(runs) > 1
    nob = 0
    for run, res in runs:
        lab = '' if not many else ' [' + ', '.join(f'{"" if o else "not "}({k})' for k, o, _ in run.path) + ']'
        w = where(repo, fi, fi.node)
        if isinstance(res, pe.Obj) and res.kind == 'raise':
            continue
        if not (isinstance(res, pe.Obj) and res.kind == 'OpChain'):
            chk.ob(rid, w, f'padded{lab}: returns a new OpChain', False, f'{res!r}', key=f'{rid}|{fi.qual}|returns{lab}')
            nob += 1
            continue
        # equalities of the path condition: used to drop segments that are empty on this path
        eqs = [d for k, o, f_ in run.path if f_ is not None for d, op in [f_] if (op == '==' and o) or (op == '!=' and not o)]

        def reduce(a):
            # eliminate one symbol per equality (triangular substitution), then normalise a
            sub = []
            rest = list(eqs)
            for d in rest:
                for sy, val in sub:
                    d = d.subst(sy, val)
                for sy in sorted(d.syms()):
                    if d.coeff(sy) in (1, -1):
                        val = (Affine.sym(sy).scale(d.coeff(sy)) - d).scale(1 / d.coeff(sy))
                        sub = [(s2, v2.subst(sy, val)) for s2, v2 in sub] + [(sy, val)]
                        break
            for sy, val in sub:
                a = a.subst(sy, val)
            return a

        def segs(v):
            v = pe.symview(v)
            out = []
            for sg in (v.segs if isinstance(v, pe.SymSeq) else list(v)):
                if isinstance(sg, pe.Gen):
                    cnt = reduce(sg.hi - sg.lo + one)
                    for e in sg.elts:
                        kind = 'own' if isinstance(e, pe.Opaque) and e.text.startswith('self.') else \
                            (f'{e.a}' if isinstance(e, pe.Sym) else repr(e))
                        out.append((cnt, kind))
                else:
                    out.append((one, repr(sg)))
            return [(c, k) for c, k in out if not (c.is_const() and c.c == 0)]

        def expect(fill, own_count):
            return [(c, k) for c, k in ((reduce(s_), fill), (reduce(own_count), 'own'), (reduce(Ls - n_ - s_), fill))
                    if not (c.is_const() and c.c == 0)]
        try:
            so, sq = segs(res.f.get('oids')), segs(res.f.get('qnums'))
        except (AttributeError, TypeError):
            raise AnalysisError('OpChain.padded: lists of the returned chain not understood')
        show = lambda sg: [(str(c), k) for c, k in sg]
        chk.ob(rid, w, f'padded{lab}: operators are s identities, the n chain operators, length - n - s identities', so == expect(ident, n_),
               f'{show(so)}', key=f'{rid}|{fi.qual}|oids{lab}')
        chk.ob(rid, w, f'padded{lab}: quantum numbers are s zeros, the n + 1 chain quantum numbers, length - n - s zeros',
               sq == expect('0', n_ + one), f'{show(sq)}', key=f'{rid}|{fi.qual}|qnums{lab}')
        c_ = res.f.get('coeff')
        chk.ob(rid, w, f'padded{lab}: coefficient passed through unchanged', isinstance(c_, pe.Sym) and c_.a == Affine.sym('self.coeff'),
               f'{c_!r}', key=f'{rid}|{fi.qual}|coeff{lab}')
        chk.ob(rid, w, f'padded{lab}: padded chain starts at site 0', res.f.get('istart') == 0, f'{res.f.get("istart")!r}',
               key=f'{rid}|{fi.qual}|istart{lab}')
        nob += 4
    chk.floor(rid, nob, 4)


def run(chk, repo, tier):
    chk.rule('C05.R1', 'id allocation typestate in OpGraph.from_opchains: every node/edge id handed to a '
                       'constructor is fresh on every path; literal ids are pairwise distinct and below the '
                       'counter start.')
    run_id_typestate(chk, repo, 'C05.R1', [repo.func('opgraph.OpGraph.from_opchains')], 6)
    rule_R2(chk, repo)
    rule_R3(chk, repo)
    rule_R4(chk, repo)
    rule_R5(chk, repo)
    rule_R6(chk, repo)
    rule_R7(chk, repo)
    from . import support
    support.storage_type_rules(chk, repo, 'C05.R8', {'opgraph', 'opchain', 'mpo'},
                               only={q for q in repo.funcs if not q.startswith('mpo.') or q == 'mpo.MPO.from_opgraph'})
    support.graph_table_rules(chk, repo, 'C05.R9', ('OpGraph',))
    chk.undecided += ['equality of the compiled graph/MPO with the sum of padded chains as operators '
                      '(needs the invariant of the bipartite repartition, not a code shape)',
                      'that accumulation in the gamma dictionary is complete (decided: the accumulate / initialise idiom)']
    chk.trust('Python semantics of list/tuple operations; ast of /repo/pytenet')
    return ('Static rules over opgraph.OpGraph.from_opchains, opgraph._site_partition_halfchains, '
            'mpo.MPO.from_opgraph and opchain.OpChain.padded: id typestate (path-sensitive), coefficient taint '
            '(no dropped coefficient), single-ordering def-use rule, list-length algebra.  Decides the named '
            'structural clauses only, not operator equality.',
            'rule instances are syntactic sites (allocation sites, tainted variables, consumers of the layer '
            'ordering, list-length equations); distinct = distinct keys (rule|function|construct)')


def rule_R5(chk, repo, rid='C05.R5'):
    """accumulation idioms: repeated chains / parallel edges / repeated operators add up, they do not overwrite"""
    chk.rule(rid, 'accumulation: a repeated (U, V) pair adds its coefficient to gamma (the first occurrence initialises it); '
                  'MPO.from_opgraph adds the operators of parallel edges into the same tensor block; OpGraphEdge merges '
                  'repeated operator ids by adding their coefficients; equality and hash of half-chains use the same fields')
    n = 0
    fi = repo.func('opgraph._site_partition_halfchains')
    T = Taint(repo, fi, ['coeffs'], None)
    rt = [r_ for r_ in ast.walk(fi.node) if isinstance(r_, ast.Return) and isinstance(r_.value, ast.Tuple) and
          len(r_.value.elts) == 4]
    ename = norm(rt[0].value.elts[2]) if rt else 'edges'
    dup = [s for s in ast.walk(fi.node) if isinstance(s, ast.If) and isinstance(s.test, ast.Compare) and
           isinstance(s.test.ops[0], ast.In) and norm(s.test.comparators[0]) == ename]
    ok = False
    detail = 'duplicate test `edge in edges` not found'
    if len(dup) == 1:
        t, f = dup[0].body, dup[0].orelse
        acc = [x for x in t if isinstance(x, ast.AugAssign) and isinstance(x.op, ast.Add) and
               isinstance(x.target, ast.Subscript) and T.expr_tainted(x.value)]
        ini = [x for x in f if isinstance(x, ast.Assign) and isinstance(x.targets[0], ast.Subscript) and
               T.expr_tainted(x.value)]
        reg = [x for x in ast.walk(ast.Module(body=f, type_ignores=[])) if isinstance(x, ast.Call) and
               isinstance(x.func, ast.Attribute) and x.func.attr == 'append' and norm(x.func.value) == ename]
        same = bool(acc) and bool(ini) and norm(acc[0].target) == norm(ini[0].targets[0])
        ok = same and bool(reg)
        detail = f'duplicate branch: {[norm(x) for x in t][:2]}; first occurrence: {[norm(x) for x in f][:3]}'
    chk.ob(rid, where(repo, fi, dup[0] if dup else fi.node), '_site_partition_halfchains: a repeated pair accumulates its '
           'coefficient, the first occurrence registers the edge and initialises it', ok, detail, key=f'{rid}|gamma')
    n += 1
    fi = repo.func('mpo.MPO.from_opgraph')
    st = [s for s in ast.walk(fi.node) if isinstance(s, (ast.Assign, ast.AugAssign)) and
          isinstance((s.targets[0] if isinstance(s, ast.Assign) else s.target), ast.Subscript) and
          'opmap' in norm(s.value)]
    ok = len(st) == 1 and isinstance(st[0], ast.AugAssign) and isinstance(st[0].op, ast.Add)
    chk.ob(rid, where(repo, fi, st[0] if st else fi.node), 'from_opgraph: operators of parallel edges are added into the tensor '
           'block (not overwritten)', ok, norm(st[0])[:90] if st else 'store not found', key=f'{rid}|parallel-edges')
    n += 1
    if st:
        v = st[0].value
        b = None
        from ..match import pmatch
        b = pmatch('sum((__c * opmap[__i] for __i, __c in __e.opics))', v) or \
            pmatch('sum((opmap[__i] * __c for __i, __c in __e.opics))', v)
        chk.ob(rid, where(repo, fi, st[0]), 'from_opgraph: the block is the coefficient-weighted sum of the edge operators', b is not None,
               norm(v)[:80], key=f'{rid}|weighted-sum')
        n += 1
    # the two places where an edge sums coefficients of repeated operator ids: the path-partitioned exactly-once rule (list
    # idiom) or the symbolic two-state rule (dict idiom) of C16.R6, evaluated under this rule id
    from .C16 import rule_R6 as edge_sum_rule
    for q in ('opgraph.OpGraphEdge.__init__', 'opgraph.OpGraphEdge.add'):
        n += edge_sum_rule(chk, repo, rid, q, declare=False)
        fi = repo.func(q)
        srt = [s for s in ast.walk(fi.node) if isinstance(s, ast.Assign) and norm(s.targets[0]) == 'self.opics' and
               isinstance(s.value, ast.Call) and norm(s.value.func) == 'sorted']
        # ... or sorted in place as the last statement of the method
        last = [b_ for b_ in fi.node.body if not (isinstance(b_, ast.Expr) and isinstance(b_.value, ast.Constant))][-1:]
        srt += [b_ for b_ in last if isinstance(b_, ast.Expr) and isinstance(b_.value, ast.Call) and
                norm(b_.value.func) == 'self.opics.sort' and not b_.value.args and not b_.value.keywords]
        chk.ob(rid, where(repo, fi, fi.node), f'{fi.name.strip("_")} of OpGraphEdge: the list of (id, coefficient) pairs is stored sorted',
               len(srt) == 1, '', key=f'{rid}|{q}|sorted')
        n += 1
    ci = repo.cls('OpHalfchain')
    init_fields = sorted({t.attr for s in ast.walk(ci.methods['__init__'].node) if isinstance(s, ast.Assign)
                          for t in s.targets if isinstance(t, ast.Attribute) and norm(t.value) == 'self'})
    eq_fields = sorted({a.attr for a in ast.walk(ci.methods['__eq__'].node) if isinstance(a, ast.Attribute) and
                        norm(a.value) == 'self'})
    hash_fields = sorted({a.attr for a in ast.walk(ci.methods['__hash__'].node) if isinstance(a, ast.Attribute) and
                          norm(a.value) == 'self'})
    chk.ob(rid, where(repo, ci.methods['__eq__'], ci.methods['__eq__'].node), 'OpHalfchain: equality and hash use all and the same '
           'fields (set lookup and list lookup agree)', init_fields == eq_fields == hash_fields,
           f'fields {init_fields}; compared {eq_fields}; hashed {hash_fields}', key=f'{rid}|halfchain-eq-hash')
    cu = repo.cls('UNode')
    uf = sorted({t.attr for s in ast.walk(cu.methods['__init__'].node) if isinstance(s, ast.Assign)
                 for t in s.targets if isinstance(t, ast.Attribute) and norm(t.value) == 'self'})
    ue = sorted({a.attr for a in ast.walk(cu.methods['__eq__'].node) if isinstance(a, ast.Attribute) and
                 norm(a.value) == 'self'})
    chk.ob(rid, where(repo, cu.methods['__eq__'], cu.methods['__eq__'].node), 'UNode: equality compares every field (operator, both '
           'quantum numbers, left node)', uf == ue, f'fields {uf}; compared {ue}', key=f'{rid}|unode-eq')
    chk.floor(rid, n + 2, 7)


def rule_R6(chk, repo, rid='C05.R6'):
    """lists that a callee walks in lockstep (zip over two of its parameters) are built in lockstep by the caller"""
    chk.rule(rid, 'co-indexed lists: two lists that a callee walks with zip(p, q) over its parameters are built in lockstep by '
                  'the caller - initialised by comprehensions over the same sequence (same filter, the sequence not rebound in '
                  'between), reset together, and extended by one element each in the same statement block (so that the k-th '
                  'half-chain always meets the k-th coefficient)')
    # discover the parallel parameter pairs
    pairs = {}
    for q, fi in sorted(repo.funcs.items()):
        for c in ast.walk(fi.node):
            if isinstance(c, ast.Call) and norm(c.func) == 'zip' and len(c.args) >= 2 and \
                    all(isinstance(a, ast.Name) and a.id in fi.params for a in c.args):
                pairs[fi.name] = (fi, [fi.params.index(a.id) for a in c.args])
    n = 0
    for q, fi in sorted(repo.funcs.items()):
        for c in ast.walk(fi.node):
            if not (isinstance(c, ast.Call) and isinstance(c.func, ast.Name) and c.func.id in pairs):
                continue
            callee, idxs = pairs[c.func.id]
            off = 1 if callee.cls and callee.params and callee.params[0] == 'self' else 0
            args = [c.args[i - off] for i in idxs if 0 <= i - off < len(c.args)]
            if len(args) != len(idxs) or not all(isinstance(a, ast.Name) for a in args):
                continue
            names = [a.id for a in args]
            n += lockstep(chk, repo, rid, fi, names, c)
    chk.floor(rid, n, 4, hard_min=4)
    return n


def _blocks(node):
    """all statement lists of a function"""
    for n in ast.walk(node):
        for f in ('body', 'orelse', 'finalbody'):
            b = getattr(n, f, None)
            if isinstance(b, list) and b and isinstance(b[0], ast.stmt):
                yield b


def lockstep(chk, repo, rid, fi, names, call):
    w = where(repo, fi, call)
    label = ' / '.join(f'`{x}`' for x in names)
    n = 0
    # (1) comprehensions over the same sequence
    inits = {}
    order = []
    for s in fi.node.body:
        if isinstance(s, ast.Assign) and len(s.targets) == 1 and isinstance(s.targets[0], ast.Name):
            order.append(s)
            if s.targets[0].id in names and isinstance(s.value, ast.ListComp):
                inits[s.targets[0].id] = s
    if set(inits) == set(names):
        gens = [inits[x].value.generators for x in names]
        def filt(g):
            # filters compared modulo the name of the comprehension variable
            import re
            t = norm(g.target)
            return tuple(re.sub(rf'\b{re.escape(t)}\b', '$x', norm(i)) if t.isidentifier() else norm(i) for i in g.ifs)
        same = all(len(g) == 1 for g in gens) and len({norm(g[0].iter) for g in gens}) == 1 and \
            len({filt(g[0]) for g in gens}) == 1
        src = {n_.id for g in gens for n_ in ast.walk(g[0].iter) if isinstance(n_, ast.Name)}
        lines = sorted(inits[x].lineno for x in names)
        rebound = [s for s in order if s.targets[0].id in src and lines[0] < s.lineno < lines[-1]]
        chk.ob(rid, w, f'{fi.name}: {label} are initialised by comprehensions over the same sequence with the same filter, the '
               f'sequence not rebound in between', same and not rebound,
               '; '.join(f'`{norm(inits[x])[:70]}`' for x in names) +
               (f'; `{norm(rebound[0])[:60]}` lies between them' if rebound else ''), key=f'{rid}|{fi.qual}|{"+".join(names)}|init')
        n += 1
    else:
        # the other spelling: both start empty and are filled by one loop (its block is judged below like every other)
        empties = {s.targets[0].id for s in fi.node.body if isinstance(s, ast.Assign) and len(s.targets) == 1 and
                   isinstance(s.targets[0], ast.Name) and s.targets[0].id in names and isinstance(s.value, ast.List) and
                   not s.value.elts}
        chk.ob(rid, w, f'{fi.name}: {label} are initialised together (comprehensions over one sequence, or both empty and '
               f'filled by one loop)', empties == set(names), f'comprehensions for {sorted(inits)}, empty lists for {sorted(empties)}',
               key=f'{rid}|{fi.qual}|{"+".join(names)}|init')
        n += 1
    # (2) resets and extensions per statement block
    k = 0
    for b in _blocks(fi.node):
        cnt = {x: 0 for x in names}
        rst = {x: 0 for x in names}
        for s in b:
            if isinstance(s, ast.Expr) and isinstance(s.value, ast.Call) and isinstance(s.value.func, ast.Attribute) and \
                    s.value.func.attr in ('append', 'insert', 'extend', 'pop', 'remove') and norm(s.value.func.value) in names:
                cnt[norm(s.value.func.value)] += 1 if s.value.func.attr == 'append' else 100
            if isinstance(s, ast.Assign) and len(s.targets) == 1 and norm(s.targets[0]) in names and not \
                    (b is fi.node.body and isinstance(s.value, ast.ListComp)):
                rst[norm(s.targets[0])] += 1
            if isinstance(s, ast.AugAssign) and norm(s.target) in names:
                cnt[norm(s.target)] += 100
        if any(cnt.values()) or any(rst.values()):
            k += 1
            ok = len(set(cnt.values())) == 1 and len(set(rst.values())) == 1 and max(cnt.values()) < 100
            first = next(s for s in b if any(isinstance(x, ast.Name) and x.id in names for x in ast.walk(s)))
            chk.ob(rid, where(repo, fi, first), f'{fi.name}: the block at line {b[0].lineno} extends / resets {label} together',
                   ok, f'appends {cnt}, rebindings {rst}', key=f'{rid}|{fi.qual}|{"+".join(names)}|block{k}')
            n += 1
    return n


def rule_R7(chk, repo, rid='C05.R7'):
    """the structure of the graph depends on coefficient values only through the two documented tests"""
    chk.rule(rid, 'value-independent structure: coefficient values steer the construction only where the routine documents it - '
                  'the filter of input chains with coefficient exactly 0 and the test whether a coefficient is still pending '
                  'after the sweep; no other comparison, filter or truth test in from_opchains / _site_partition_halfchains '
                  'has a coefficient-valued operand (accumulated coefficients that cancel must not change which nodes and '
                  'edges are created)')
    n = 0
    for q, params, src in (('opgraph.OpGraph.from_opchains', (), coeff_source),
                           ('opgraph._site_partition_halfchains', ['coeffs'], None)):
        fi = repo.func(q)
        T = Taint(repo, fi, params, src)
        parents = {}
        for p in ast.walk(fi.node):
            for c in ast.iter_child_nodes(p):
                parents[c] = p
        in_assert = set()
        for a in ast.walk(fi.node):
            if isinstance(a, ast.Assert):
                in_assert |= {id(x) for x in ast.walk(a)}
        tests = []
        for c in ast.walk(fi.node):
            if id(c) in in_assert:
                continue
            if isinstance(c, ast.Compare):
                ops = [c.left] + list(c.comparators)
                if any(T.expr_tainted(o) for o in ops if not isinstance(o, ast.Constant)):
                    tests.append(c)
            elif isinstance(c, (ast.If, ast.While, ast.IfExp)) and not isinstance(c.test, (ast.Compare, ast.BoolOp)) and \
                    T.expr_tainted(c.test):
                tests.append(c.test)
            elif isinstance(c, ast.comprehension):
                for i in c.ifs:
                    if not isinstance(i, ast.Compare) and T.expr_tainted(i):
                        tests.append(i)
        for t in tests:
            role = None
            if isinstance(t, ast.Compare) and len(t.ops) == 1 and isinstance(t.comparators[0], ast.Constant):
                val = t.comparators[0].value
                par = parents.get(t)
                negated = False
                if isinstance(par, ast.UnaryOp) and isinstance(par.op, ast.Not):
                    negated, par = True, parents.get(par)         # `not x == 0` is `x != 0`
                if val == 0 and isinstance(t.ops[0], ast.Eq if negated else ast.NotEq) and isinstance(par, ast.comprehension) and \
                        isinstance(par.iter, ast.Name) and par.iter.id in fi.params and \
                        norm(t.left) == f'{norm(par.target)}.coeff':
                    role = 'filter of input chains with zero coefficient'
                if val == 1.0 and isinstance(par, ast.If) and par.test is t and any(
                        isinstance(s_, ast.Assign) and isinstance(s_.targets[0], ast.Attribute) and
                        s_.targets[0].attr == 'opics' for b_ in par.body for s_ in ast.walk(b_)):
                    role = 'test for a coefficient still pending after the sweep'
            chk.ob(rid, where(repo, fi, t), f'{fi.name}: `{norm(t)[:70]}` is one of the documented value tests', role is not None,
                   role or 'a coefficient value steers which nodes / edges exist', key=f'{rid}|{q}|{norm(t)[:80]}')
            n += 1
    chk.floor(rid, n, 2, hard_min=2)
    return n
