#!/usr/bin/env python3
"""tools/patchcheck.py <patch.diff | dir with patch.diff> [Cxx ...]  - apply a patch to a scratch copy of /repo/pytenet
(no git worktree, no test run) and run the given checks (default: all) against it; prints the non-silent ones."""
import json
import os
import shutil
import subprocess
import sys
import tempfile

VERIF = os.path.dirname(os.path.dirname(os.path.abspath(__file__)))


def main():
    p = os.path.abspath(sys.argv[1])
    if os.path.isdir(p):
        p = os.path.join(p, 'patch.diff')
    props = sys.argv[2:]
    if not props:
        props = [c['property_id'] for c in json.load(open(os.path.join(VERIF, 'MANIFEST.json')))['checks']]
    d = tempfile.mkdtemp(prefix='patchcheck_')
    try:
        shutil.copytree('/repo/pytenet', os.path.join(d, 'pytenet'))
        r = subprocess.run(['git', 'apply', p], cwd=d, capture_output=True, text=True)
        if r.returncode != 0:
            print('patch does not apply:', r.stderr[-300:])
            return 2
        env = dict(os.environ, SA_REPO_ROOT=d, SA_EVIDENCE_DIR=os.path.join(d, 'ev'))
        bad = 0
        for pid in props:
            r = subprocess.run([os.path.join(VERIF, 'check'), pid], env=env, capture_output=True, text=True)
            if r.returncode != 0:
                bad += 1
                lines = [l.strip()[:300] for l in (r.stdout + r.stderr).splitlines()
                         if l.strip().startswith('violated') or 'ANALYSIS-ERROR' in l][:3]
                print(f'{pid}: exit {r.returncode}')
                for l in lines:
                    print('   ', l)
        print('silent' if not bad else f'{bad} check(s) not silent')
        return 0
    finally:
        shutil.rmtree(d, ignore_errors=True)


if __name__ == '__main__':
    sys.exit(main())
