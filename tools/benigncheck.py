#!/usr/bin/env python3
"""Run every check against a behaviour-preserving change (false-alarm test).

  tools/benigncheck.py <dir with patch.diff [+ equiv.py]> [--suite]

Creates a scratch worktree of /repo under /tmp, runs equiv.py without and with the patch (digests - the last line of
its output - must be identical), optionally the pinned test suite with the patch, then every claimed check with
SA_REPO_ROOT pointing at the patched tree.  Prints which checks do not stay silent (exit 1 = report, 2 = analysis
error).  The worktree is removed at the end; nothing is applied to /repo.
"""
import json
import os
import shutil
import subprocess
import sys
import tempfile

VERIF = os.path.dirname(os.path.dirname(os.path.abspath(__file__)))
PY = '/venv/bin/python'


def sh(cmd, cwd=None, env=None, timeout=1800):
    r = subprocess.run(cmd, cwd=cwd, env=env, capture_output=True, text=True, timeout=timeout)
    return r.returncode, (r.stdout + r.stderr)


def main():
    d = os.path.abspath(sys.argv[1])
    suite = '--suite' in sys.argv
    patch = os.path.join(d, 'patch.diff')
    equiv = os.path.join(d, 'equiv.py')
    wt = tempfile.mkdtemp(prefix='benign_')
    os.rmdir(wt)
    out = {'dir': d}
    try:
        rc, o = sh(['git', '-C', '/repo', 'worktree', 'add', '--detach', wt, 'HEAD'])
        if rc != 0:
            print(o)
            return 2
        env = dict(os.environ, PYTHONPATH=wt, PYTHONDONTWRITEBYTECODE='1', OMP_NUM_THREADS='2', OPENBLAS_NUM_THREADS='2')
        # the demos of the sub-agents insist on their own scratch worktree (<...>/out/<k>/equiv.py lives inside it): the
        # equivalence is re-run there (apply, run, undo); otherwise in the fresh worktree
        home = os.path.dirname(os.path.dirname(d))
        own = os.path.isdir(os.path.join(home, 'pytenet')) and os.path.isdir(os.path.join(home, '.git')) or \
            os.path.isfile(os.path.join(home, '.git'))
        if os.path.exists(equiv) and own:
            envh = dict(os.environ, PYTHONDONTWRITEBYTECODE='1', OMP_NUM_THREADS='2', OPENBLAS_NUM_THREADS='2')
            sh(['git', '-C', home, 'checkout', '--', 'pytenet'])
            rc0, o0 = sh([PY, equiv], cwd=home, env=envh)
            rca, oa = sh(['git', '-C', home, 'apply', patch])
            rc1, o1 = sh([PY, equiv], cwd=home, env=envh)
            sh(['git', '-C', home, 'checkout', '--', 'pytenet'])
            sh(['git', '-C', home, 'clean', '-fdq', 'pytenet'])
            import re
            last = lambda o: re.findall(r'\b[0-9a-f]{32,}\b', o)[-3:] or [l for l in o.strip().splitlines() if l.strip()][-1:]
            out['equiv_without'] = (rc0, last(o0))
            out['equiv_with'] = (rc1, last(o1))
            out['equivalent'] = rca == 0 and rc0 == 0 and rc1 == 0 and last(o0) == last(o1)
            equiv = None
        if equiv and os.path.exists(equiv):
            rc0, o0 = sh([PY, equiv], cwd=wt, env=env)
            out['equiv_without'] = (rc0, o0.strip().splitlines()[-1:] if o0.strip() else [])
        rc, o = sh(['git', '-C', wt, 'apply', patch])
        if rc != 0:
            out['apply'] = o[-300:]
            print(json.dumps(out, indent=1))
            return 2
        rc, o = sh([PY, '-m', 'compileall', '-q', os.path.join(wt, 'pytenet')], env=env)
        out['compiles'] = rc == 0
        if equiv and os.path.exists(equiv):
            rc1, o1 = sh([PY, equiv], cwd=wt, env=env)
            out['equiv_with'] = (rc1, o1.strip().splitlines()[-1:] if o1.strip() else [])
            out['equivalent'] = out['equiv_without'] == out['equiv_with'] and rc1 == 0
        if suite:
            rc, o = sh([PY, '-m', 'pytest', '-q', '-p', 'no:cacheprovider', '--timeout=900', '-x'], cwd=wt, env=env)
            out['suite_rc'] = rc
            out['suite_tail'] = o.strip().splitlines()[-1:]
        man = json.load(open(os.path.join(VERIF, 'MANIFEST.json')))
        claimed = [c['property_id'] for c in man['checks']]
        evd = tempfile.mkdtemp(prefix='benign_ev_')
        env2 = dict(os.environ, SA_REPO_ROOT=wt, SA_EVIDENCE_DIR=evd)
        res = {}
        for pid in claimed:
            rc, o = sh([os.path.join(VERIF, 'check'), pid], env=env2)
            if rc != 0:
                res[pid] = {'exit': rc, 'first': [l.strip()[:300] for l in o.splitlines()
                                                   if l.strip().startswith('violated') or 'ANALYSIS-ERROR' in l][:2]}
        shutil.rmtree(evd, ignore_errors=True)
        out['not_silent'] = res
        print(json.dumps(out, indent=1))
        return 0
    finally:
        sh(['git', '-C', '/repo', 'worktree', 'remove', '--force', wt])
        shutil.rmtree(wt, ignore_errors=True)
        sh(['git', '-C', '/repo', 'worktree', 'prune'])


if __name__ == '__main__':
    sys.exit(main())
