"""C11 - block-sparse QR (structural part)."""
import ast

from ..loader import norm, AnalysisError
from ..block import BlockAnalysis
from ..effects import Engine
from .common import where


def run_block(chk, repo, rid_prefix, q, kind, single_rule=None, rule_override=None):
    fi = repo.func(q)
    # behaviour-preserving spellings are rewritten into the one the engine knows (sa/blocknorm.py)
    from ..blocknorm import normalise
    from ..canon import CanonFunc
    helpers = {n_: f_.node for n_, f_ in repo.modules[fi.module].functions.items()}
    fi = CanonFunc(fi, normalise(fi.node, helpers), {})
    items = []

    def report(k, node, ok, text):
        items.append((k, node, ok, text))
    ba = BlockAnalysis(fi, report, kind, imports=repo.modules[fi.module].imports)
    ba.run()
    ba.check_return()
    rules = {'perm': 'R1', 'perm-pair': 'R1', 'unperm': 'R1', 'return': 'R1',
             'loop-domain': 'R2', 'block-read': 'R2', 'block-store': 'R2', 'block-call': 'R2', 'interm': 'R2',
             'dummy': 'R3', 'restrict': 'R4', 'dtype': 'R6'}
    seen = {}
    for k, node, ok, text in items:
        rid = single_rule or (rule_override or {}).get(k) or f'{rid_prefix}.{rules[k]}'
        base = f'{rid}|{q}|{k}|{text[:200]}'
        seen[base] = seen.get(base, 0) + 1
        chk.ob(rid, where(repo, fi, node), f'{fi.name}: {text[:160]}', ok, text,
               key=base + (f'|#{seen[base]}' if seen[base] > 1 else ''))
    return fi, ba, items


def bounds_rule(chk, repo, rid, fi, dname='D'):
    # the allocation bound and its assertion
    A_ = fi.params[0]
    spellings = {f'min({A_}.shape)', f'min({A_}.shape[0], {A_}.shape[1])', f'min({A_}.shape[1], {A_}.shape[0])',
                 f'min(*{A_}.shape)', f'np.min({A_}.shape)'}
    md = [s for s in ast.walk(fi.node) if isinstance(s, ast.Assign) and norm(s.value) in spellings]
    asserts = [norm(a.test) for a in ast.walk(fi.node) if isinstance(a, ast.Assert)]
    ok = len(md) == 1 and any(t in (f'{dname} <= {norm(md[0].targets[0])}', f'{norm(md[0].targets[0])} >= {dname}')
                              for t in asserts)
    chk.ob(rid, where(repo, fi, md[0] if md else fi.node), f'{fi.name}: intermediate dimension is allocated as min(rows, cols) '
           f'and asserted not to be exceeded', ok, f'asserts: {asserts[-3:]}', key=f'{rid}|{fi.qual}|bound')
    pre = {f'{fi.params[0]}.ndim == 2', f'len({fi.params[1]}) == {fi.params[0]}.shape[0]',
           f'len({fi.params[2]}) == {fi.params[0]}.shape[1]'}
    chk.ob(rid, where(repo, fi, fi.node), f'{fi.name}: label lengths are checked against the matrix shape on entry',
           pre <= set(asserts), f'{sorted(pre - set(asserts))} missing', key=f'{rid}|{fi.qual}|entry')
    sp = any(t.replace(' ', '') == f'is_qsparse({fi.params[0]},[{fi.params[1]},-{fi.params[2]}])' for t in asserts)
    chk.ob(rid, where(repo, fi, fi.node), f'{fi.name}: the input is asserted block sparse under (q0, -q1)', sp, '',
           key=f'{rid}|{fi.qual}|entry-sparse')


def run(chk, repo, tier):
    chk.rule('C11.R1', 'frames: matrix axis and charge vector of a side are permuted together under the guard "idx is not '
                       'the identity"; both returned factors are un-sorted with argsort of the same idx, under the same '
                       'guard, on the axis of that side; factors are returned in caller order')
    chk.rule('C11.R2', 'blocks: one block per charge shared by both vectors; sector boundaries come from the sorted charge '
                       'vector of the matching side and the charge of the iteration; the block of A, the Q block, the R '
                       'block and the intermediate charges all use rows@q x cols@q / [Dprev:D]; D advances by the block '
                       'extent and is bounded by min(rows, cols)')
    chk.rule('C11.R3', 'dummy bond for disjoint charges: factors (rows, 1) and (1, cols), one unit entry in the first '
                       'factor at a row whose charge is the returned label, second factor zero')
    chk.rule('C11.R5', 'the inputs are never written (effects engine)')
    chk.rule('C11.R6', 'storage type: the factor arrays are allocated with an inexact dtype (integer input is promoted first), '
                       'so that floating-point block factors are not truncated')
    fi, ba, items = run_block(chk, repo, 'C11', 'bond_ops.qr', 'qr')
    bounds_rule(chk, repo, 'C11.R2', fi, getattr(ba, 'Dname', 'D'))
    c = ba.counts
    if (c['cond_perm'] < 2 or c['unperm'] < 2 or c['block_store'] < 3 or c['dummy'] < 1) and all(i[2] for i in items):
        raise AnalysisError(f'qr: anchored idioms vanished (counts {c})')
    chk.floor('C11.R1', len([i for i in items if i[0] in ('perm', 'perm-pair', 'unperm', 'return')]), 20)
    chk.floor('C11.R2', len([i for i in items if i[0] in ('loop-domain', 'block-read', 'block-store', 'interm', 'block-call')]), 20)
    eng = Engine(repo)
    res = eng.analyse(fi)
    pw = [(l.describe(), sorted(s)[0]) for l, s in res['writes'].items() if l.is_param()]
    chk.ob('C11.R5', where(repo, fi, fi.node), 'qr writes none of A, q0, q1', not pw,
           '; '.join(f'{d} at {s}' for d, s in pw[:3]), key='C11.R5|writes')
    chk.notes['idiom_counts'] = c
    chk.undecided += ['exactness and isometry of each dense block factorisation (NumPy)',
                      'that the reduced block QR gives the smallest possible intermediate dimension']
    return ('Frame / charge-tag typing of bond_ops.qr: a special-purpose abstract interpretation in which every matrix axis '
            'carries "caller order" or "sorted order", every sector slice carries the side and order of the charge vector '
            'it was computed from, and every block read / store / permutation / un-permutation must be consistent.',
            'instances = permutations, un-permutations, block reads and stores per axis, dummy-branch facts, return facts')
