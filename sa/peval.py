"""Partial evaluation of the table-building constructors of hamiltonian.py (DESIGN.md section 15).

The constructors of the built-in lattice models build tables: literal matrices, enumerations of operator ids, a map from
ids to matrices, lists of OpChain objects or the nodes and edges of an automaton / graph.  This module propagates
constants through such code - straight-line statements, loops over literal tables, comprehensions, dict(zip(..)),
local closures and private helpers of the module - the way a compiler does, with

  * numeric parameters kept symbolic (`Sym`: affine expressions with rational coefficients over parameter names),
  * a loop over a range whose bounds depend on a parameter executed ONCE with a symbolic loop variable; what it appends,
    stores or registers is recorded together with the range (`Gen` segments of symbolic sequences, events with a loop
    context),
  * a test the constants do not decide forked: the constructor is re-evaluated once per outcome, the outcome becomes part
    of the path condition; a string parameter that is only compared with literals is enumerated over those literals plus
    one other value.

No pytenet code is executed: the evaluator walks the syntax tree and does its own arithmetic on literals (sa/optable.py).
Anything outside the vocabulary raises FoldError - an analysis error for the caller, never a verdict.
"""
import ast
import copy as _copy
import itertools
import math
from fractions import Fraction

from .affine import Affine
from .loader import norm
from .optable import Mat, Band, FoldError, NUM


# ----------------------------------------------------------------------
# values
class Opaque:
    def __init__(self, text):
        self.text = text

    def __repr__(self):
        return f'Opaque({self.text})'


class Sym:
    """symbolic number: affine over parameter / loop-variable names"""

    def __init__(self, a):
        self.a = a

    def __repr__(self):
        return f'Sym({self.a})'

    def __eq__(self, o):
        return isinstance(o, Sym) and self.a == o.a

    def __hash__(self):
        return hash(str(self.a))


class Oid:
    def __init__(self, cls, name, value):
        self.cls, self.name, self.value = cls, name, value

    def __repr__(self):
        return f'Oid({self.name})'

    def __eq__(self, o):
        return isinstance(o, Oid) and (self.cls, self.name) == (o.cls, o.name)

    def __hash__(self):
        return hash((self.cls, self.name))


class EnumCls:
    def __init__(self, name, members):
        self.name, self.members = name, members        # ordered dict name -> int

    def oids(self):
        return [Oid(self.name, k, v) for k, v in self.members.items()]


_uid = itertools.count(1)


class Obj:
    """an object of a library class (OpChain, AutOpNode, ...): kind + fields"""

    def __init__(self, kind, **f):
        self.kind = kind
        self.f = f
        self.uid = next(_uid)
        self.origin = None          # (container uid, key) when instantiated from a symbolic family
        self.copied_from = None
        self.events = []            # method calls that register something: (name, args, ctx)

    def __repr__(self):
        return f'<{self.kind}#{self.uid}>'


class Ref:
    """value of an id attribute together with its owner (x.nid): resolves end points without relying on id values"""

    def __init__(self, owner, value):
        self.owner, self.value = owner, value

    def __repr__(self):
        return f'Ref({self.owner}, {self.value})'


class Gen:
    """`len(elts)` elements per value of var in [lo, hi] (affine bounds; empty if hi < lo)"""

    def __init__(self, var, lo, hi, elts, cond=()):
        self.var, self.lo, self.hi, self.elts, self.cond = var, lo, hi, elts, tuple(cond)
        self.uid = next(_uid)
        self.family = None          # uid of the container (dict / list) the segment was created for

    def __repr__(self):
        return f'Gen({self.var} in [{self.lo}, {self.hi}]: {self.elts})'


class SymSeq:
    def __init__(self, segs):
        self.segs = list(segs)      # concrete values and Gen segments
        self.uid = next(_uid)

    def __repr__(self):
        return f'SymSeq{self.segs}'


class NArr(list):
    """one-dimensional numpy array of numbers / symbolic numbers: arithmetic is elementwise"""


class PList(list):
    """a list created by the constructor under evaluation; the first append inside a symbolic loop turns it into a
    sequence of segments (`segs`), after which the plain list content is no longer used"""
    segs = None


def symview(x):
    """SymSeq view of a PList that has become symbolic (sharing its segment list), else x"""
    if isinstance(x, PList) and x.segs is not None:
        v = SymSeq([])
        v.segs = x.segs
        return v
    return x


class SymDict:
    def __init__(self, items=None):
        self.items = dict(items or {})
        self.sym = []               # (key Affine in gen.var, Gen with one element)
        self.uid = next(_uid)

    def __repr__(self):
        return f'SymDict({self.items}, {self.sym})'


class Closure:
    def __init__(self, node, env, module=None, name=None):
        self.node, self.env, self.module, self.name = node, env, module, name
        self.defaults = None


class NeedDecision(Exception):
    def __init__(self, key):
        self.key = key


class _Return(Exception):
    def __init__(self, value):
        self.value = value


class _Continue(Exception):
    pass


class _Break(Exception):
    pass


def subst(v, var, a, memo=None):
    """replace the symbolic variable `var` by the affine expression a inside a value"""
    memo = {} if memo is None else memo
    if isinstance(v, Sym):
        return Sym(v.a.subst(var, a)) if var in v.a.syms() else v
    if isinstance(v, (list, tuple)):
        t = [subst(x, var, a, memo) for x in v]
        return t if isinstance(v, list) else tuple(t)
    if isinstance(v, Ref):
        return Ref(subst(v.owner, var, a, memo), subst(v.value, var, a, memo))
    if isinstance(v, Obj):
        if id(v) in memo:
            return memo[id(v)]
        if not _mentions(v, var):
            return v
        o = Obj(v.kind)
        memo[id(v)] = o
        o.f = {k: subst(x, var, a, memo) for k, x in v.f.items()}
        o.origin = (v.origin[0], simplify_key(subst(Sym(v.origin[1]) if isinstance(v.origin[1], Affine) else v.origin[1], var, a, memo)),
                    v.origin[2]) if v.origin else None
        o.copied_from = v.copied_from
        return o
    if isinstance(v, Opaque) and var in v.text:
        return Opaque(v.text.replace(var, f'({a})'))
    return v


def simplify_key(k):
    return k.a if isinstance(k, Sym) else k


def _mentions(v, var, depth=0):
    if depth > 6:
        return True
    if isinstance(v, Sym):
        return var in v.a.syms()
    if isinstance(v, (list, tuple)):
        return any(_mentions(x, var, depth + 1) for x in v)
    if isinstance(v, Ref):
        return _mentions(v.owner, var, depth + 1) or _mentions(v.value, var, depth + 1)
    if isinstance(v, Obj):
        return any(_mentions(x, var, depth + 1) for x in v.f.values()) or \
            (v.origin is not None and isinstance(v.origin[1], Affine) and var in v.origin[1].syms())
    if isinstance(v, Opaque):
        return var in v.text
    return False


def as_affine(v):
    if isinstance(v, bool):
        return None
    if isinstance(v, int):
        return Affine.const(v)
    if isinstance(v, float) and v == int(v):
        return Affine.const(int(v))
    if isinstance(v, float):
        return Affine(Fraction(v).limit_denominator(10 ** 9))
    if isinstance(v, Sym):
        return v.a
    if isinstance(v, Ref):
        return as_affine(v.value)
    return None


def simplify(a):
    """Sym with a constant affine value -> number"""
    if a.is_const():
        c = a.c
        return int(c) if c.denominator == 1 else float(c)
    return Sym(a)


LIB_CLASSES = {
    'OpChain': ['oids', 'qnums', 'coeff', 'istart'],
    'AutOpNode': ['nid', 'eids_in', 'eids_out', 'qnum'],
    'AutOpEdge': ['eid', 'nids', 'opics', 'active'],
    'OpGraphNode': ['nid', 'eids_in', 'eids_out', 'qnum'],
    'OpGraphEdge': ['eid', 'nids', 'opics'],
    'AutOp': ['nodes', 'edges', 'nid_terminal'],
    'OpGraph': ['nodes', 'edges', 'nid_terminal'],
}
ID_ATTRS = {'nid', 'eid'}


class Env:
    def __init__(self, parent=None):
        self.vars = {}
        self.parent = parent

    def lookup(self, name):
        e = self
        while e is not None:
            if name in e.vars:
                return e.vars[name]
            e = e.parent
        raise KeyError(name)

    def has(self, name):
        try:
            self.lookup(name)
            return True
        except KeyError:
            return False

    def set(self, name, v):
        self.vars[name] = v


class Run:
    """one evaluation of a constructor under fixed decisions"""

    def __init__(self, repo, module, decisions, strings):
        self.repo = repo
        self.module = module
        self.decisions = decisions          # test key -> bool
        self.strings = strings              # parameter name -> concrete string (case split)
        self.path = []                      # (key, outcome, affine form or None)
        self.ctx = []                       # loop contexts: (var, lo, hi)
        self.fresh = itertools.count(1)
        self.depth = 0
        self.mutable_defaults = []

    # ------------------------------------------------------------------
    def call_function(self, fi_or_closure, args, kwargs=None):
        kwargs = kwargs or {}
        if isinstance(fi_or_closure, Closure):
            node, env0 = fi_or_closure.node, fi_or_closure.env
        else:
            node, env0 = fi_or_closure.node, Env()
        self.depth += 1
        if self.depth > 8:
            raise FoldError('call depth')
        try:
            env = Env(env0)
            a = node.args
            params = [x.arg for x in a.args]
            defaults = a.defaults
            nd = len(defaults)
            for k, p in enumerate(params):
                if k < len(args):
                    env.set(p, args[k])
                elif p in kwargs:
                    env.set(p, kwargs[p])
                elif k >= len(params) - nd:
                    d = defaults[k - (len(params) - nd)]
                    if isinstance(d, (ast.List, ast.Dict, ast.Set)):
                        # a mutable default is one object shared by all calls of the function
                        key = (id(node), p)
                        store = self.__dict__.setdefault('_shared_defaults', {})
                        if key not in store:
                            store[key] = self.ev(d, env)
                            self.mutable_defaults.append((node, p, store[key]))
                        env.set(p, store[key])
                    else:
                        env.set(p, self.ev(d, env))
                else:
                    raise FoldError(f'missing argument `{p}` in a call of {getattr(node, "name", "lambda")}')
            if isinstance(node, ast.Lambda):
                return self.ev(node.body, env)
            try:
                self.block(node.body, env)
            except _Return as r:
                return r.value
            return None
        finally:
            self.depth -= 1

    # ------------------------------------------------------------------
    def block(self, stmts, env):
        for s in stmts:
            self.stmt(s, env)

    def stmt(self, s, env):
        if isinstance(s, ast.Expr):
            if isinstance(s.value, ast.Constant):
                return
            self.ev(s.value, env)
            return
        if isinstance(s, (ast.Import, ast.ImportFrom, ast.Pass, ast.Global, ast.Nonlocal)):
            return
        if isinstance(s, ast.Assert):
            return
        if isinstance(s, ast.ClassDef):
            members = {}
            for b in s.body:
                if isinstance(b, ast.Assign) and len(b.targets) == 1 and isinstance(b.targets[0], ast.Name):
                    v = self.ev(b.value, env)
                    if isinstance(v, int):
                        members[b.targets[0].id] = v
            env.set(s.name, EnumCls(s.name, members))
            return
        if isinstance(s, ast.FunctionDef):
            env.set(s.name, Closure(s, env, name=s.name))
            return
        if isinstance(s, ast.Return):
            raise _Return(self.ev(s.value, env) if s.value is not None else None)
        if isinstance(s, ast.Assign):
            v = self.ev(s.value, env)
            for t in s.targets:
                self.assign(t, v, env)
            return
        if isinstance(s, ast.AnnAssign) and s.value is not None:
            self.assign(s.target, self.ev(s.value, env), env)
            return
        if isinstance(s, ast.AugAssign):
            cur = self.ev(_load(s.target), env)
            v = self.ev(s.value, env)
            if isinstance(s.op, ast.Add) and isinstance(cur, (list, SymSeq)) and not isinstance(cur, tuple):
                self.extend(cur, v)
                return
            self.assign(s.target, self.arith(s.op, cur, v, s), env)
            return
        if isinstance(s, ast.If):
            t = self.truth(self.ev(s.test, env), s.test)
            self.block(s.body if t else s.orelse, env)
            return
        if isinstance(s, ast.For):
            self.loop(s, env)
            return
        if isinstance(s, ast.Continue):
            raise _Continue()
        if isinstance(s, ast.Break):
            raise _Break()
        if isinstance(s, ast.Raise):
            raise _Return(Obj('raise', text=norm(s)[:80]))
        raise FoldError(f'statement `{norm(s)[:60]}`')

    def assign(self, t, v, env):
        if isinstance(t, ast.Name):
            env.set(t.id, v)
            return
        if isinstance(t, (ast.Tuple, ast.List)):
            items = self.iterate_concrete(v)
            if len(items) != len(t.elts):
                raise FoldError(f'unpacking `{norm(t)}`')
            for x, y in zip(t.elts, items):
                self.assign(x, y, env)
            return
        if isinstance(t, ast.Attribute):
            o = self.ev(t.value, env)
            if isinstance(o, Obj):
                o.f[t.attr] = v
                return
            raise FoldError(f'attribute store `{norm(t)}`')
        if isinstance(t, ast.Subscript):
            c = self.ev(t.value, env)
            k = self.ev(t.slice, env)
            if isinstance(c, SymDict):
                ka = k if not isinstance(k, (Sym, Ref)) else None
                if ka is not None and not self.ctx:
                    c.items[_key(k)] = v
                    return
                a = as_affine(k)
                if a is None:
                    raise FoldError(f'key of `{norm(t)}`')
                inner = [c_ for c_ in self.ctx if c_[0] in a.syms()]
                if not inner:
                    c.items[_key(simplify(a))] = v
                    return
                if len(inner) != 1:
                    raise FoldError(f'key `{norm(t.slice)}` depends on several loop variables')
                var, lo, hi = inner[0]
                g_ = Gen(var, lo, hi, [v])
                g_.family = c.uid
                g_.keyexpr = a
                c.sym.append((a, g_))
                return
            if isinstance(c, list) and isinstance(k, int) and not (isinstance(c, PList) and c.segs is not None):
                c[k] = v
                return
            if isinstance(c, NArr) and isinstance(k, tuple) and k and k[0] == 'slice' and all(x is None or isinstance(x, int) for x in k[1:]):
                n_ = len(c[k[1]:k[2]])
                vals = list(v) if isinstance(v, (list, tuple)) else [v] * n_
                if len(vals) != n_:
                    raise FoldError(f'slice store of different length in `{norm(t)}`')
                c[k[1]:k[2]] = vals
                return
            raise FoldError(f'subscript store `{norm(t)}`')
        raise FoldError(f'assignment target `{norm(t)}`')

    # ------------------------------------------------------------------
    def truth(self, v, node):
        if isinstance(v, Ref):
            v = v.value
        if isinstance(v, (bool, int, float, str)) or v is None:
            return bool(v)
        if isinstance(v, PList) and v.segs is not None:
            raise FoldError(f'truth value of a sequence of symbolic length in `{norm(node)}`')
        if isinstance(v, (list, tuple)) and not (isinstance(v, tuple) and v and v[0] in ('cmp', 'arange', 'gen', 'builtin', 'libclass',
                                                                                           'libmethod', 'method')):
            return bool(v)
        if isinstance(v, SymDict) and not v.sym:
            return bool(v.items)
        key = norm(node)
        form = None
        if isinstance(v, tuple) and v and v[0] == 'cmp':
            key, form = v[1], v[2]
        elif isinstance(v, Opaque):
            key = v.text
        if isinstance(v, SymSeq):
            raise FoldError(f'truth value of a sequence of symbolic length in `{norm(node)}`')
        if key in self.decisions:
            out = self.decisions[key]
            if not any(p[0] == key for p in self.path):
                self.path.append((key, out, form))
            return out
        raise NeedDecision(key)

    def loop(self, s, env):
        it = self.ev(s.iter, env)
        for item in self.iterate(it, s.iter):
            if isinstance(item, tuple) and item and item[0] == '__gen__':
                _, gen, elt, fresh = item
                # names rebound in the body (counters) are unknown inside and after a symbolic loop
                rebound = {n.id for b in s.body for n in ast.walk(b) if isinstance(n, ast.Name) and isinstance(n.ctx, ast.Store)}
                tnames = {n.id for n in ast.walk(s.target) if isinstance(n, ast.Name)}
                for nm in rebound - tnames:
                    if env.has(nm) and isinstance(env.lookup(nm), (int, float, Sym)):
                        self.rebind(env, nm, Opaque(f'{nm}'))
                self.ctx.append((fresh, gen.lo, gen.hi))
                try:
                    self.assign(s.target, elt, env)
                    try:
                        self.block(s.body, env)
                    except _Continue:
                        pass
                    except _Break:
                        raise FoldError(f'break inside the symbolic loop `{norm(s.iter)}`')
                finally:
                    self.ctx.pop()
                continue
            self.assign(s.target, item, env)
            try:
                self.block(s.body, env)
            except _Continue:
                continue
            except _Break:
                break
        else:
            self.block(s.orelse, env)

    def rebind(self, env, name, v):
        e = env
        while e is not None:
            if name in e.vars:
                e.vars[name] = v
                return
            e = e.parent
        env.set(name, v)

    def iterate(self, it, node):
        """items of an iterable; a symbolic segment yields ('__gen__', gen, element with a fresh variable, fresh name)"""
        if isinstance(it, Ref):
            it = it.value
        it = symview(it)
        if isinstance(it, (list, tuple)):
            return list(it)
        if isinstance(it, EnumCls):
            return it.oids()
        if isinstance(it, SymDict):
            if it.sym:
                raise FoldError('iteration over the keys of a symbolic family')
            return [_unkey(k) for k in it.items.keys()]
        if isinstance(it, SymSeq):
            out = []
            for seg in it.segs:
                if isinstance(seg, Gen):
                    fresh = f'_v{next(self.fresh)}'
                    fa = Affine.sym(fresh)
                    for e in seg.elts:
                        g2 = Gen(fresh, seg.lo, seg.hi, [])
                        out.append(('__gen__', g2, subst(e, seg.var, fa), fresh))
                else:
                    out.append(seg)
            return out
        raise FoldError(f'iteration over `{norm(node)[:50]}`')

    def iterate_concrete(self, v):
        if isinstance(v, Ref):
            v = v.value
        if isinstance(v, PList) and v.segs is not None:
            raise FoldError('unpacking a sequence of symbolic length')
        if isinstance(v, (list, tuple)):
            return list(v)
        if isinstance(v, Obj) and v.kind == 'raise':
            raise FoldError('unpacking')
        raise FoldError(f'unpacking a value that is not a literal sequence: {v!r}'[:80])

    def extend(self, lst, v):
        if isinstance(v, Ref):
            v = v.value
        v = symview(v)
        if isinstance(lst, PList) and lst.segs is None and isinstance(v, SymSeq):
            lst.segs = list(lst)
        lst = symview(lst)
        if isinstance(lst, list):
            if isinstance(v, (list, tuple)):
                lst.extend(v)
                return
            raise FoldError('a list that was not created here is extended by a sequence of symbolic length')
        if isinstance(lst, SymSeq):
            if isinstance(v, (list, tuple)):
                lst.segs.extend(v)
            elif isinstance(v, SymSeq):
                lst.segs.extend(v.segs)
            else:
                raise FoldError('extension by a non-sequence')
            return
        raise FoldError('extend')

    # ------------------------------------------------------------------
    def ev(self, e, env):
        if isinstance(e, ast.Constant):
            return e.value
        if isinstance(e, ast.Name):
            if e.id in ('True', 'False', 'None'):
                return {'True': True, 'False': False, 'None': None}[e.id]
            try:
                return env.lookup(e.id)
            except KeyError:
                pass
            r = self.repo.resolve_name(self.module, e.id) if self.repo is not None else None
            if r and r[0] == 'func':
                return Closure(r[1].node, Env(), name=e.id)
            if r and r[0] == 'class':
                ci = r[1]
                if any('Enum' in b for b in getattr(ci, 'bases', [])):
                    members = {}
                    for b_ in ci.node.body:
                        if isinstance(b_, ast.Assign) and len(b_.targets) == 1 and isinstance(b_.targets[0], ast.Name) and \
                                isinstance(b_.value, (ast.Constant, ast.UnaryOp)):
                            try:
                                members[b_.targets[0].id] = ast.literal_eval(b_.value)
                            except ValueError:
                                pass
                    return EnumCls(e.id, members)
                return ('libclass', getattr(ci, 'name', e.id))
            if e.id in LIB_CLASSES:
                return ('libclass', e.id)
            if e.id in ('np', 'copy', 'itertools', 'math', 'dict', 'zip', 'list', 'tuple', 'enumerate', 'range', 'len', 'max', 'min',
                        'abs', 'sum', 'sorted', 'reversed', 'int', 'float', 'complex', 'isinstance', 'str', 'set', 'print', 'any', 'all'):
                return ('builtin', e.id)
            cls = self.repo.classes.get(e.id) if self.repo is not None else None
            if cls is not None:
                return ('libclass', e.id)
            raise FoldError(f'unknown name `{e.id}`')
        if isinstance(e, ast.Attribute):
            return self.attribute(e, env)
        if isinstance(e, ast.UnaryOp):
            v = self.ev(e.operand, env)
            if isinstance(e.op, ast.Not):
                t = self.truth(v, e.operand)
                return not t
            if isinstance(e.op, ast.UAdd):
                return v
            if isinstance(e.op, ast.USub):
                return self.arith(ast.Mult(), -1, v, e)
            raise FoldError(f'`{norm(e)}`')
        if isinstance(e, ast.BinOp):
            return self.arith(e.op, self.ev(e.left, env), self.ev(e.right, env), e)
        if isinstance(e, ast.BoolOp):
            vals = None
            for x in e.values:
                vals = self.ev(x, env)
                t = self.truth(vals, x)
                if isinstance(e.op, ast.And) and not t:
                    return vals if isinstance(vals, (bool, int)) else False
                if isinstance(e.op, ast.Or) and t:
                    return vals if isinstance(vals, (bool, int, str, list)) else True
            return vals if isinstance(vals, (bool, int, str, list)) else isinstance(e.op, ast.And)
        if isinstance(e, ast.Compare):
            return self.compare(e, env)
        if isinstance(e, ast.IfExp):
            t = self.truth(self.ev(e.test, env), e.test)
            return self.ev(e.body if t else e.orelse, env)
        if isinstance(e, (ast.List, ast.Tuple)):
            out = []
            for x in e.elts:
                if isinstance(x, ast.Starred):
                    out.extend(self.iterate_concrete(self.ev(x.value, env)))
                else:
                    out.append(self.ev(x, env))
            return PList(out) if isinstance(e, ast.List) else tuple(out)
        if isinstance(e, ast.Dict):
            d = SymDict()
            for k, v in zip(e.keys, e.values):
                d.items[_key(self.ev(k, env))] = self.ev(v, env)
            return d
        if isinstance(e, ast.Subscript):
            return self.subscript(self.ev(e.value, env), e, env)
        if isinstance(e, (ast.ListComp, ast.GeneratorExp)):
            return self.comprehension(e, env)
        if isinstance(e, ast.DictComp):
            if len(e.generators) != 1:
                raise FoldError('dict comprehension')
            g = e.generators[0]
            d = SymDict()
            sub = Env(env)
            for item in self.iterate(self.ev(g.iter, env), g.iter):
                if isinstance(item, tuple) and item and item[0] == '__gen__':
                    raise FoldError('dict comprehension over a symbolic range')
                self.assign(g.target, item, sub)
                if all(self.truth(self.ev(c, sub), c) for c in g.ifs):
                    d.items[_key(self.ev(e.key, sub))] = self.ev(e.value, sub)
            return d
        if isinstance(e, ast.Lambda):
            return Closure(e, env)
        if isinstance(e, ast.Call):
            return self.call(e, env)
        if isinstance(e, ast.JoinedStr):
            return Opaque('str')
        if isinstance(e, ast.Slice):
            return ('slice', self.ev(e.lower, env) if e.lower else None, self.ev(e.upper, env) if e.upper else None)
        raise FoldError(f'expression `{norm(e)[:60]}`')

    def comprehension(self, e, env):
        segs = []

        def rec(k, sub):
            if k == len(e.generators):
                segs.append(self.ev(e.elt, sub))
                return
            g = e.generators[k]
            for item in self.iterate(self.ev(g.iter, sub), g.iter):
                s2 = Env(sub)
                if isinstance(item, tuple) and item and item[0] == '__gen__':
                    if k != len(e.generators) - 1 or g.ifs:
                        raise FoldError('a symbolic range must be the innermost, unconditional generator of a comprehension')
                    _, gen, elt, fresh = item
                    self.ctx.append((fresh, gen.lo, gen.hi))
                    try:
                        self.assign(g.target, elt, s2)
                        segs.append(Gen(fresh, gen.lo, gen.hi, [self.ev(e.elt, s2)]))
                    finally:
                        self.ctx.pop()
                    continue
                self.assign(g.target, item, s2)
                if all(self.truth(self.ev(c, s2), c) for c in g.ifs):
                    rec(k + 1, s2)
        rec(0, env)
        if any(isinstance(s, Gen) for s in segs):
            out = SymSeq(segs)
            for s_ in segs:
                if isinstance(s_, Gen) and s_.family is None:
                    s_.family = out.uid
            return out
        return PList(segs)

    # ------------------------------------------------------------------
    def attribute(self, e, env):
        # dotted names of modules
        t = norm(e)
        if t.startswith(('np.', 'copy.', 'itertools.', 'math.')) and isinstance(e.value, (ast.Name, ast.Attribute)) and \
                not env.has(t.split('.')[0]):
            return ('builtin', t)
        b = self.ev(e.value, env)
        if isinstance(b, tuple) and b and b[0] == 'builtin':
            return ('builtin', f'{b[1]}.{e.attr}')
        if isinstance(b, tuple) and b and b[0] == 'libclass':
            return ('libmethod', b[1], e.attr)
        if isinstance(b, EnumCls):
            if e.attr in b.members:
                return Oid(b.name, e.attr, b.members[e.attr])
            raise FoldError(f'`{norm(e)}` is not a member of the enumeration')
        if isinstance(b, Ref):
            b = b.value
        if isinstance(b, Obj):
            if b.kind == 'OpChain' and e.attr == 'length':
                o_ = symview(b.f.get('oids'))
                if isinstance(o_, SymSeq):
                    return self.builtin('len', [o_], {}, e)
                return len(o_) if isinstance(o_, list) else Opaque(norm(e))
            if e.attr in b.f:
                v = b.f[e.attr]
                if e.attr in ID_ATTRS:
                    return Ref(b, v)
                return v
            return ('method', b, e.attr)
        if isinstance(b, Mat) and e.attr == 'T':
            return Mat(b.m, b.n, {(c, r): v for (r, c), v in b.data.items()})
        if isinstance(b, Mat) and e.attr == 'shape':
            return (b.n, b.m)
        if isinstance(b, Band) and e.attr == 'T':
            return Band({-k: g for k, g in b.offs.items()})
        if isinstance(b, Oid) and e.attr == 'value':
            return b.value
        if isinstance(b, (list, dict, SymSeq, SymDict, Mat, str)):
            return ('method', b, e.attr)
        if isinstance(b, (Opaque, Sym)):
            return Opaque(t)
        raise FoldError(f'attribute `{t}`')

    def subscript(self, c, e, env):
        k = self.ev(e.slice, env)
        if isinstance(c, Ref):
            c = c.value
        if isinstance(k, Ref):
            k = k.value
        c = symview(c)
        if isinstance(c, (list, tuple)):
            if isinstance(k, int):
                try:
                    return c[k]
                except IndexError:
                    raise FoldError(f'index out of range in `{norm(e)}`')
            if isinstance(k, tuple) and k and k[0] == 'slice' and all(x is None or isinstance(x, int) for x in k[1:]):
                return type(c)(c[k[1]:k[2]]) if isinstance(c, (NArr, PList)) else c[k[1]:k[2]]
            raise FoldError(f'index of `{norm(e)}`')
        if isinstance(c, SymDict):
            kk = _key(k)
            if not isinstance(k, Sym) and kk in c.items:
                return c.items[kk]
            a = as_affine(k)
            if a is None:
                raise FoldError(f'key of `{norm(e)}`')
            if not c.sym:
                raise FoldError(f'key `{norm(e.slice)}` not in the table')
            for key_a, gen in c.sym:
                # key_a(var) == a  ->  var = a - const   (unit coefficient)
                co = key_a.coeff(gen.var)
                if co not in (1, -1):
                    continue
                rest = key_a - Affine.sym(gen.var).scale(co)
                val = (a - rest).scale(Fraction(1, 1) / co)
                o = subst(gen.elts[0], gen.var, val)
                if isinstance(o, Obj):
                    if o is gen.elts[0]:
                        o = _shallow(o)
                    o.origin = (gen.family or c.uid, a, gen)
                return o
            raise FoldError(f'key `{norm(e.slice)}` of a symbolic family not found')
        if isinstance(c, SymSeq):
            a = as_affine(k)
            if a is None:
                raise FoldError(f'index of `{norm(e)}`')
            gens = [s for s in c.segs if isinstance(s, Gen)]
            if len(c.segs) == 1 and len(gens) == 1 and len(gens[0].elts) == 1:
                g = gens[0]
                n = g.hi - g.lo + Affine.const(1)          # number of elements
                idx = a
                if a.is_const() and a.c < 0:
                    idx = n + a
                o = subst(g.elts[0], g.var, g.lo + idx)
                if isinstance(o, Obj):
                    if o is g.elts[0]:
                        o = _shallow(o)
                    o.origin = (g.family or c.uid, idx, g)
                return o
            raise FoldError(f'index into a sequence of several symbolic segments: `{norm(e)}`')
        if isinstance(c, Mat):
            raise FoldError(f'matrix element `{norm(e)}`')
        if isinstance(c, (Opaque, Sym)):
            kt = k.a if isinstance(k, Sym) else (k.text if isinstance(k, Opaque) else k)
            return Opaque(f'{c.text if isinstance(c, Opaque) else c.a}[{kt}]')
        raise FoldError(f'subscript `{norm(e)[:50]}`')

    # ------------------------------------------------------------------
    def compare(self, e, env):
        if len(e.ops) != 1:
            raise FoldError(f'chained comparison `{norm(e)}`')
        a, b = self.ev(e.left, env), self.ev(e.comparators[0], env)
        op = e.ops[0]
        if isinstance(a, Ref):
            a = a.value
        if isinstance(b, Ref):
            b = b.value
        if isinstance(op, (ast.In, ast.NotIn)):
            if isinstance(b, SymDict) and not b.sym and not isinstance(a, (Sym, Opaque)):
                r = _key(a) in b.items
                return r if isinstance(op, ast.In) else not r
            if isinstance(b, (list, tuple)) and not (isinstance(b, PList) and b.segs is not None) and not isinstance(a, (Sym, Opaque)):
                r = _key(a) in [_key(x) for x in b]
                return r if isinstance(op, ast.In) else not r
            return Opaque(norm(e))
        conc = (int, float, str, bool, type(None), Oid, tuple, list)
        if isinstance(a, conc) and isinstance(b, conc) and not isinstance(a, Sym) and not isinstance(b, Sym):
            try:
                if isinstance(op, ast.Eq):
                    return a == b
                if isinstance(op, ast.NotEq):
                    return a != b
                if isinstance(op, ast.Lt):
                    return a < b
                if isinstance(op, ast.LtE):
                    return a <= b
                if isinstance(op, ast.Gt):
                    return a > b
                if isinstance(op, ast.GtE):
                    return a >= b
                if isinstance(op, ast.Is):
                    return a is b
                if isinstance(op, ast.IsNot):
                    return a is not b
            except TypeError:
                pass
        fa, fb = as_affine(a), as_affine(b)
        if fa is not None and fb is not None:
            d = fa - fb
            if d.is_const():
                c = d.c
                return {ast.Eq: c == 0, ast.NotEq: c != 0, ast.Lt: c < 0, ast.LtE: c <= 0, ast.Gt: c > 0,
                        ast.GtE: c >= 0}.get(type(op), None)
            # symbolic comparison: canonical key and the affine form "d <op> 0"
            opn = {ast.Eq: '==', ast.NotEq: '!=', ast.Lt: '<', ast.LtE: '<=', ast.Gt: '>', ast.GtE: '>='}.get(type(op))
            if opn is None:
                return Opaque(norm(e))
            return ('cmp', f'{d} {opn} 0', (d, opn))
        return Opaque(norm(e))

    def arith(self, op, a, b, node):
        if isinstance(a, Ref):
            a = a.value
        if isinstance(b, Ref):
            b = b.value
        a, b = symview(a), symview(b)
        if isinstance(a, NArr) or isinstance(b, NArr):
            if isinstance(a, NArr) and isinstance(b, NArr):
                if len(a) != len(b):
                    raise FoldError(f'arrays of different length in `{norm(node)[:50]}`')
                return NArr(self.arith(op, x, y, node) for x, y in zip(a, b))
            if isinstance(a, NArr) and as_affine(b) is not None:
                return NArr(self.arith(op, x, b, node) for x in a)
            if isinstance(b, NArr) and as_affine(a) is not None:
                return NArr(self.arith(op, a, y, node) for y in b)
            raise FoldError(f'`{norm(node)[:50]}`')
        if isinstance(a, tuple) and isinstance(b, tuple) and isinstance(op, ast.Add) and not (a and a[0] in ('cmp', 'max0', 'arange', 'gen')):
            return a + b
        if isinstance(a, list) and isinstance(b, list) and isinstance(op, ast.Add):
            return PList(list(a) + list(b))
        if isinstance(op, ast.Add) and (isinstance(a, SymSeq) or isinstance(b, SymSeq)) and \
                isinstance(a, (list, SymSeq)) and isinstance(b, (list, SymSeq)):
            return SymSeq((a.segs if isinstance(a, SymSeq) else list(a)) + (b.segs if isinstance(b, SymSeq) else list(b)))
        if isinstance(op, ast.Mult) and isinstance(a, list) and isinstance(b, int):
            return PList(list(a) * b)
        if isinstance(op, ast.Mult) and isinstance(b, list) and isinstance(a, int) and not isinstance(a, bool):
            return PList(list(b) * a)
        if isinstance(op, ast.Mult) and ((isinstance(a, list) and isinstance(b, Sym)) or (isinstance(b, list) and isinstance(a, Sym))):
            # n * [x, ..] with a symbolic count: the elements once per value of a fresh variable in [0, n - 1]
            lst, cnt = (a, b) if isinstance(a, list) else (b, a)
            if isinstance(lst, PList) and lst.segs is not None:
                raise FoldError(f'repetition of a sequence of symbolic length in `{norm(node)[:50]}`')
            var = f'_v{next(self.fresh)}'
            return SymSeq([Gen(var, Affine.const(0), cnt.a - Affine.const(1), list(lst))])
        if isinstance(a, NUM) and isinstance(b, NUM) and not isinstance(a, bool) and not isinstance(b, bool):
            try:
                if isinstance(op, ast.Add):
                    return a + b
                if isinstance(op, ast.Sub):
                    return a - b
                if isinstance(op, ast.Mult):
                    return a * b
                if isinstance(op, ast.Div):
                    return a / b
                if isinstance(op, ast.FloorDiv):
                    return a // b
                if isinstance(op, ast.Mod):
                    return a % b
                if isinstance(op, ast.Pow):
                    return a ** b
                if isinstance(op, ast.LShift):
                    return a << b
                if isinstance(op, ast.RShift):
                    return a >> b
            except (ZeroDivisionError, TypeError, ValueError) as ex:
                raise FoldError(f'`{norm(node)}`: {ex}')
        mats = (Mat, Band)
        if isinstance(a, mats) and isinstance(b, mats) and type(a) is type(b):
            if isinstance(op, ast.MatMult):
                return a.matmul(b)
            if isinstance(op, ast.Add):
                return a.add(b)
            if isinstance(op, ast.Sub):
                return a.add(b, -1)
            raise FoldError(f'elementwise operator in `{norm(node)[:50]}`')
        if isinstance(a, mats) and isinstance(b, NUM):
            if isinstance(op, ast.Mult):
                return a.scale(b)
            if isinstance(op, ast.Div):
                return a.scale(1 / b)
        if isinstance(a, NUM) and isinstance(b, mats) and isinstance(op, ast.Mult):
            return b.scale(a)
        fa, fb = as_affine(a), as_affine(b)
        if fa is not None and fb is not None:
            if isinstance(op, ast.Add):
                return simplify(fa + fb)
            if isinstance(op, ast.Sub):
                return simplify(fa - fb)
            if isinstance(op, ast.Mult):
                if fa.is_const() or fb.is_const():
                    return simplify(fa * fb)
            if isinstance(op, ast.Div) and fb.is_const() and fb.c != 0:
                return simplify(fa.scale(1 / fb.c))
            if isinstance(op, ast.LShift) and fb.is_const():
                return simplify(fa.scale(2 ** int(fb.c)))
        if isinstance(a, (Opaque, Sym)) or isinstance(b, (Opaque, Sym)):
            ta = a.text if isinstance(a, Opaque) else (str(a.a) if isinstance(a, Sym) else repr(a))
            tb = b.text if isinstance(b, Opaque) else (str(b.a) if isinstance(b, Sym) else repr(b))
            if isinstance(a, mats) or isinstance(b, mats):
                raise FoldError(f'a matrix is combined with a run-time value in `{norm(node)[:50]}`')
            sym = {ast.Add: '+', ast.Sub: '-', ast.Mult: '*', ast.Div: '/', ast.Pow: '**', ast.FloorDiv: '//', ast.Mod: '%'}.get(type(op), '?')
            return Opaque(f'({ta} {sym} {tb})')
        raise FoldError(f'`{norm(node)[:60]}`')

    # ------------------------------------------------------------------
    def call(self, e, env):
        f = self.ev(e.func, env)
        args = []
        for a in e.args:
            if isinstance(a, ast.Starred):
                args.extend(self.iterate_concrete(self.ev(a.value, env)))
            else:
                args.append(self.ev(a, env))
        kwargs = {k.arg: self.ev(k.value, env) for k in e.keywords if k.arg}
        if isinstance(f, Closure):
            return self.call_function(f, args, kwargs)
        if isinstance(f, tuple) and f and f[0] == 'libclass':
            return self.construct(f[1], args, kwargs, e)
        if isinstance(f, tuple) and f and f[0] == 'libmethod':
            return self.libmethod(f[1], f[2], args, kwargs, e)
        if isinstance(f, tuple) and f and f[0] == 'method':
            return self.method(f[1], f[2], args, kwargs, e)
        if isinstance(f, tuple) and f and f[0] == 'builtin':
            return self.builtin(f[1], args, kwargs, e)
        raise FoldError(f'call `{norm(e)[:60]}`')

    def construct(self, cls, args, kwargs, e):
        if cls in LIB_CLASSES:
            names = LIB_CLASSES[cls]
            f = {}
            for k, n in enumerate(names):
                if k < len(args):
                    f[n] = args[k]
                elif n in kwargs:
                    f[n] = kwargs[n]
            if cls in ('OpChain',):
                # the constructor copies its list arguments
                for n in ('oids', 'qnums'):
                    v_ = symview(f.get(n))
                    if isinstance(v_, SymSeq):
                        f[n] = SymSeq(list(v_.segs))
                    elif isinstance(v_, list):
                        f[n] = list(v_)
            o = Obj(cls, **f)
            o.f['_node'] = e
            o.f['_ctx'] = list(self.ctx)
            self.__dict__.setdefault('created', []).append(o)
            if cls in ('AutOp', 'OpGraph'):
                o.f['added'] = []
            return o
        if cls == 'MPO':
            return Obj('MPO-direct', args=args)
        return Obj(cls, args=args, **kwargs)

    def libmethod(self, cls, name, args, kwargs, e):
        if cls == 'OpGraph' and name == 'from_automaton':
            return Obj('graph:automaton', autop=args[0], size=args[1] if len(args) > 1 else None, _node=e)
        if cls == 'OpGraph' and name == 'from_opchains':
            return Obj('graph:opchains', chains=args[0], size=args[1] if len(args) > 1 else None,
                       ident=args[2] if len(args) > 2 else kwargs.get('oid_identity'), _node=e)
        if cls == 'MPO' and name == 'from_opgraph':
            return Obj('MPO', qd=args[0], graph=args[1], opmap=args[2] if len(args) > 2 else kwargs.get('opmap'), _node=e)
        raise FoldError(f'`{cls}.{name}` is not part of the table vocabulary')

    def method(self, o, name, args, kwargs, e):
        if isinstance(o, PList) and o.segs is None and name == 'append' and self.ctx:
            o.segs = list(o)
        o = symview(o)
        if isinstance(o, list):
            if name == 'append':
                if self.ctx:
                    raise FoldError('append to a list that was not created here inside a symbolic loop')
                o.append(args[0])
                return None
            if name == 'extend':
                self.extend(o, args[0])
                return None
            if name == 'copy':
                return PList(o)
            if name == 'index':
                return [_key(x) for x in o].index(_key(args[0]))
        if isinstance(o, SymSeq):
            if name == 'append':
                if self.ctx:
                    var, lo, hi = self.ctx[-1]
                    if len(self.ctx) > 1:
                        outer = [c for c in self.ctx[:-1]]
                        raise FoldError('append inside nested symbolic loops')
                    o.segs.append(Gen(var, lo, hi, [args[0]]))
                else:
                    o.segs.append(args[0])
                return None
            if name == 'extend':
                self.extend(o, args[0])
                return None
        if isinstance(o, SymDict):
            if name == 'values':
                segs = list(o.items.values())
                for key_a, gen in o.sym:
                    segs.append(gen)
                return SymSeq(segs) if o.sym else PList(segs)
            if name == 'get' and not o.sym:
                return o.items.get(_key(args[0]), args[1] if len(args) > 1 else None)
            if name == 'items' and not o.sym:
                return PList((_unkey(k), v) for k, v in o.items.items())
            if name == 'keys' and not o.sym:
                return PList(_unkey(k) for k in o.items)
            if name == 'update' and not o.sym:
                src = args[0] if args else SymDict()
                pairs = src.items.items() if isinstance(src, SymDict) else [tuple(self.iterate_concrete(x)) for x in self.iterate_concrete(src)]
                for k, v in pairs:
                    o.items[_key(k)] = v
                for k, v in kwargs.items():
                    o.items[k] = v
                return None
            if name == 'setdefault' and not o.sym:
                return o.items.setdefault(_key(args[0]), args[1] if len(args) > 1 else None)
        if isinstance(o, Mat):
            if name in ('copy',):
                return o
            if name in ('conj', 'conjugate'):
                return Mat(o.n, o.m, {k: (v.conjugate() if isinstance(v, complex) else v) for k, v in o.data.items()})
            if name == 'transpose' and not args:
                return Mat(o.m, o.n, {(c, r): v for (r, c), v in o.data.items()})
        if isinstance(o, Obj):
            if name in ('add_connect_edge', 'add_edge', 'add_node') and o.kind in ('AutOp', 'OpGraph'):
                o.f.setdefault('added', []).append((name, args[0], list(self.ctx), e))
                return None
            if name in ('is_consistent',):
                return True
            if name == 'simplify':
                return o
        raise FoldError(f'method `.{name}` on {type(o).__name__} in `{norm(e)[:50]}`')

    def builtin(self, name, args, kwargs, e):
        if name == 'np.array' and args:
            v = args[0]
            if isinstance(v, (list, tuple)) and v and all(isinstance(r, (list, tuple)) for r in v):
                n, m = len(v), len(v[0])
                if all(len(r) == m and all(isinstance(x, NUM) and not isinstance(x, bool) for x in r) for r in v):
                    return Mat(n, m, {(i, j): v[i][j] for i in range(n) for j in range(m)})
                raise FoldError(f'matrix literal `{norm(e)[:50]}` has entries that are not constants')
            if isinstance(v, (list, tuple)) and all(isinstance(x, (int, float, complex, Sym)) and not isinstance(x, bool) for x in v):
                return NArr(v)
            if isinstance(v, (list, tuple)):
                return PList(v)
            if isinstance(v, Mat):
                return v
            raise FoldError(f'`{norm(e)[:50]}`')
        if name in ('np.identity', 'np.eye') and args:
            n = args[0]
            if isinstance(n, int):
                return Mat.identity(n)
            if isinstance(n, Sym) and len(n.a.syms()) == 1 and n.a == Affine.sym(next(iter(n.a.syms()))):
                return Band({0: '1'})
            raise FoldError(f'`{norm(e)}`')
        if name == 'np.kron' and len(args) == 2 and all(isinstance(a, Mat) for a in args):
            return args[0].kron(args[1])
        if name == 'np.sqrt' and len(args) == 1:
            v = args[0]
            if isinstance(v, (int, float)):
                return math.sqrt(v)
            if isinstance(v, tuple) and v and v[0] == 'arange':
                return ('gen', f'sqrt({v[1]})')
            return Opaque(f'sqrt({_txt(v)})')
        if name == 'np.arange':
            if all(isinstance(a, int) for a in args):
                return list(range(*args))
            txt = ', '.join(_txt(a) for a in args)
            return ('arange', f'arange({txt})', args)
        if name == 'np.diag' and args:
            v = args[0]
            k = args[1] if len(args) > 1 else kwargs.get('k', 0)
            if not isinstance(k, int):
                raise FoldError(f'offset of `{norm(e)[:50]}`')
            if isinstance(v, (list, tuple)) and all(isinstance(x, NUM) for x in v):
                n = len(v) + abs(k)
                return Mat(n, n, {((i, i + k) if k >= 0 else (i - k, i)): x for i, x in enumerate(v)})
            if isinstance(v, tuple) and v and v[0] in ('gen', 'arange'):
                return Band({k: v[1]})
            raise FoldError(f'`{norm(e)[:50]}`')
        if name in ('np.transpose',) and len(args) == 1 and isinstance(args[0], Mat):
            return Mat(args[0].m, args[0].n, {(c, r): v for (r, c), v in args[0].data.items()})
        if name in ('np.conj', 'np.conjugate') and len(args) == 1 and isinstance(args[0], Mat):
            return self.method(args[0], 'conj', [], {}, e)
        if name == 'np.zeros' and args and isinstance(args[0], (tuple, list)) and len(args[0]) == 2 and all(isinstance(x, int) for x in args[0]):
            return Mat(args[0][0], args[0][1], {})
        if name in ('copy.copy', 'copy.deepcopy'):
            v = args[0]
            if isinstance(v, Obj):
                o = _shallow(v)
                if name == 'copy.deepcopy':
                    o.f = {k: (list(x) if isinstance(x, list) else x) for k, x in o.f.items()}
                o.copied_from = v
                return o
            if isinstance(v, list):
                return list(v)
            return v
        if name == 'dict':
            d = SymDict()
            if args:
                src = args[0]
                items = list(src.items.items()) if isinstance(src, SymDict) else [tuple(self.iterate_concrete(x)) for x in self.iterate_concrete(src)]
                for kv in items:
                    k, v = kv
                    d.items[_key(k)] = v
            for k, v in kwargs.items():
                d.items[k] = v
            return d
        if name == 'zip':
            seqs = [self.iterate(a, e) for a in args]
            if any(isinstance(x, tuple) and x and x[0] == '__gen__' for s in seqs for x in s):
                raise FoldError('zip over a sequence of symbolic length')
            return PList(tuple(t) for t in zip(*seqs))
        if name in ('list', 'tuple'):
            if not args:
                return PList() if name == 'list' else ()
            v = symview(args[0])
            if isinstance(v, SymSeq):
                return SymSeq(list(v.segs))
            items = self.iterate(v, e)
            return PList(items) if name == 'list' else tuple(items)
        if name == 'enumerate':
            start = args[1] if len(args) > 1 else kwargs.get('start', 0)
            v = symview(args[0])
            if isinstance(v, SymSeq):
                base = as_affine(start)
                segs = []
                for seg in v.segs:
                    if isinstance(seg, Gen):
                        k = len(seg.elts)
                        elts = [(simplify(base + (Affine.sym(seg.var) - seg.lo).scale(k) + Affine.const(j)), x) for j, x in enumerate(seg.elts)]
                        segs.append(Gen(seg.var, seg.lo, seg.hi, elts))
                        base = base + (seg.hi - seg.lo + Affine.const(1)).scale(k)
                    else:
                        segs.append((simplify(base), seg))
                        base = base + Affine.const(1)
                return SymSeq(segs)
            items = self.iterate(v, e)
            return PList((start + k if isinstance(start, int) else Opaque('index'), x) for k, x in enumerate(items))
        if name == 'range':
            if all(isinstance(a, int) for a in args):
                return list(range(*args))
            if len(args) in (1, 2):
                lo = Affine.const(0) if len(args) == 1 else as_affine(args[0])
                hi_arg = args[-1]
                if isinstance(hi_arg, tuple) and hi_arg and hi_arg[0] == 'max0':
                    hi_a = hi_arg[1]            # range(max(x, 0)) == range(x)
                else:
                    hi_a = as_affine(hi_arg)
                if lo is None or hi_a is None:
                    raise FoldError(f'bounds of `{norm(e)}`')
                var = f'_v{next(self.fresh)}'
                return SymSeq([Gen(var, lo, hi_a - Affine.const(1), [Sym(Affine.sym(var))])])
            raise FoldError(f'`{norm(e)}`')
        if name == 'len':
            v = symview(args[0])
            if isinstance(v, SymDict) and not v.sym:
                return len(v.items)
            if isinstance(v, SymSeq):
                tot = Affine.const(0)
                for seg in v.segs:
                    tot = tot + ((seg.hi - seg.lo + Affine.const(1)).scale(len(seg.elts)) if isinstance(seg, Gen) else Affine.const(1))
                return simplify(tot)
            if isinstance(v, (list, tuple, str)):
                return len(v)
            if isinstance(v, Mat):
                return v.n
            if isinstance(v, (Opaque, Sym)):
                return Sym(Affine.sym(f'len({_txt(v)})'))
            raise FoldError(f'`{norm(e)}`')
        if name in ('max', 'min'):
            if all(isinstance(a, (int, float)) for a in args):
                return max(args) if name == 'max' else min(args)
            if len(args) == 2 and as_affine(args[0]) is not None and as_affine(args[1]) is not None:
                # decided by forking on the comparison of the two arguments
                a, b = args
                d = as_affine(a) - as_affine(b)
                ge = self.truth(('cmp', f'{d} >= 0', (d, '>=')), e)
                return (a if ge else b) if name == 'max' else (b if ge else a)
            return Opaque(norm(e))
        if name == 'abs':
            return abs(args[0]) if isinstance(args[0], NUM) else Opaque(f'abs({_txt(args[0])})')
        if name in ('int', 'float', 'complex'):
            v = args[0] if args else 0
            if isinstance(v, NUM):
                return {'int': int, 'float': float, 'complex': complex}[name](v)
            return v
        if name == 'isinstance':
            return Opaque(norm(e))
        if name == 'itertools.chain.from_iterable':
            v = symview(args[0])
            segs = []
            for part in (v.segs if isinstance(v, SymSeq) else self.iterate(v, e)):
                part = symview(part)
                if isinstance(part, Gen):
                    raise FoldError('chain.from_iterable over a symbolic outer sequence')
                if isinstance(part, SymSeq):
                    segs.extend(part.segs)
                elif isinstance(part, (list, tuple)):
                    segs.extend(part)
                else:
                    raise FoldError('chain.from_iterable over non-sequences')
            return SymSeq(segs) if any(isinstance(s, Gen) for s in segs) else PList(segs)
        if name == 'itertools.chain':
            segs = []
            for part in args:
                part = symview(part)
                segs.extend(part.segs if isinstance(part, SymSeq) else list(part))
            return SymSeq(segs) if any(isinstance(s, Gen) for s in segs) else PList(segs)
        if name == 'itertools.product':
            seqs = [self.iterate_concrete(a) for a in args]
            return [tuple(t) for t in itertools.product(*seqs)]
        if name == 'sorted' and args and isinstance(args[0], (list, tuple)):
            try:
                return sorted(args[0])
            except TypeError:
                raise FoldError('sorted')
        if name == 'reversed' and args and isinstance(args[0], (list, tuple)):
            return list(reversed(args[0]))
        if name == 'sum' and args and isinstance(args[0], (list, tuple)):
            tot = args[1] if len(args) > 1 else 0
            for x in args[0]:
                tot = self.arith(ast.Add(), tot, x, e)
            return tot
        if name == 'print':
            return None
        if name.startswith('np.') or name.startswith('math.'):
            raise FoldError(f'`{norm(e)[:60]}` is not part of the table vocabulary')
        raise FoldError(f'call `{norm(e)[:60]}`')


def _txt(v):
    if isinstance(v, Opaque):
        return v.text
    if isinstance(v, Sym):
        return str(v.a)
    return repr(v)


def _key(k):
    if isinstance(k, Ref):
        k = k.value
    if isinstance(k, list):
        return tuple(_key(x) for x in k)
    if isinstance(k, Sym):
        return ('sym', str(k.a))
    return k


def _unkey(k):
    return k


def _shallow(o):
    n = Obj(o.kind)
    n.f = dict(o.f)
    n.origin = o.origin
    n.copied_from = o.copied_from
    return n


def _load(t):
    t2 = _copy.deepcopy(t)
    for n in ast.walk(t2):
        if hasattr(n, 'ctx'):
            n.ctx = ast.Load()
    return t2


# ----------------------------------------------------------------------
def evaluate(repo, fi, string_params=(), max_runs=48):
    """All evaluations of a constructor: [(Run, result value)] - one per combination of string-parameter cases and
    outcomes of undecided tests.  Numeric parameters are symbols."""
    lits = sorted({c.value for c in ast.walk(fi.node) if isinstance(c, ast.Constant) and isinstance(c.value, str) and
                   len(c.value) < 24 and c.value.isidentifier()})
    cases = [{}]
    for p in string_params:
        if p in fi.params:
            cases = [dict(c, **{p: s}) for c in cases for s in lits + ['<other>']]
    out = []
    for strings in cases:
        todo = [{}]
        while todo:
            dec = todo.pop()
            if len(out) + len(todo) > max_runs:
                raise FoldError('too many undecided tests in one constructor')
            run = Run(repo, fi.module, dec, strings)
            args = []
            for p in fi.params:
                if p in strings:
                    args.append(strings[p])
                else:
                    args.append(Sym(Affine.sym(p)))
            try:
                res = run.call_function(fi, args)
            except NeedDecision as nd:
                todo.append(dict(dec, **{nd.key: True}))
                todo.append(dict(dec, **{nd.key: False}))
                continue
            out.append((run, res))
    return out


def evaluate_call(repo, fi, make_args, max_runs=32):
    """evaluations of one function for arguments built by make_args() (fresh per run): [(Run, result)]"""
    out = []
    todo = [{}]
    while todo:
        dec = todo.pop()
        if len(out) + len(todo) > max_runs:
            raise FoldError('too many undecided tests')
        run = Run(repo, fi.module, dec, {})
        try:
            res = run.call_function(fi, make_args())
        except NeedDecision as nd:
            todo.append(dict(dec, **{nd.key: True}))
            todo.append(dict(dec, **{nd.key: False}))
            continue
        out.append((run, res))
    return out
