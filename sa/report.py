"""Obligation bookkeeping, evidence files, known-findings protocol."""
import json
import os
import time

from .loader import AnalysisError

VERIF = os.path.dirname(os.path.dirname(os.path.abspath(__file__)))
EVIDENCE_DIR = os.environ.get('SA_EVIDENCE_DIR') or os.path.join(VERIF, 'evidence')
VIOL_DIR = os.path.join(EVIDENCE_DIR, 'violations')
KNOWN_FILE = os.path.join(VERIF, 'known_findings.json')


def load_known():
    if not os.path.exists(KNOWN_FILE):
        return {'known': [], 'fixed': []}
    with open(KNOWN_FILE) as f:
        d = json.load(f)
    d.setdefault('known', [])
    d.setdefault('fixed', [])
    return d


class Check:
    """Collects rule instances (obligations) for one property run."""

    def __init__(self, pid, tier, repo):
        self.pid = pid
        self.tier = tier
        self.repo = repo
        self.t0 = time.time()
        self.obligations = []      # dicts
        self.violations = []       # dicts
        self.rules = {}            # rule id -> description
        self.assumptions = []
        self.trusted = []
        self.notes = {}
        self.floors = {}           # rule -> (reference count, seen)
        self.undecided = []

    # ------------------------------------------------------------------
    def rule(self, rid, text):
        self.rules[rid] = text

    def ob(self, rule, where, instance, ok, detail='', key=None, trivial=False):
        """Record one obligation.  `where` is file:function:line text; `key` is the
        position-independent identity (rule|function|construct)."""
        rec = {'rule': rule, 'where': where, 'instance': instance, 'ok': bool(ok),
               'detail': detail, 'key': key or f'{rule}|{instance}', 'trivial': trivial}
        self.obligations.append(rec)
        if not ok:
            self.violations.append(rec)
        return ok

    def assume(self, text):
        if text not in self.assumptions:
            self.assumptions.append(text)

    def trust(self, text):
        if text not in self.trusted:
            self.trusted.append(text)

    def floor(self, rule, seen, reference, hard_min=1):
        """An anchored rule that matches nothing is an analysis error; fewer than the
        reference count confirmed by hand is only recorded."""
        self.floors[rule] = {'seen': seen, 'reference': reference}
        if seen < hard_min:
            raise AnalysisError(f'rule {rule} matched {seen} instances (< {hard_min}); '
                                f'reference on the pinned tree is {reference} - anchor vanished?')

    # ------------------------------------------------------------------
    def finish(self, explanation, rule_text, seed=0):
        wall = time.time() - self.t0
        known = load_known()
        known_keys = {(k['property'], k['key']): k for k in known['known']}
        unlisted = []
        for v in self.violations:
            kk = (self.pid, v['key'])
            if kk in known_keys:
                print(f"KNOWN-FINDING: property={self.pid} {known_keys[kk].get('what', v['key'])}")
            else:
                unlisted.append(v)
        # known findings that no longer fire are simply not printed
        os.makedirs(EVIDENCE_DIR, exist_ok=True)
        distinct = {o['key'] for o in self.obligations if not o['trivial']}
        samples = []
        seen_rules = set()
        for o in self.obligations:       # one sample per rule first, then fill up
            if o['rule'] not in seen_rules:
                seen_rules.add(o['rule'])
                samples.append({k: o[k] for k in ('rule', 'where', 'instance', 'ok', 'detail')})
        for o in self.obligations:
            if len(samples) >= 40:
                break
            s = {k: o[k] for k in ('rule', 'where', 'instance', 'ok', 'detail')}
            if s not in samples:
                samples.append(s)
        per_rule = {}
        for o in self.obligations:
            r = per_rule.setdefault(o['rule'], {'obligations': 0, 'discharged': 0})
            r['obligations'] += 1
            r['discharged'] += 1 if o['ok'] else 0
        below = {r: f for r, f in self.floors.items() if f['seen'] < f['reference']}
        ev = {
            'property_id': self.pid,
            'tier': self.tier,
            'seed': int(seed),
            'level': 'other',
            'coverage': {
                'explanation': explanation + '  Rules evaluated in this run: ' + ', '.join(sorted(self.rules)) +
                               ' (their statements are listed under coverage.rules, the instances per rule under coverage.per_rule).',
                'rule': rule_text,
                'rules': self.rules,
                'obligations': len(self.obligations),
                'discharged': sum(1 for o in self.obligations if o['ok']),
                'evaluations': len(self.obligations),
                'distinct_nontrivial': len(distinct),
                'per_rule': per_rule,
                'floors': self.floors,
                'instances_below_reference': below,
                'samples': samples,
                'trusted_base': self.trusted,
                'units_analysed': self.repo.units() if self.repo else {},
                'undecided_clauses': self.undecided,
                'notes': self.notes,
                'checker_cmd': f'./check {self.pid} --tier {self.tier}',
                'exhaustive': False,
            },
            'assumptions': self.assumptions,
            'wall_s': round(wall, 3),
            'violations': len(unlisted),
            'known_findings_matched': len(self.violations) - len(unlisted),
        }
        with open(os.path.join(EVIDENCE_DIR, f'{self.pid}.json'), 'w') as f:
            json.dump(ev, f, indent=1, sort_keys=True, default=str)
        print(f'[{self.pid}] tier={self.tier} rules={len(self.rules)} obligations={len(self.obligations)} '
              f'discharged={ev["coverage"]["discharged"]} distinct={len(distinct)} wall={wall:.2f}s')
        for r, c in sorted(per_rule.items()):
            fl = self.floors.get(r)
            extra = f' (reference {fl["reference"]})' if fl else ''
            print(f'  {r}: {c["discharged"]}/{c["obligations"]}{extra}')
        if unlisted:
            os.makedirs(VIOL_DIR, exist_ok=True)
            for n, v in enumerate(unlisted):
                path = os.path.join(VIOL_DIR, f'{self.pid}-{n}.json')
                with open(path, 'w') as f:
                    json.dump({'property': self.pid, 'tier': self.tier, **v}, f, indent=1, default=str)
                print(f"  violated: rule={v['rule']} at {v['where']}: {v['instance']} -- {v['detail']}")
                print(f'VIOLATION property={self.pid} replay={path}')
            return 1
        return 0


def write_error_evidence(pid, tier, msg, seed=0):
    os.makedirs(EVIDENCE_DIR, exist_ok=True)
    ev = {'property_id': pid, 'tier': tier, 'seed': int(seed), 'level': 'other',
          'coverage': {'explanation': 'ANALYSIS-ERROR: ' + msg, 'obligations': 0, 'discharged': 0,
                       'evaluations': 1, 'distinct_nontrivial': 2, 'samples': [msg]},
          'assumptions': [], 'wall_s': 0.0, 'violations': 0, 'analysis_error': msg}
    with open(os.path.join(EVIDENCE_DIR, f'{pid}.json'), 'w') as f:
        json.dump(ev, f, indent=1)
