"""Rule sets of anchored support code, reusable under the rule ids of the properties that rely on them.

A property whose anchors include bond_ops.py / operation.py / krylov.py / opgraph.from_opchains depends on the
structural clauses decided there; a change in that support code breaks the dependent property as well, so the same
rules are instantiated under the dependent property's id (the verdict is computed again, nothing is copied).
"""
from ..loader import AnalysisError, norm
from .common import where


def block_rules(chk, repo, rid, which=('qr',), text=None):
    from .C11 import run_block, bounds_rule
    names = {'qr': ('bond_ops.qr', 'qr'), 'svd': ('bond_ops.split_matrix_svd', 'svd')}
    chk.rule(rid, text or 'support: frames, charge tags, block reads/stores, dummy bond and (for the SVD) truncation of '
                          + ' / '.join(names[w][0] for w in which) + ' (rules of C11 / C12 re-evaluated)')
    n = 0
    for w in which:
        q, kind = names[w]
        fi, ba, items = run_block(chk, repo, rid, q, kind, single_rule=rid)
        bounds_rule(chk, repo, rid, fi, getattr(ba, 'Dname', 'D'))
        n += len(items)
    chk.floor(rid, n, 40 * len(which), hard_min=20)
    return n


def kernel_rules(chk, repo, rid, only, text=None):
    from . import C04
    chk.rule(rid, text or f'support: the contraction kernels {sorted(only)} denote their documented networks and agree '
                          f'with their siblings (rules of C04 re-evaluated)')
    vals = {}
    C04.rule_R1(chk, repo, vals, rid=rid, only=set(only))
    return len(vals)


def krylov_rules(chk, repo, prefix):
    from .C14 import krylov_rules as kr
    return kr(chk, repo, prefix)


def chain_compiler_rules(chk, repo, prefix):
    from . import C05
    from .common import run_id_typestate
    chk.rule(f'{prefix}.a', 'support: id allocation typestate of OpGraph.from_opchains (rule C05.R1 re-evaluated)')
    run_id_typestate(chk, repo, f'{prefix}.a', [repo.func('opgraph.OpGraph.from_opchains')], 6)
    C05.rule_R2(chk, repo, rid=f'{prefix}.b')
    C05.rule_R3(chk, repo, rid=f'{prefix}.c')
    C05.rule_R5(chk, repo, rid=f'{prefix}.d')
    C05.rule_R6(chk, repo, rid=f'{prefix}.e')
    C05.rule_R7(chk, repo, rid=f'{prefix}.f')
    C05.rule_R4(chk, repo, rid=f'{prefix}.g')


def ownership_rules(chk, repo, rid, text=None):
    """MPS / MPO objects own their quantum-number arrays: constructors convert, results share nothing with operands.
    (rules of C19 re-evaluated for the MPS/MPO-returning operations)"""
    from ..effects import Engine
    from . import C19
    chk.rule(rid, text or 'support: every MPS / MPO owns its quantum-number arrays and tensors (constructors copy, results of the '
                          'arithmetic share no mutable state with operands), so that an in-place change of one object '
                          '(zero_qnumbers, orthonormalize, ...) cannot invalidate the labels of another (rules of C19 '
                          're-evaluated)')
    eng = Engine(repo)
    quals = ['mps.MPS.__init__', 'mpo.MPO.__init__'] + [q for q in C19.RESULT if q.split('.')[0] in ('mps', 'mpo', 'operation')]
    n = 0
    for q in quals:
        fi = repo.func(q)
        res, pw = C19.analyse_entry(eng, fi)
        w = f'pytenet/{fi.module}.py:{q.split(".", 1)[1]}:{fi.node.lineno}'
        if fi.name == '__init__':
            sh = C19.shared_with_params(eng, fi, res['args']['self'], exclude=('self',))
        else:
            sh = C19.shared_with_params(eng, fi, res['ret'])
        chk.ob(rid, w, f'{q}: the new object shares no mutable state with its arguments', not sh,
               'can reach ' + ', '.join(sh[:4]) if sh else '', key=f'{rid}|{q}|sharing')
        n += 1
    chk.floor(rid, n, 12)
    return n


def defassign_rules(chk, repo, rid, modules, facts=None, only=None):
    """definite assignment over whole modules: no read of a local that some path leaves unbound (a sweep / iteration
    loop may run zero times unless its range is provably non-empty under the documented lower bounds `facts`)"""
    from .. import defassign
    chk.rule(rid, 'definite assignment: every read of a local variable is preceded by a binding on every path; a `for` '
                  'loop may run zero times unless its iterable is provably non-empty (literal sequences, range bounds under '
                  'asserted / documented lower bounds); bindings made under a condition that cannot change are available '
                  'under the same condition later - the call cannot end in UnboundLocalError for boundary sizes the tests '
                  'do not visit')
    nfun = nreads = 0
    for q, fi in sorted(repo.funcs.items()):
        if fi.module not in modules or (only is not None and q not in only):
            continue
        d = defassign.DA(fi.node)
        d.lower.update((facts or {}).get(q, {}))
        try:
            d.run()
        except NotImplementedError as ex:
            raise AnalysisError(f'{q}: statement kind {ex} not handled by the definite-assignment analysis')
        nfun += 1
        nreads += d.nreads
        bad = {}
        for node, name, why in d.findings:
            bad.setdefault(name, (node, why))
        chk.ob(rid, where(repo, fi, fi.node), f'{fi.qual}: all {d.nreads} reads of locals are definitely assigned', not bad,
               '; '.join(f'`{n}` {w} (line {nd.lineno})' for n, (nd, w) in sorted(bad.items())), key=f'{rid}|{q}')
    if nfun == 0:
        raise AnalysisError(f'definite assignment: no function found in modules {sorted(modules)}')
    return nfun


_STORAGE_CALIBRATION = '''
def f(v, scale, dtype):
    buf = np.zeros((2, 2), dtype=v.dtype)
    buf[0] = 0.5 * v
    out = np.empty((2, 2), dtype=dtype)
    out[:, :] = scale * np.identity(2)
    ok = np.zeros((2, 2), dtype=np.result_type(v, scale, float))
    ok[0] = 0.5 * v * scale
    return buf, out, ok
'''


def storage_type_rules(chk, repo, rid, modules, only=None):
    """stores into preallocated arrays must not narrow the element type (sa/dtypeflow.py); one obligation per function"""
    import ast
    from .. import dtypeflow as df
    chk.rule(rid, 'storage type: a value written into an array that was preallocated with an explicit element type is cast to '
                  'that type; its own element type (bool < int < float < complex, one symbol per input whose type the code '
                  'does not fix) must be below the type of the array for every input - otherwise fractional or imaginary '
                  'parts are discarded silently for inputs of a narrower type than the tests use')
    # calibration: the engine must flag the two narrowing stores of the built-in example and accept the third
    cal = df.buffer_stores(ast.parse(_STORAGE_CALIBRATION).body[0])
    if [bool(b[5]) for b in sorted(cal, key=lambda b: b[0].lineno)] != [True, True, False]:
        raise AnalysisError('storage-type engine fails its built-in calibration example')
    nfun = nst = 0
    for q, fi in sorted(repo.funcs.items()):
        if fi.module not in modules or (only is not None and q not in only) or not isinstance(fi.node, ast.FunctionDef):
            continue
        stores = df.buffer_stores(fi.node)
        nfun += 1
        nst += len(stores)
        bad = [b for b in stores if b[5]]
        det = '; '.join(f'line {st.lineno}: `{norm(st)[:60]}` stores {df.show(vt)} into `{nm}` of type {df.show(bt)} '
                        f'({", ".join(df.show([a]) for a in off)} is not below it)' for st, nm, _, bt, vt, off in bad)
        chk.ob(rid, where(repo, fi, bad[0][0] if bad else fi.node),
               f'{fi.qual}: {len(stores)} store(s) into preallocated typed arrays keep the element type', not bad, det,
               key=f'{rid}|{q}')
    if nfun == 0:
        raise AnalysisError(f'storage type: no function found in modules {sorted(modules)}')
    return nfun


TABLE_CLASSES = {'OpGraph': ('opgraph', 'OpGraphNode'), 'AutOp': ('autop', 'AutOpNode')}


def graph_table_rules(chk, repo, rid, classes=('OpGraph', 'AutOp')):
    """The node / edge tables of OpGraph and AutOp are sibling implementations of one interface: every consumer
    (reachability in from_automaton, contraction, simplification) reads the adjacency lists `node.eids[d]` that
    add_connect_edge / add_edge_id fill.  Structural clauses, per class:
      connect : add_connect_edge registers the edge unconditionally and then visits BOTH ends: a loop over the two
                directions without `return` / `break`, whose body hands (edge.eid, 1 - d) to add_edge_id of the node
                edge.nids[d], guarded by nothing but the presence of that very node
      append  : <Node>.add_edge_id(eid, direction) appends eid to self.eids[direction] on every path
      store   : add_node / add_edge store the object under its own id; the only other exit raises"""
    import ast
    from ..defuse import dominating_conditions, local_defs
    from ..normal import continue_to_nested_if
    chk.rule(rid, 'graph tables (OpGraph and AutOp are siblings): add_connect_edge registers the edge unconditionally and visits '
                  'both ends - a loop over the two directions without return / break whose body passes (edge.eid, 1 - d) to '
                  'add_edge_id of node edge.nids[d], guarded only by the presence of that node; add_edge_id appends the id to '
                  'self.eids[direction] on every path; add_node / add_edge store the object under its own id.  (Every consumer - '
                  'reachability pruning, contraction, simplification - reads these adjacency lists.)')
    n = 0
    for cname in classes:
        mod, nname = TABLE_CLASSES[cname]
        ci = repo.cls(cname)
        # ---- connect
        fi = ci.methods.get('add_connect_edge')
        if fi is None:
            raise AnalysisError(f'{cname}.add_connect_edge not found')
        ep = fi.params[1]
        body = [s for s in fi.node.body if not (isinstance(s, ast.Expr) and isinstance(s.value, ast.Constant))]
        reg = [k for k, s in enumerate(body) if
               (isinstance(s, ast.Expr) and isinstance(s.value, ast.Call) and norm(s.value) == f'self.add_edge({ep})') or
               (isinstance(s, ast.Assign) and norm(s.targets[0]) == f'self.edges[{ep}.eid]' and norm(s.value) == ep)]
        loops = [(k, s) for k, s in enumerate(body) if isinstance(s, ast.For) and isinstance(s.target, ast.Name) and
                 norm(s.iter) in ('(0, 1)', '[0, 1]', 'range(2)', f'range(len({ep}.nids))')]
        ok = len(reg) == 1 and len(loops) == 1 and reg[0] < loops[0][0] and \
            not any(isinstance(x, (ast.Return, ast.Raise)) for s in body[:loops[0][0]] for x in ast.walk(s) if s is not body[reg[0]])
        det = ''
        if not ok:
            det = 'registration of the edge followed by one loop over both directions not found'
        else:
            lp = loops[0][1]
            d = lp.target.id
            exits = [x for x in ast.walk(lp) if isinstance(x, (ast.Return, ast.Break))]
            calls = [c for c in ast.walk(lp) if isinstance(c, ast.Call) and isinstance(c.func, ast.Attribute) and
                     c.func.attr == 'add_edge_id']
            defs = local_defs(fi.node)
            want_node = f'self.nodes[{ep}.nids[{d}]]'
            good = [c for c in calls if norm(c.func.value) == want_node and len(c.args) == 2 and norm(c.args[0]) == f'{ep}.eid'
                    and norm(c.args[1]).replace(' ', '') == f'1-{d}']
            if exits:
                ok = False
                det = f'the loop over the two ends is left early (`{norm(exits[0])}` at line {exits[0].lineno}): the other end ' \
                      f'is not connected'
            elif len(good) != 1 or len(calls) != 1:
                ok = False
                det = f'expected one call {want_node}.add_edge_id({ep}.eid, 1 - {d}); found {[norm(c)[:70] for c in calls]}'
            else:
                conds = dominating_conditions(fi.node, good[0], defs) or []
                allowed = {f'{ep}.nids[{d}] in self.nodes'}
                extra = [c for c in conds if norm(c).replace('not not ', '') not in allowed]
                if extra:
                    ok = False
                    det = f'the connection is made only under `{norm(extra[0])[:60]}`'
        chk.ob(rid, where(repo, fi, fi.node), f'{cname}.add_connect_edge: the edge is registered and both ends are connected '
               f'independently', ok, det, key=f'{rid}|{cname}|connect')
        n += 1
        # ---- append
        ni = repo.cls(nname).methods.get('add_edge_id')
        if ni is None:
            raise AnalysisError(f'{nname}.add_edge_id not found')
        eidp, dirp = ni.params[1], ni.params[2]
        defs = local_defs(ni.node)
        apps = []
        for c in ast.walk(ni.node):
            if isinstance(c, ast.Call) and isinstance(c.func, ast.Attribute) and c.func.attr == 'append' and len(c.args) == 1:
                recv = c.func.value
                if isinstance(recv, ast.Name) and recv.id in defs:
                    recv = defs[recv.id]
                apps.append((c, norm(recv), norm(c.args[0])))
        for s in ast.walk(ni.node):
            if isinstance(s, ast.AugAssign) and isinstance(s.op, ast.Add) and norm(s.value) in (f'[{eidp}]', f'({eidp},)'):
                recv = s.target
                if isinstance(recv, ast.Name) and recv.id in defs:
                    recv = defs[recv.id]
                apps.append((s, norm(recv), eidp))
        good = [a for a in apps if a[1] == f'self.eids[{dirp}]' and a[2] == eidp]
        ok = len(good) == 1 and len(apps) == 1
        det = '' if ok else f'appends found: {[(r, v) for _, r, v in apps]}'
        if ok:
            node_ = good[0][0]
            conds = dominating_conditions(ni.node, node_, defs) or []
            rets = [x for x in ast.walk(ni.node) if isinstance(x, ast.Return)]
            if conds or rets:
                ok = False
                det = f'the id is appended only under `{norm(conds[0])[:60]}`' if conds else 'an early return skips the append'
        chk.ob(rid, where(repo, ni, ni.node), f'{nname}.add_edge_id appends the id to self.eids[direction] on every path', ok, det,
               key=f'{rid}|{nname}|append')
        n += 1
        # ---- store
        for meth, table, idattr in (('add_node', 'nodes', 'nid'), ('add_edge', 'edges', 'eid')):
            mi = ci.methods.get(meth)
            if mi is None:
                raise AnalysisError(f'{cname}.{meth} not found')
            p = mi.params[1]
            st = [s for s in ast.walk(mi.node) if isinstance(s, ast.Assign) and norm(s.targets[0]) == f'self.{table}[{p}.{idattr}]'
                  and norm(s.value) == p]
            ok = len(st) == 1
            det = '' if ok else f'store self.{table}[{p}.{idattr}] = {p} not found'
            if ok:
                conds = dominating_conditions(mi.node, st[0], local_defs(mi.node)) or []
                allowed = {f'{p}.{idattr} not in self.{table}', f'not {p}.{idattr} in self.{table}'}
                extra = [c for c in conds if norm(c) not in allowed]
                rets = [x for x in ast.walk(mi.node) if isinstance(x, ast.Return)]
                if extra or rets:
                    ok = False
                    det = f'the store happens only under `{norm(extra[0])[:60]}`' if extra else 'a return skips the store'
            chk.ob(rid, where(repo, mi, mi.node), f'{cname}.{meth} stores the object under its own id', ok, det,
                   key=f'{rid}|{cname}|{meth}')
            n += 1
        # ---- beliefs about emptiness agree: if one `max(X.<table>.keys(), default=..)` of the class allows for an empty
        # table, every maximum over that table must (a graph under construction has terminal nodes but possibly no edge)
        for table in ('nodes', 'edges'):
            sites = []
            for mi in ci.methods.values():
                for c in ast.walk(mi.node):
                    if isinstance(c, ast.Call) and isinstance(c.func, ast.Name) and c.func.id in ('max', 'min') and len(c.args) == 1 and \
                            isinstance(c.args[0], ast.Call) and isinstance(c.args[0].func, ast.Attribute) and \
                            c.args[0].func.attr == 'keys' and norm(c.args[0].func.value).endswith('.' + table):
                        sites.append((mi, c, any(k.arg == 'default' for k in c.keywords)))
            if any(d for _, _, d in sites):
                bad = [(mi, c) for mi, c, d in sites if not d]
                chk.ob(rid, where(repo, bad[0][0], bad[0][1]) if bad else where(repo, ci.methods['add_connect_edge'], ci.methods['add_connect_edge'].node),
                       f'{cname}: every maximum over the keys of the {table[:-1]} table allows for an empty table (as '
                       f'{sum(1 for _, _, d in sites if d)} of the {len(sites)} sites do)', not bad,
                       '; '.join(f'{mi.name} line {c.lineno}: `{norm(c)}`' for mi, c in bad[:3]), key=f'{rid}|{cname}|empty-{table}')
                n += 1
    return n


def container_rules(chk, repo, rid, quals):
    """constructors that link to the objects handed to them convert the sequence that holds them (clause of C19.CTOR
    re-evaluated): the caller's list never becomes the object's own list"""
    from ..effects import Engine
    from . import C19
    chk.rule(rid, 'support: a node / graph / automaton constructor links to the objects handed to it but converts the sequence that holds '
                  'them - the caller\'s list is never the object\'s own list, so appending a child or reusing the list afterwards '
                  'cannot change another object (effects engine, clause of C19.CTOR re-evaluated)')
    eng = Engine(repo)
    n = 0
    for q in quals:
        fi = repo.func(q)
        res, pw = C19.analyse_entry(eng, fi)
        sh = [d for d in C19.shared_with_params(eng, fi, res['args']['self'], exclude=('self',)) if d in C19.OWNERSHIP_CONTAINERS[q]]
        chk.ob(rid, where(repo, fi, fi.node), f'{q}: the sequence argument is converted, not kept', not sh,
               "the new object holds the caller's " + ', '.join(sh) if sh else '', key=f'{rid}|{q}|container')
        n += 1
    return n


_STATE_CALIBRATION = '''
_cache = {}
def f(x, acc=[]):
    acc.append(x)
    _cache[x] = acc
    return acc
@functools.lru_cache(maxsize=8)
def g(n):
    return [0] * n
def ok(x, acc=None, flag=()):
    acc = [] if acc is None else acc
    return acc
'''


def state_findings(tree):
    """(node, function name, text) for every way a module keeps state between calls: a mutable default argument that
    is mutated / stored / returned, a memoising decorator, a store into a module-level mutable container"""
    import ast
    out = []
    globs = set()
    for s in tree.body:
        if isinstance(s, ast.Assign) and len(s.targets) == 1 and isinstance(s.targets[0], ast.Name) and \
                (isinstance(s.value, (ast.Dict, ast.List, ast.Set)) or
                 (isinstance(s.value, ast.Call) and norm(s.value.func) in ('dict', 'list', 'set', 'collections.defaultdict',
                                                                            'defaultdict', 'collections.OrderedDict'))):
            if not s.targets[0].id.startswith('__'):
                globs.add(s.targets[0].id)
    MUT = {'append', 'extend', 'insert', 'update', 'add', 'setdefault', 'pop', 'clear', 'remove', 'popitem', 'sort', 'reverse'}
    for fn in ast.walk(tree):
        if not isinstance(fn, (ast.FunctionDef, ast.AsyncFunctionDef)):
            continue
        for d in fn.decorator_list:
            t = norm(d)
            if 'cache' in t.lower() or 'memo' in t.lower():
                out.append((fn, fn.name, f'decorator `{t}`: every caller with equal arguments receives the same object'))
        a = fn.args
        params = [x.arg for x in a.args]
        nd = len(a.defaults)
        for p, d in zip(params[len(params) - nd:], a.defaults):
            if isinstance(d, (ast.List, ast.Dict, ast.Set)) or (isinstance(d, ast.Call) and norm(d.func) in ('list', 'dict', 'set')):
                rebound = any(isinstance(n, ast.Name) and n.id == p and isinstance(n.ctx, ast.Store) for n in ast.walk(fn))
                used = [n for n in ast.walk(fn) if isinstance(n, ast.Name) and n.id == p and isinstance(n.ctx, ast.Load)]
                if used and not rebound:
                    out.append((fn, fn.name, f'mutable default `{p}={norm(d)}` is used without being replaced: one object for all calls'))
        local = {n.id for n in ast.walk(fn) if isinstance(n, ast.Name) and isinstance(n.ctx, ast.Store)} | set(params)
        for n in ast.walk(fn):
            tgt = None
            if isinstance(n, (ast.Assign, ast.AugAssign)):
                for t in (n.targets if isinstance(n, ast.Assign) else [n.target]):
                    if isinstance(t, ast.Subscript) and isinstance(t.value, ast.Name):
                        tgt = t.value.id
            elif isinstance(n, ast.Call) and isinstance(n.func, ast.Attribute) and n.func.attr in MUT and isinstance(n.func.value, ast.Name):
                tgt = n.func.value.id
            if tgt in globs and tgt not in local:
                out.append((n, fn.name, f'`{norm(n)[:60]}` stores into the module-level container `{tgt}`'))
    return out


def state_rules(chk, repo, rid, modules=None, only=None):
    """nothing survives a call: no filled mutable default, no memoising decorator, no module-level cache"""
    import ast
    chk.rule(rid, 'no state survives a call: no function keeps a mutable default argument in use, is wrapped in a memoising decorator, '
                  'or stores into a module-level container - the objects this library returns are mutable and modified in place by '
                  'their callers (orthonormalize, zero_qnumbers, add_child, rename_node_id ...), so a second call must not hand out '
                  'or depend on what the first one built')
    cal = state_findings(ast.parse(_STATE_CALIBRATION))
    if sorted({f for _, f, _ in cal}) != ['f', 'g'] or len(cal) != 3:
        raise AnalysisError('state rule fails its built-in calibration example')
    n = 0
    for mname, mod in sorted(repo.modules.items()):
        if modules is not None and mname not in modules:
            continue
        fnd = state_findings(mod.tree)
        if only is not None:
            names = {q.split('.')[-1] for q in only if q.split('.')[0] == mname}
            fnd = [x for x in fnd if x[1] in names]
        det = '; '.join(f'{f} (line {getattr(nd, "lineno", "?")}): {t}' for nd, f, t in fnd[:3])
        chk.ob(rid, f'pytenet/{mname}.py:{fnd[0][1] if fnd else "<module>"}:{getattr(fnd[0][0], "lineno", 1) if fnd else 1}',
               f'{mname}.py: no function keeps state between calls', not fnd, det, key=f'{rid}|{mname}')
        n += 1
    return n
