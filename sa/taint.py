"""Variable-level taint (flow-insensitive within a function, per-index for tuples that
cross a repository call), used for the "no coefficient is dropped" rules.

Sources are given as a predicate on expressions and/or a set of tainted parameters.
Propagation: assignment, augmented assignment, container stores (`x[k] = e`, `x[k] += e`,
`x.append(e)`, `x.extend(e)`, `x.add(e)`, `x.insert(k, e)`), comprehensions, loop targets
(`zip` and `enumerate` position-wise), tuple unpacking of repository calls through the
callee's per-index summary, nested function definitions (closures) by their return value.
"""
import ast

from .loader import norm

STORE_METHODS = {'append', 'extend', 'add', 'insert', 'update', 'setdefault'}


class Taint:
    def __init__(self, repo, fi, tainted_params=(), source=None, depth=0):
        self.repo = repo
        self.fi = fi
        self.source = source or (lambda e: False)
        self.t = set(tainted_params)
        self.depth = depth
        self.closures = {}
        for n in ast.walk(fi.node):
            if isinstance(n, ast.FunctionDef) and n is not fi.node:
                self.closures[n.name] = n
        self._cache = {}
        self.solve()

    # ------------------------------------------------------------------
    def expr_tainted(self, e):
        """Value taint: comparisons, len() and comprehension filters do not transport a coefficient."""
        if e is None:
            return False
        if self.source(e):
            return True
        if isinstance(e, ast.Name):
            return e.id in self.t
        if isinstance(e, (ast.Compare, ast.Constant, ast.Lambda, ast.JoinedStr)):
            return False
        if isinstance(e, ast.Subscript):
            return self.expr_tainted(e.value)
        if isinstance(e, ast.Attribute):
            return self.expr_tainted(e.value)
        if isinstance(e, (ast.ListComp, ast.SetComp, ast.GeneratorExp)):
            return self.expr_tainted(e.elt) or self._comp_targets_tainted(e, e.elt)
        if isinstance(e, ast.DictComp):
            return self.expr_tainted(e.value) or self.expr_tainted(e.key)
        if isinstance(e, ast.Call):
            if isinstance(e.func, ast.Name) and e.func.id in ('len', 'isinstance', 'range', 'hash', 'id', 'type'):
                return False
            r = self.call_taint(e)
            return any(r) if isinstance(r, tuple) else bool(r)
        if isinstance(e, ast.IfExp):
            return self.expr_tainted(e.body) or self.expr_tainted(e.orelse)
        return any(self.expr_tainted(c) for c in ast.iter_child_nodes(e) if isinstance(c, ast.expr))

    def _comp_targets_tainted(self, comp, elt):
        # the element mentions a comprehension variable bound to a tainted iterable
        names = {x.id for x in ast.walk(elt) if isinstance(x, ast.Name)}
        for g in comp.generators:
            if self.expr_tainted(g.iter):
                tn = {x.id for x in ast.walk(g.target) if isinstance(x, ast.Name)}
                if tn & names:
                    return True
        return False

    def call_taint(self, call):
        """Taint of a call result: True/False or a tuple of per-index booleans."""
        f = call.func
        name = f.id if isinstance(f, ast.Name) else (f.attr if isinstance(f, ast.Attribute) else None)
        if name in self.closures:
            return self._closure_taint(self.closures[name], call)
        target = None
        if isinstance(f, ast.Name):
            r = self.repo.resolve_name(self.fi.module, f.id)
            if r and r[0] == 'func':
                target = r[1]
        if target is None or self.depth > 3:
            return any(self._arg_tainted(a) for a in list(call.args) + [k.value for k in call.keywords]) or \
                (isinstance(f, ast.Attribute) and self._arg_tainted(f.value))
        tp = []
        for p, a in zip(target.params, call.args):
            if self._arg_tainted(a):
                tp.append(p)
        for k in call.keywords:
            if k.arg and self._arg_tainted(k.value):
                tp.append(k.arg)
        key = (target.qual, tuple(sorted(tp)))
        if key not in self._cache:
            sub = Taint(self.repo, target, tp, None, self.depth + 1)
            self._cache[key] = sub.return_taint()
        return self._cache[key]

    def _arg_tainted(self, a):
        return self.expr_tainted(a)

    def _closure_taint(self, fnode, call):
        # closure: tainted if it reads a tainted free variable or a tainted argument
        params = [a.arg for a in fnode.args.args]
        local = set()
        for p, a in zip(params, call.args):
            if self._arg_tainted(a):
                local.add(p)
        # flow-insensitive inside the closure
        names = set(local)
        changed = True
        while changed:
            changed = False
            for n in ast.walk(fnode):
                if isinstance(n, (ast.Assign, ast.AugAssign)):
                    val = n.value
                    tgts = n.targets if isinstance(n, ast.Assign) else [n.target]
                    if any(isinstance(x, ast.Name) and (x.id in names or x.id in self.t) for x in ast.walk(val)):
                        for t in tgts:
                            for x in ast.walk(t):
                                if isinstance(x, ast.Name) and x.id not in names:
                                    names.add(x.id)
                                    changed = True
        res = []
        for n in ast.walk(fnode):
            if isinstance(n, ast.Return) and n.value is not None:
                if isinstance(n.value, ast.Tuple):
                    res.append(tuple(any(isinstance(x, ast.Name) and (x.id in names) for x in ast.walk(e))
                                     for e in n.value.elts))
                else:
                    res.append(any(isinstance(x, ast.Name) and x.id in names for x in ast.walk(n.value)))
        return _merge_returns(res)

    # ------------------------------------------------------------------
    def _taint_target(self, t):
        changed = False
        if isinstance(t, ast.Name):
            if t.id not in self.t:
                self.t.add(t.id)
                changed = True
        elif isinstance(t, (ast.Tuple, ast.List)):
            for e in t.elts:
                changed |= self._taint_target(e)
        elif isinstance(t, (ast.Subscript, ast.Attribute)):
            base = t
            while isinstance(base, (ast.Subscript, ast.Attribute)):
                base = base.value
            if isinstance(base, ast.Name) and base.id not in self.t:
                self.t.add(base.id)
                changed = True
        elif isinstance(t, ast.Starred):
            changed |= self._taint_target(t.value)
        return changed

    def _bind(self, target, value):
        """Assignment target <- value with per-index precision where possible."""
        changed = False
        if isinstance(target, (ast.Tuple, ast.List)):
            if isinstance(value, (ast.Tuple, ast.List)) and len(value.elts) == len(target.elts):
                for t, v in zip(target.elts, value.elts):
                    changed |= self._bind(t, v)
                return changed
            if isinstance(value, ast.Call):
                r = self.call_taint(value)
                if isinstance(r, tuple) and len(r) == len(target.elts):
                    for t, b in zip(target.elts, r):
                        if b:
                            changed |= self._taint_target(t)
                    return changed
                if r is True:
                    return self._taint_target(target)
                return False
        if self.expr_tainted(value):
            changed |= self._taint_target(target)
        return changed

    def _bind_loop(self, target, it):
        changed = False
        if isinstance(it, ast.Call) and isinstance(it.func, ast.Name) and it.func.id == 'zip' and \
                isinstance(target, (ast.Tuple, ast.List)) and len(target.elts) == len(it.args):
            for t, a in zip(target.elts, it.args):
                if self.expr_tainted(a):
                    changed |= self._taint_target(t)
            return changed
        if isinstance(it, ast.Call) and isinstance(it.func, ast.Name) and it.func.id == 'enumerate' and \
                isinstance(target, (ast.Tuple, ast.List)) and len(target.elts) == 2:
            if self.expr_tainted(it.args[0]):
                changed |= self._taint_target(target.elts[1])
            return changed
        if self.expr_tainted(it):
            changed |= self._taint_target(target)
        return changed

    def solve(self):
        body = self.fi.node
        changed = True
        rounds = 0
        while changed and rounds < 50:
            rounds += 1
            changed = False
            for n in ast.walk(body):
                if isinstance(n, ast.FunctionDef) and n is not body:
                    continue
                if isinstance(n, ast.Assign):
                    for t in n.targets:
                        changed |= self._bind(t, n.value)
                elif isinstance(n, ast.AugAssign):
                    if self.expr_tainted(n.value):
                        changed |= self._taint_target(n.target)
                elif isinstance(n, ast.For):
                    changed |= self._bind_loop(n.target, n.iter)
                elif isinstance(n, ast.comprehension):
                    changed |= self._bind_loop(n.target, n.iter)
                elif isinstance(n, ast.Call) and isinstance(n.func, ast.Attribute) and n.func.attr in STORE_METHODS:
                    if any(self.expr_tainted(a) for a in n.args):
                        base = n.func.value
                        while isinstance(base, (ast.Subscript, ast.Attribute)):
                            base = base.value
                        if isinstance(base, ast.Name) and base.id not in self.t:
                            self.t.add(base.id)
                            changed = True

    def return_taint(self):
        res = []
        for n in ast.walk(self.fi.node):
            if isinstance(n, ast.Return) and n.value is not None:
                if isinstance(n.value, ast.Tuple):
                    res.append(tuple(self.expr_tainted(e) for e in n.value.elts))
                else:
                    res.append(self.expr_tainted(n.value))
        return _merge_returns(res)


def _merge_returns(res):
    if not res:
        return False
    if all(isinstance(r, tuple) for r in res) and len({len(r) for r in res}) == 1:
        return tuple(any(r[i] for r in res) for i in range(len(res[0])))
    return any((any(r) if isinstance(r, tuple) else r) for r in res)


def uses_of(name, stmts):
    """(statement, Name node, context kind) for every load of `name` in the statements."""
    out = []
    for s in stmts:
        for n in ast.walk(s):
            if isinstance(n, ast.Name) and n.id == name and isinstance(n.ctx, ast.Load):
                out.append((s, n))
    return out


def stmt_text(s):
    return norm(s)[:140]
