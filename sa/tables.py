"""Agreement between sibling tables (C07 family tables) and small structural helpers."""
import ast
import copy

from .loader import norm, AnalysisError


class _Rename(ast.NodeTransformer):
    def __init__(self, mapping):
        self.mapping = mapping

    def visit_Name(self, node):
        if node.id in self.mapping:
            return ast.copy_location(ast.Name(id=self.mapping[node.id], ctx=node.ctx), node)
        return node


def rename(node, mapping):
    return _Rename(mapping).visit(copy.deepcopy(node))


def subscript_chain(node):
    """X[k1][k2]... -> (root expr, [k1, k2, ...])"""
    keys = []
    while isinstance(node, ast.Subscript):
        keys.append(node.slice)
        node = node.value
    return node, list(reversed(keys))


def family_nests(fnode, root_of):
    """Collect, per family, the loop nests that store into it.

    root_of(expr) -> family name or None for the root expression of a subscript chain
    (e.g. `self.a_dag_l` -> 'a_dag_l', `target.nids_a_dag_l` -> 'a_dag_l').

    Returns {family: set of (context, keypath, kind)} with loop variables canonicalised
    (v0, v1, ... in binding order) and, separately, the list of leaf records for further checks.
    """
    fams = {}
    leaves = []

    def canon(ctx_vars):
        return {name: f'v{i}' for i, name in enumerate(ctx_vars)}

    def walk(stmts, ctx, ctx_vars):
        for s in stmts:
            if isinstance(s, ast.For):
                tv = [n.id for n in ast.walk(s.target) if isinstance(n, ast.Name)]
                vars2 = ctx_vars + [v for v in tv if v not in ctx_vars]
                m = canon(vars2)
                item = ('for', norm(rename(s.target, m)), norm(rename(s.iter, canon(ctx_vars))))
                walk(s.body, ctx + [item], vars2)
            elif isinstance(s, ast.If):
                m = canon(ctx_vars)
                if len(s.body) == 1 and isinstance(s.body[0], ast.Continue) and not s.orelse:
                    ctx = ctx + [('skip-if', norm(rename(s.test, m)))]
                else:
                    walk(s.body, ctx + [('if', norm(rename(s.test, m)))], ctx_vars)
                    walk(s.orelse, ctx + [('if-not', norm(rename(s.test, m)))], ctx_vars)
            elif isinstance(s, ast.Assign) and len(s.targets) == 1:
                t = s.targets[0]
                root, keys = subscript_chain(t)
                fam = root_of(root)
                if fam is None:
                    continue
                m = canon(ctx_vars)
                keypath = tuple(norm(rename(k, m)) for k in keys)
                if isinstance(s.value, ast.Dict) and not s.value.keys:
                    kind = 'init'
                else:
                    kind = 'leaf'
                rec = (tuple(ctx), keypath, kind)
                fams.setdefault(fam, set()).add(rec)
                leaves.append((fam, s, ctx_vars, keys))
    walk(fnode.body, [], [])
    return fams, leaves


def self_attr_root(prefix_obj, strip=''):
    def f(expr):
        if isinstance(expr, ast.Attribute) and isinstance(expr.value, ast.Name) and expr.value.id == prefix_obj:
            name = expr.attr
            if strip:
                if not name.startswith(strip):
                    return None
                name = name[len(strip):]
            return name
        return None
    return f


def describe_diff(a, b):
    only_a = sorted(a - b)
    only_b = sorted(b - a)
    parts = []
    for r in only_a[:2]:
        parts.append(f'only in creation: loops {[" ".join(x) for x in r[0]]} key {list(r[1])}')
    for r in only_b[:2]:
        parts.append(f'only in export: loops {[" ".join(x) for x in r[0]]} key {list(r[1])}')
    return '; '.join(parts)
