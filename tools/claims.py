"""Per-property claim texts for MANIFEST.json (only properties whose rules exist and pass)."""

TRUST = ('trusted: CPython ast of /repo/pytenet/*.py, the NumPy/SciPy API classification tables in /verif/sa, '
         'the frozen slot/leg/field tables transcribed from the docstrings (cross-checked against the code on every run)')

CLAIMS = {
    'C06': {
        'technique': 'static analysis: constant folding of the operator tables of the model constructors (abstract interpretation with a constant / band / opaque-parameter domain), charge typing, adjoint closure of the folded local terms, Jordan-Wigner mode typing, affine index algebra, AST path rules',
        'text': 'Decides the structural clauses of C06 for every L and every parameter value: each local operator of the six built-in '
                'constructors has one well-defined charge under the physical quantum numbers, and the quantum numbers written next '
                'to it (bond quantum numbers of the chain literals, node quantum numbers of the Ising automaton and of the linear '
                'fermionic graph, both values of the creation flag) change by exactly that charge - necessary for block sparsity; '
                'the local terms multiplying one parameter are Hermitian as they stand (necessary at L equal to the term length); '
                'between the two fermionic factors of a hopping term every mode carries Z and no other mode anything but the '
                'identity, and the linear fermionic operator applies identity / operator / Z left of, at and right of every site; '
                'the shifting helper places each local chain once, as a fresh copy, at every admissible start (chains longer than '
                'the lattice are left out); every parameter reaches a coefficient and the tables are complete.  The tables are '
                'folded inside the analyser; no pytenet code runs.  Equality of the dense matrix with the documented formula '
                '(numerical factors, signs of the documented terms) is not decided.',
        'design_ref': 'DESIGN.md 15',
        'note': TRUST + '; trusted: the constant folder sa/optable.py (own arithmetic on literals)',
    },
    'C05': {
        'technique': 'static analysis: path-sensitive id typestate + coefficient taint/def-use + list-length algebra over the AST',
        'text': 'Decides the structural clauses of C05 for all inputs: ids are handed out once on every path of '
                'from_opchains; no chain coefficient is dropped between the chain list and an edge (would have '
                'reported F1); MPO.from_opgraph uses one layer ordering for labels, node map, columns and rows; '
                'OpChain.padded length algebra; a pending coefficient is absorbed exactly once, through the edges entering the end node; the bond index recorded in nid_map is the position in the layer list and the map is recorded by enumerating the new layer; the half-chain list and its coefficient list are built in lockstep; coefficient values steer the structure only through the two documented tests; stores into preallocated typed arrays keep the element type; the node / edge tables connect both ends of every edge.  Does not decide operator equality of the compiled graph.',
        'design_ref': 'DESIGN.md 4.2, 5 (C05)',
        'note': TRUST + '; undecided: correctness of repartition + vertex cover as an algorithm',
    },
    'C19': {
        'technique': 'static analysis: interprocedural may-write / may-share (points-to) analysis on a typed abstract heap',
        'text': 'For every public entry point (155 obligations over ~135 functions): the set of parameters that may '
                'be written on any path through the function and its callees, and the set of operand objects that '
                'may be reachable from the result, are computed and compared with the documented in-place table.  '
                'Holds for all operand values and all later mutations of the result, which no value-based test can '
                'sample.  Over-approximates (may-analysis): a reported write/sharing names the statement.',
        'design_ref': 'DESIGN.md 4.1, 5 (C19)',
        'note': TRUST + '; assumptions: callbacks are pure (A-callback), user arrays do not overlap, class-field '
                'type table; limits: heap is flow-insensitive (weak updates), paths k-limited to 6',
    },
    'C07': {
        'technique': 'static analysis: path-sensitive id typestate, sibling-table agreement, exactly-once-sink path rule, taint, index-range entailment (Fourier-Motzkin), charge / parity typing of the explicit wiring',
        'text': 'Decides for every L at once (loops abstracted by fixpoints) that each node/edge id of the explicit '
                'molecular constructions is fresh when handed to a constructor (reported F2, invisible below L=5), that '
                'the creation / export / registration / lookup tables of the 2 x 12 node families agree, that every '
                'non-raising path of the term functions adds exactly one edge carrying the coefficient, and that both '
                'coefficient tensors reach both build paths; every key of a node family lies in the range created for it, for all L (Fourier-Motzkin over the loop nests, L//2 as a symbol); skip guards agree between creation and wiring; every explicit edge conserves charge and carries the Jordan-Wigner string its position requires; the two halves of the gauge transform are mirror images with conjugation and visit every spectator orbital; a len()-based id allocator is accepted only while no constructor of the family leaves a gap in the id range; no store into a preallocated typed array narrows the element type of the coefficient tensors (symbolic dtype lattice).  Operator equality of the two paths is not decided.',
        'design_ref': 'DESIGN.md 4.2, 4.6, 5 (C07)',
        'note': TRUST + '; the get() rule trusts the naming convention a_dag~C, a_ann~A',
    },
    'C16': {
        'technique': 'static analysis: dominating-guard sets vs callee asserts, may-write sets (effects engine), call reachability, affine direction algebra, path-partitioned exactly-once counting',
        'text': 'Decides the structural clauses: the guards dominating the node-fusing merge contain the three fusion '
                'conditions and every assert of merge_edges; rename/flip write every id-bearing location kind; '
                'eids[d] <-> nids[1-d] complementarity at every site; nothing reachable from simplify can add a node '
                'or edge (so it cannot grow the graph); add never writes the other graph and allocates above the '
                'maximum id of both graphs; OpGraphEdge.add is a sum of coefficient maps (each incoming coefficient enters exactly once on every path through the search loop).  Denotational equality of rewritten graphs is not decided.',
        'design_ref': 'DESIGN.md 4.6, 5 (C16)',
        'note': TRUST + '; callee resolution by the effects engine',
    },
    'C17': {
        'technique': 'static analysis: id typestate, role-based AST pattern rules with definition expansion, list-length algebra, definite assignment relative to loop entry, site-range typing of Kronecker products, sibling cross-check of the graph tables, path-partitioned exactly-once counting',
        'text': 'Decides the structural clauses of tree/automaton unfolding: ids unique on every path (incl. the guarded '
                'reuse of the terminal id), site-dependent automaton edges are always read through the callable '
                'dispatch at the site being unrolled, identity padding satisfies the callee length contract for all '
                'counts, recursion distance bookkeeping, guards and co-indexing of the unrolled edges, agreement of frontier and growth '
                'end in both reachability sweeps, no value carried from one tree / child to the next, the site order of every '
                'Kronecker product in the dense-meaning routines (chain, tree, graph in both directions), the adjacency tables of '
                'OpGraph and AutOp (both ends of an edge connected independently), and the edge constructor summing repeated operator ids.  The denotation of the '
                'unrolled graph as a sum over paths is not decided.',
        'design_ref': 'DESIGN.md 4.2, 4.6, 5 (C17)',
        'note': TRUST,
    },
    'C04': {
        'technique': 'static analysis: tensor-leg / contraction-network typing of kernel bodies, sibling network comparison, call-site role rules',
        'text': 'Every contraction kernel of operation.py is evaluated in a domain of contraction networks and compared '
                'with the network of its docstring diagram (conjugation side, which W leg meets ket/bra, output leg '
                'order); the left-, right- and local-Hamiltonian kernels are shown to be three openings of one closed '
                'network (also the kernels no test calls directly); drivers put chi in the conjugated slot.  Holds for '
                'all shapes and values because it is a statement about index wiring.  Numerical agreement is not decided.',
        'design_ref': 'DESIGN.md 4.4, 5 (C04)',
        'note': TRUST + '; reference networks transcribed from the docstrings',
    },
    'C14': {
        'technique': 'static analysis: symbolic (affine) array shapes with interval reasoning over loop variables, definite-assignment (must) analysis with possibly-empty loops, storage-dtype rule',
        'text': 'On every return path of the Lanczos and Arnoldi iterations - including the early-termination returns that '
                'the suite never takes - the output sizes are mutually consistent (len(alpha) = len(beta)+1 = V.shape[1], '
                'H square of order V.shape[1]) for all numiter >= 1 and n >= 1; every index/slice is proved in bounds; every local is '
                'definitely assigned on every path (numiter = 1 leaves the iteration loop empty); the basis is stored complex and '
                'starts with the normalised start vector; a coefficient that was subtracted from the residual is never overwritten.  The Krylov relations themselves are not decided.',
        'design_ref': 'DESIGN.md 4.7, 5 (C14)',
        'note': TRUST + '; assumes the callback maps a vector to a vector of the same length',
    },
    'C08': {
        'technique': 'static analysis: affine interval abstract interpretation of the sweep (validity / canonical-form intervals, derived loop invariants), symbolic schedule, effects, call reachability',
        'text': 'For all L (symbolically; the smallest lattices with L fixed): every local step of both TDVP integrators receives '
                'the environments, MPO tensors and state tensors of its own sites, environments are never used stale, the '
                'steps act at the orthogonality centre; per site/bond the step fractions sum to +1/-1 (a wrong half step or '
                'sign is reported); -dt reaches the exponential; H is never written and the operator of each local step is built from '
                'the current H.A tensors; the return value is the factor of the initial normalisation and nothing changes psi '
                'before it; single-site TDVP reaches no bond-enlarging operation; the Krylov basis is stored complex and '
                'expm_krylov is homogeneous of degree 1 in its start vector.  Conservation to rounding is not decided.',
        'design_ref': 'DESIGN.md 4.3, 4.1, 5 (C08)',
        'note': TRUST + '; obligations that cannot be established for every position of a sweep are reported as violations',
    },
    'C09': {
        'technique': 'static analysis: symbolic extraction of the sub-step schedule and comparison with its reversal; canonical-form intervals; must-pass-through over the exits of the local steps',
        'text': 'Decides the structural reason for reversibility: for every L the schedule of local steps of one time step of '
                'both integrators (kind, position affine in the loop variable, rational step fraction) is a palindrome (compared in a normal form that does not depend on how the source cuts the sequence into loops), every position receives step fractions summing to one time step also for L = 1 and L = 2, and '
                'the split direction keeps every step at the orthogonality centre; the reported norm is the factor of the initial '
                'normalisation of the input; every exit of the two local step functions returns the result of expm_krylov with time argument -dt (must-pass-through; only an exit guarded by dt == 0 may hand the input back); Krylov support rules as C08.  Exactness on a complete manifold and the size of the '
                'reversibility defect are numerical and not decided.',
        'design_ref': 'DESIGN.md 4.3, 5 (C09)',
        'note': TRUST,
    },
    'C10': {
        'technique': 'static analysis: affine interval abstract interpretation of the DMRG sweeps, effects, def-use rules',
        'text': 'For all L >= 2: local eigenproblems are started from the current tensor with the effective Hamiltonian of the '
                'right bonds, never with stale environments, on a mixed-canonical state; H is never written; each sweep ends '
                'with the normalisation of the leftmost tensor; the recorded energy is the Ritz value of the last local '
                'problem of the sweep; every sweep poses a local problem at every site / every pair of neighbours (coverage for all L); the lowest Ritz pair is returned unchanged.  Variational bounds, monotonicity and convergence are not decided.',
        'design_ref': 'DESIGN.md 4.3, 4.1, 5 (C10)',
        'note': TRUST,
    },
    'C01': {
        'technique': 'static analysis: tensor-leg typing with factorisation contracts (gauge invariance), affine sweep typing, sign domain + monomial factor algebra per path',
        'text': 'Decides, for all shapes and all L: each local QR step preserves the two-site product given Q@R == M (leg '
                'domain), every bond is re-factorised exactly once in order with matching tensor / label slots, the '
                'quantum numbers handed to the block QR are those of the merged legs, and on every path the returned '
                'factor is >= 0 and factor x (scale applied to the boundary tensor) equals the trailing 1x1 factor - so '
                'the sign-flip branch no test reaches is covered; every returning path of orthonormalize runs through the sweep and its boundary factorisation (must-pass-through).  Isometry and numerical equality are not decided.',
        'design_ref': 'DESIGN.md 4.3, 4.4, 4.2, 5 (C01)',
        'note': TRUST + '; assumes the QR contract Q@R == M (C11) and that the trailing factor is real',
    },
    'C13': {
        'technique': 'static analysis: direction-pairing and provenance rules, monomial factor algebra, affine sweep typing, leg-domain gauge invariance with singular-value exponents',
        'text': 'Decides the structural clauses: compression canonicalises in the opposite direction first and returns that '
                'norm; the returned scale is |T| and the absorbed phase times it equals the trailing factor; both SVD '
                'steps preserve the two-site product with singular values entering with total exponent 1; TT-SVD '
                'truncates u, s, v and the bond label with one index set; the truncation rule as in C12.  The error bounds themselves are not decided.',
        'design_ref': 'DESIGN.md 4.2-4.4, 5 (C13)',
        'note': TRUST + '; assumes the SVD contract U.diag(s).V == M (C12)',
    },
    'C11': {
        'technique': 'static analysis: frame / charge-tag typing (special-purpose abstract interpretation of bond_ops.qr), effects',
        'text': 'Covers every branch of the block QR including the ones the suite never takes (only one side unsorted, '
                'already sorted, no common charge): matrix axes and charge vectors are sorted together under the same '
                'guard and un-sorted with argsort of the same permutation on the right axis; every block read / write '
                'connects rows@q with cols@q of the shared charge q; the dummy-bond branch is a shape- and '
                'charge-consistent factorisation with dimension one; inputs are never written (no in-place re-arrangement); factor '
                'storage is inexact (F4) and charge storage integer.  Exactness and isometry of '
                'the dense block factorisations (NumPy) are not decided.',
        'design_ref': 'DESIGN.md 4.5, 5 (C11)',
        'note': TRUST,
    },
    'C12': {
        'technique': 'static analysis: frame / charge-tag typing of split_matrix_svd, bond-leg restriction rule, effects, leg-domain rules for split_mps_tensor, degree / power / accumulation-order typing of the truncation rule',
        'text': 'Same frame and block rules as C11 for the SVD split (sibling implementation), plus: one retained index set '
                'restricts u, s, v and q along the intermediate axis; the three routines never write their inputs (an '
                'in-place normalisation of the singular values is reported); split_mps_tensor distributes the singular '
                'values with total exponent 1 in all three modes, with the right charge orientation, and merging undoes the '
                'split; the truncation rule clause by clause (relative weights that sum to one, ascending accumulation across sectors, strict comparison, callers pass the singular values themselves).  The error identity and the tolerance bound as numerical statements are not decided.',
        'design_ref': 'DESIGN.md 4.5, 4.4, 4.1, 5 (C12)',
        'note': TRUST,
    },
    'C02': {
        'technique': 'static analysis: kind (type-state) analysis of quantum-number stores, pairing rules on the sweep machine, leg-domain charge orientation, layout rules',
        'text': 'Per operation, for all inputs: every quantum-number container ever stored is an ndarray (reported F3: '
                'from_vector stored Python lists, which broke every later operation of a history); every bond-changing '
                'tensor store is paired with the label store of the same bond from the same factorisation; charges handed to '
                'the block QR / SVD and the sign of every stored label agree with the sparsity rule of the object; labels of '
                'products and sums are ordered like the merged legs / blocks; new objects own their charge vectors; the constructors '
                'mask every site with the labels of that site (no value carried from site to site).  The induction over histories additionally '
                'relies on the per-operation runtime asserts; numerical vanishing of blocks is not decided.  The quantum-number helpers every sparsity rule takes for granted are checked themselves: qnumber_outer_sum is a left fold of np.add.outer over the lists in order, qnumber_flatten flattens in row-major order, is_qsparse is an existential reduction (never a sum of signed charges).',
        'design_ref': 'DESIGN.md 4.8, 4.3, 4.4, 5 (C02)',
        'note': TRUST + '; class invariant (X.qd ndarray, X.qD list of ndarray) used for loads is what the stores establish',
    },
    'C03': {
        'technique': 'static analysis: leg-domain evaluation of product / merge / split code, AST layout rules for block sums and dense conversions, value-taint linearity rule, aliasing / dtype rules',
        'text': 'Decides the index-wiring part of the homomorphism laws: which legs are contracted and how bond legs are '
                'grouped in apply / compose / merge / split, block layout and alpha placement of sums in both the L == 1 and '
                'L > 1 branches, site-major ordering of every dense conversion, total singular-value exponent 1 in all '
                'three split modes; boundary labels and storage dtype of sums and of every preallocated typed array (symbolic element-type lattice), bond labels of the product resolved through locals and covering bonds 0..L, independence of the site data of constructed '
                'objects, and (multi)linearity: conversions and arithmetic never inspect tensor entries (value taint).  Dense '
                'equality up to rounding, the index arithmetic of the sparse as_matrix path and from_vector numerics are not decided.',
        'design_ref': 'DESIGN.md 4.4, 5 (C03)',
        'note': TRUST,
    },
}
