#!/usr/bin/env python3
"""Writes sa/known_symbols.json: the functions, methods and local names of /repo/pytenet as it is now (pinned tree plus
fix commits).  The analysers treat module-level functions / methods that are NOT listed here as helpers introduced by a
later edit and inline them into their callers before the rules run (sa/inline.py); locals not listed here may be
inlined when they are pure single-assignment temporaries (sa/normal.py).  Regenerate only when /repo is deliberately
re-pinned."""
import ast
import json
import os

VERIF = os.path.dirname(os.path.dirname(os.path.abspath(__file__)))
out = {}
d = '/repo/pytenet'
for fn in sorted(os.listdir(d)):
    if not fn.endswith('.py'):
        continue
    tree = ast.parse(open(os.path.join(d, fn)).read())
    m = {'functions': [], 'methods': {}, 'locals': {}, 'spellings': {}}

    def spellings(fn):
        """shapes (local names abstracted to `_`) of the loop headers and assignments of the pinned version: statements
        of these shapes are never rewritten, so that a consistent renaming of locals changes nothing"""
        import sys
        sys.path.insert(0, VERIF)
        from sa.normal import shape_key
        out = set()
        for n in ast.walk(fn):
            if isinstance(n, (ast.For, ast.Assign)):
                out.add(shape_key(n))
        return sorted(out)
    for s in tree.body:
        if isinstance(s, ast.FunctionDef):
            m['functions'].append(s.name)
            m['locals'][s.name] = sorted({n.id for n in ast.walk(s) if isinstance(n, ast.Name)} | {a.arg for a in s.args.args})
            m['spellings'][s.name] = spellings(s)
        elif isinstance(s, ast.ClassDef):
            m['methods'][s.name] = [x.name for x in s.body if isinstance(x, ast.FunctionDef)]
            for x in s.body:
                if isinstance(x, ast.FunctionDef):
                    m['locals'][f'{s.name}.{x.name}'] = sorted({n.id for n in ast.walk(x) if isinstance(n, ast.Name)} |
                                                                {a.arg for a in x.args.args})
                    m['spellings'][f'{s.name}.{x.name}'] = spellings(x)
    out[fn[:-3]] = m
json.dump(out, open(os.path.join(VERIF, 'sa', 'known_symbols.json'), 'w'), indent=0, sort_keys=True)
print('modules', len(out), 'functions', sum(len(m['functions']) for m in out.values()),
      'methods', sum(len(v) for m in out.values() for v in m['methods'].values()))
