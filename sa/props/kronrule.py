"""Site order of Kronecker products in the dense-meaning routines (C17.R6).

Every dense value carries the contiguous range of lattice sites it acts on, relative to the position p of the node /
the start of the chain:   zero (1x1 zero), scal (1x1), pad (identity of unknown size), seg(lo, hi) = sites [lo, hi)
with hi possibly unknown.  Rules:

  kron(A, B)    A acts on the earlier sites:  A.hi == B.lo,   result seg(A.lo, B.hi);  scal is neutral;
                kron(seg, pad) extends to the right (lo kept); kron(pad, seg) moves the left end (lo unknown)
  A + B         both summands start at the same site (lo equal, known); hi may be unknown (padding)
  return        the value starts at the site the routine is specified to start at

The routines, their local-operator site, recursion contract and loop kind are listed in ROUTINES (read off the
docstrings and data-structure conventions: an OpChain lists its operators from site istart on; the operator of a tree /
graph edge sits at the site of its parent node, the subtree behind it on the sites after it; in direction 0 the graph
is contracted towards the start terminal).
"""
import ast

from ..loader import norm, AnalysisError
from ..affine import Affine
from .common import where

P = Affine.sym('p')
K = Affine.sym('k')
ONE = Affine.const(1)


def seg(lo, hi):
    return ('seg', lo, hi)


class Kron:
    def __init__(self, fi, loc_site, rec_name, rec_arg_ok, rec_type, opmap, direction=None):
        self.fi = fi
        self.loc_site = loc_site          # Affine: site of `opmap[...]`
        self.rec_name = rec_name
        self.rec_arg_ok = rec_arg_ok      # callable(call) -> bool
        self.rec_type = rec_type
        self.opmap = opmap
        self.direction = direction
        self.findings = []                # (node, ok, text)
        self.returns = []

    def ob(self, node, ok, text):
        self.findings.append((node, bool(ok), text))

    # ------------------------------------------------------------------
    def is_dense(self, t):
        return isinstance(t, tuple) and t[0] in ('zero', 'scal', 'pad', 'seg')

    def ev(self, e, env):
        if isinstance(e, ast.Constant):
            return ('zero',) if e.value == 0 else ('num',)
        if isinstance(e, ast.Name):
            return env.get(e.id, ('num',))
        if isinstance(e, ast.Subscript) and norm(e.value) == self.opmap:
            return seg(self.loc_site, self.loc_site + ONE)
        if isinstance(e, ast.Call):
            f = norm(e.func)
            if f in ('np.identity', 'np.eye') and e.args:
                return ('scal',) if norm(e.args[0]) == '1' else ('pad',)
            if f == 'np.zeros' and e.args:
                return ('zero',) if norm(e.args[0]) in ('(1, 1)', '[1, 1]') else ('unknown', norm(e))
            if f == 'sum' and len(e.args) == 1 and isinstance(e.args[0], ast.GeneratorExp):
                return self.ev(e.args[0].elt, env)
            if f == self.rec_name:
                self.ob(e, self.rec_arg_ok(e), f'`{norm(e)[:70]}`: the recursion descends to the node behind the current edge')
                return self.rec_type
            if f == 'np.kron' and len(e.args) == 2:
                a, b = self.ev(e.args[0], env), self.ev(e.args[1], env)
                return self.kron(e, a, b)
            if f in ('np.array', 'np.asarray', 'np.copy') and e.args:
                return self.ev(e.args[0], env)
            if f in ('np.add', 'np.subtract', 'np.multiply') and len(e.args) == 2 and not e.keywords:
                # the function form of the operator
                op = {'np.add': ast.Add(), 'np.subtract': ast.Sub(), 'np.multiply': ast.Mult()}[f]
                return self.ev(ast.copy_location(ast.BinOp(left=e.args[0], op=op, right=e.args[1]), e), env)
            return ('num',)
        if isinstance(e, ast.BinOp):
            a, b = self.ev(e.left, env), self.ev(e.right, env)
            if isinstance(e.op, ast.Mult):
                if self.is_dense(a) and not self.is_dense(b):
                    return a
                if self.is_dense(b) and not self.is_dense(a):
                    return b
                if not self.is_dense(a) and not self.is_dense(b):
                    return ('num',)
                return ('unknown', norm(e))
            if isinstance(e.op, (ast.Add, ast.Sub)):
                if not self.is_dense(a) and not self.is_dense(b):
                    return ('num',)
                return self.add(e, a, b)
            if isinstance(e.op, ast.MatMult):
                return ('unknown', norm(e))
            return ('num',)
        if isinstance(e, ast.UnaryOp):
            return self.ev(e.operand, env)
        if isinstance(e, ast.IfExp):
            t = self.fold(e.test)
            if isinstance(t, bool):
                return self.ev(e.body if t else e.orelse, env)
            a, b = self.ev(e.body, env), self.ev(e.orelse, env)
            return self.join(a, b)          # as for the two arms of an `if` statement
        return ('num',)

    def kron(self, e, a, b):
        txt = f'`{norm(e)[:70]}`'
        if a[0] == 'scal':
            return b
        if b[0] == 'scal':
            return a
        if a[0] == 'zero' or b[0] == 'zero':
            return ('zero',)
        if a[0] == 'seg' and b[0] == 'seg':
            ok = a[2] is not None and a[2] == b[1]
            self.ob(e, ok, f'{txt}: the left factor acts on the sites directly before the right factor '
                           f'(left [{a[1]}, {a[2]}), right [{b[1]}, {b[2]}))')
            return seg(a[1], b[2]) if ok else ('unknown', norm(e))
        if a[0] == 'seg' and b[0] == 'pad':
            return seg(a[1], None)
        if a[0] == 'pad' and b[0] == 'seg':
            return seg(None, b[2])
        if a[0] == 'pad' and b[0] == 'pad':
            return ('pad',)
        return ('unknown', norm(e))

    def add(self, e, a, b):
        txt = f'`{norm(e)[:70]}`'
        if a[0] in ('zero', 'num'):
            return b if self.is_dense(b) else a
        if b[0] in ('zero', 'num'):
            return a
        if a[0] == 'seg' and b[0] == 'seg':
            ok_lo = a[1] is not None and b[1] is not None and a[1] == b[1]
            ok_hi = a[2] is not None and b[2] is not None and a[2] == b[2]
            ok = ok_lo or ok_hi
            self.ob(e, ok, f'{txt}: both summands are anchored at a common site (left summand on [{a[1]}, {a[2]}), right '
                           f'summand on [{b[1]}, {b[2]}); None = end moved by an identity factor / not known)')
            return seg(a[1] if ok_lo else None, a[2] if ok_hi else None) if ok else ('unknown', norm(e))
        if a[0] == 'scal' and b[0] == 'scal':
            return ('scal',)
        self.ob(e, False, f'{txt}: summands of kinds {a[0]} and {b[0]} cannot be placed on common sites')
        return ('unknown', norm(e))

    def fold(self, test):
        if self.direction is None:
            return None
        from .C17 import fold
        v = fold(test, {'direction': self.direction})
        return v if isinstance(v, bool) else None

    # ------------------------------------------------------------------
    def join(self, a, b):
        if a == b:
            return a
        if a[0] == 'zero':
            return b
        if b[0] == 'zero':
            return a
        if a[0] == 'seg' and b[0] == 'seg':
            return seg(a[1] if a[1] == b[1] else None, a[2] if a[2] == b[2] else None)
        if a[0] == 'scal' and b[0] == 'seg':       # a 1x1 factor is an empty range of sites, wherever it is needed
            return b
        if b[0] == 'scal' and a[0] == 'seg':
            return a
        if not self.is_dense(a) and not self.is_dense(b):
            return ('num',)
        return ('unknown', 'join')

    def block(self, stmts, env):
        for s in stmts:
            if env is None:
                return None
            env = self.stmt(s, env)
        return env

    def stmt(self, s, env):
        if isinstance(s, (ast.Assert, ast.Pass)) or (isinstance(s, ast.Expr) and isinstance(s.value, ast.Constant)):
            return env
        if isinstance(s, ast.Assign) and len(s.targets) == 1 and isinstance(s.targets[0], ast.Name):
            env = dict(env)
            env[s.targets[0].id] = self.ev(s.value, env)
            return env
        if isinstance(s, ast.Return):
            self.returns.append((s, self.ev(s.value, env)))
            return None
        if isinstance(s, ast.If):
            t = self.fold(s.test)
            if isinstance(t, bool):
                return self.block(s.body if t else s.orelse, env)
            a = self.block(s.body, dict(env))
            b = self.block(s.orelse, dict(env))
            if a is None:
                return b
            if b is None:
                return a
            return {k: self.join(a.get(k, ('num',)), b.get(k, ('num',))) for k in set(a) | set(b)}
        if isinstance(s, ast.For):
            return self.loop(s, env)
        if isinstance(s, ast.AugAssign) and isinstance(s.target, ast.Name):
            fake = ast.BinOp(left=ast.Name(id=s.target.id, ctx=ast.Load()), op=s.op, right=s.value)
            ast.copy_location(fake, s)
            ast.fix_missing_locations(fake)
            env = dict(env)
            env[s.target.id] = self.ev(fake, env)
            return env
        raise AnalysisError(f'{self.fi.qual}: statement `{norm(s)[:60]}` not handled by the Kronecker-order rule')

    def loop(self, s, env):
        raise NotImplementedError


class SummandLoop(Kron):
    """loop over independent summands (children / edges): the accumulator is analysed from its initial value and from
    the value after one iteration; both must give the same type"""

    def loop(self, s, env):
        e1 = self.block(s.body, dict(env))
        if e1 is None:
            raise AnalysisError(f'{self.fi.qual}: loop body always returns')
        n0 = len(self.findings)
        e2 = self.block(s.body, dict(e1))
        # the second pass repeats the obligations of the first; keep only the failures it adds
        have = {(id(f[0]), f[2]) for f in self.findings[:n0]}
        extra = [f for f in self.findings[n0:] if not f[1] and (id(f[0]), f[2]) not in have]
        del self.findings[n0:]
        self.findings += extra
        out = {}
        for k in set(e1) | set(e2):
            v = self.join(e1.get(k, ('num',)), e2.get(k, ('num',)))
            if k in env and self.is_dense(env[k]):
                v = self.join(env[k], v)
            out[k] = v
        return out


class ChainLoop(Kron):
    """`for X in self.oids`: the k-th operator sits at site k (relative to istart); accumulators that hold a segment
    after the first iteration are generalised to seg(lo, k) and checked inductive"""

    def loop(self, s, env):
        if norm(s.iter) in ('range(len(self.oids))', 'range(0, len(self.oids))') and isinstance(s.target, ast.Name):
            # the index loop whose index is only used to pick `self.oids[k]`: the loop over the operator ids themselves
            import copy
            k_ = s.target.id
            uses = [x for b_ in s.body for x in ast.walk(b_) if isinstance(x, ast.Name) and x.id == k_]
            picks = [x for b_ in s.body for x in ast.walk(b_) if isinstance(x, ast.Subscript) and norm(x) == f'self.oids[{k_}]'
                     and isinstance(x.ctx, ast.Load)]
            if uses and len(uses) == len(picks):
                class _Pick(ast.NodeTransformer):
                    def visit_Subscript(self, node):
                        if norm(node) == f'self.oids[{k_}]':
                            return ast.copy_location(ast.Name(id=f'{k_}__oid', ctx=ast.Load()), node)
                        self.generic_visit(node)
                        return node
                s2 = copy.deepcopy(s)
                s2.body = [_Pick().visit(b_) for b_ in s2.body]
                s2.target = ast.copy_location(ast.Name(id=f'{k_}__oid', ctx=ast.Store()), s.target)
                s2.iter = ast.copy_location(ast.parse('self.oids', mode='eval').body, s.iter)
                ast.fix_missing_locations(s2)
                s = s2
        if norm(s.iter) != 'self.oids' or not isinstance(s.target, ast.Name):
            raise AnalysisError(f'{self.fi.qual}: loop `{norm(s.iter)}` is not the ascending loop over the operator ids')
        saved = self.loc_site
        n0 = len(self.findings)
        self.loc_site = Affine.const(0)
        e1 = self.block(s.body, dict(env))
        del self.findings[n0:]
        inv = dict(env)
        for k_, v in e1.items():
            if v[0] == 'seg' and env.get(k_, ('num',))[0] in ('scal', 'zero'):
                if v[1] is None or v[2] is None or not (v[1] == Affine.const(0) and v[2] == ONE):
                    self.ob(s, False, f'first iteration leaves `{k_}` on sites [{v[1]}, {v[2]}) instead of [0, 1)')
                    inv[k_] = ('unknown', 'first iteration')
                else:
                    inv[k_] = seg(Affine.const(0), K)
        self.loc_site = K
        e2 = self.block(s.body, dict(inv))
        for k_, v in inv.items():
            if v[0] == 'seg':
                w = e2.get(k_)
                ok = w is not None and w[0] == 'seg' and w[1] == v[1] and w[2] == K + ONE
                self.ob(s, ok, f'`{k_}` covers the sites [0, k) before and [0, k+1) after the k-th pass of '
                               f'`for {norm(s.target)} in {norm(s.iter)}` (found {w})')
        self.loc_site = saved
        out = dict(env)
        for k_, v in inv.items():
            if v[0] == 'seg':
                out[k_] = seg(v[1], Affine.sym('n'))
            elif k_ in e2:
                out[k_] = e2[k_]
        return out


def analyse(chk, repo, rid, declare=True):
    if declare:
      chk.rule(rid, 'site order of Kronecker products in the dense-meaning routines (OpChain.as_matrix, _subtree_as_matrix, '
                  '_subgraph_as_matrix for both directions): every dense value is typed with the range of sites it acts on; '
                  'in kron(A, B) A acts on the sites directly before B; identity padding extends to the right only; both '
                  'operands of a sum start at the same site; the recursion descends to the node behind the current edge')
    n = 0
    # --- OpChain.as_matrix
    fi = repo.func('opchain.OpChain.as_matrix')
    k = ChainLoop(fi, K, None, None, None, fi.params[1])
    k.block(fi.node.body, {})
    n += emit(chk, repo, rid, fi, k, 'chain', Affine.const(0))
    # --- _subtree_as_matrix
    fi = repo.func('optree._subtree_as_matrix')
    node, opmap = fi.params[0], fi.params[1]

    def child_arg(call, node=node):
        # the argument is `<edge>.node` with <edge> ranging over `<node>.children`
        a = call.args[0] if call.args else None
        if not (isinstance(a, ast.Attribute) and a.attr == 'node' and isinstance(a.value, ast.Name)):
            return False
        return any(isinstance(l, ast.For) and norm(l.target) == a.value.id and norm(l.iter) == f'{node}.children'
                   for l in ast.walk(fi.node))
    k = SummandLoop(fi, P, '_subtree_as_matrix', child_arg, seg(P + ONE, None), opmap)
    k.block(fi.node.body, {})
    n += emit(chk, repo, rid, fi, k, 'tree', P)
    # --- _subgraph_as_matrix, both directions
    fi = repo.func('opgraph._subgraph_as_matrix')
    g, nid, opmap, dname = fi.params[:4]
    if dname != 'direction':
        from ..canon import _Ren
        import copy
        fn = _Ren({dname: 'direction'}).visit(copy.deepcopy(fi.node))
    else:
        fn = fi.node
    for d in (0, 1):
        def next_arg(call, d=d):
            a = call.args[1] if len(call.args) > 1 else None
            if a is None:
                return False
            t = norm(a)
            edges = {norm(s_.targets[0]) for s_ in ast.walk(fn) if isinstance(s_, ast.Assign) and
                     norm(s_.value).startswith(f'{g}.edges[')}
            return any(t == f'{e}.nids[direction]' for e in edges)
        if d == 1:
            k = SummandLoop(fi, P, '_subgraph_as_matrix', next_arg, seg(P + ONE, None), opmap, direction=1)
            start = P
        else:
            # contraction towards the start terminal: the local operator sits on the site before the node, the
            # sub-result ends where it begins
            k = SummandLoop(fi, P - ONE, '_subgraph_as_matrix', next_arg, seg(None, P - ONE), opmap, direction=0)
            start = None
        k.block(fn.body, {})
        n += emit(chk, repo, rid, fi, k, f'graph direction {d}', start, end=(P if d == 0 else None))
    if declare:
        chk.floor(rid, n, 10, hard_min=8)
    return n


def emit(chk, repo, rid, fi, k, label, start, end=None):
    n = 0
    seen = {}
    for node, ok, text in k.findings:
        key = f'{rid}|{fi.qual}|{label}|{text[:150]}'
        seen[key] = seen.get(key, 0) + 1
        chk.ob(rid, where(repo, fi, node), f'{fi.name} [{label}]: {text[:160]}', ok, text,
               key=key + (f'|#{seen[key]}' if seen[key] > 1 else ''))
        n += 1
    dense = [(r, t) for r, t in k.returns if t[0] not in ('scal',)]
    if not dense:
        raise AnalysisError(f'{fi.qual} [{label}]: no return of a composed operator found')
    for r, t in dense:
        if end is not None:
            ok = t[0] == 'seg' and t[2] is not None and t[2] == end
            what = f'ends at the site before the node (sites [.., {end}))'
        else:
            ok = t[0] == 'seg' and t[1] is not None and t[1] == start
            what = f'starts at site {start}'
        chk.ob(rid, where(repo, fi, r), f'{fi.name} [{label}]: the returned operator {what}', ok, f'returned value is {t}',
               key=f'{rid}|{fi.qual}|{label}|return|{norm(r)[:60]}')
        n += 1
    return n
