#!/usr/bin/env python3
"""Records, in seeded/<id>/meta.json, what the checks said when the change was first run (before any rule was added
because of it) and which rule was added afterwards.  The table is maintained by hand while the seeds are triaged."""
import json
import os

VERIF = os.path.dirname(os.path.dirname(os.path.abspath(__file__)))

# seed -> (own check at first run, other checks reporting at first run, rule added because of it)
FIRST = {
    'C01-1': ('reported', [], None), 'C01-2': ('reported', ['C02', 'C08', 'C11'], None), 'C01-3': ('reported', [], None),
    'C02-1': ('reported', ['C08', 'C12', 'C13'], None),
    'C02-2': ('silent', ['C13'], 'C02.R2 extended with the from_vector pairing'),
    'C02-3': ('silent', ['C19'], 'C02.R6 ownership of the charge vectors'),
    'C03-1': ('silent', [], 'C03.R2 boundary labels of the sum'),
    'C03-2': ('silent', [], 'C03.R5 dtype of the sum blocks (sum_dtype_rule)'),
    'C03-3': ('silent', ['C19'], 'C03.R5 independence of site data (aliasing_rules)'),
    'C04-1': ('reported', [], None), 'C04-2': ('reported', [], None), 'C04-3': ('reported', ['C08', 'C10'], None),
    'C05-1': ('silent', [], 'C05 in-edge slot rule (eids[0] of the end node)'),
    'C05-2': ('silent', [], 'C05.R5 coefficient placed exactly once'),
    'C05-3': ('analysis-error', [], 'len()-based bond index rule for nid_map'),
    'C07-1': ('silent', [], 'C07.R3b skip-guard rule'),
    'C07-2': ('silent', [], 'C07.R5 gauge mirror / conjugation rule'),
    'C07-3': ('silent', [], 'C07.R8 Jordan-Wigner parity of every edge'),
    'C08-1': ('silent', [], 'K.R4 storage dtype of the Krylov basis'),
    'C08-2': ('analysis-error', [], 'C08.R2 nothing changes psi before the normalisation; conditionals in the sweep machine'),
    'C08-3': ('analysis-error', ['C19'], 'operator argument must be the current H.A tensors (slot rule); conditionals'),
    'C09-1': ('reported', ['C08', 'C10', 'C14'], None),
    'C09-2': ('silent', ['C08'], 'K.R6 homogeneity of expm_krylov in the start vector'),
    'C09-3': ('silent', ['C08'], 'C09.R3 reported norm'),
    'C10-1': ('reported', ['C08', 'C09', 'C14'], None),
    'C10-2': ('silent', [], 'C10.R6 sweep coverage'),
    'C10-3': ('reported', [], None),
    'C11-1': ('analysis-error', ['C19'], 'in-place re-arrangement reported by the block engine'),
    'C11-2': ('reported', ['C01', 'C02', 'C08'], None),
    'C11-3': ('silent', [], 'charge storage dtype in the block engine'),
    'C12-1': ('silent', [], 'C12.R8 truncation rule T2 (ascending accumulation)'),
    'C12-2': ('analysis-error', [], 'overwrite_* flags: effects engine and block engine'),
    'C12-3': ('silent', [], 'C12.R8 truncation rule T3 (strict comparison)'),
    'C13-1': ('silent', [], 'C13.R7 truncation rule T1 (relative weight)'),
    'C13-2': ('reported', [], None), 'C13-3': ('reported', ['C02'], None),
    'C14-1': ('reported', ['C08', 'C09', 'C10'], None), 'C14-2': ('reported', ['C08', 'C09', 'C10'], None),
    'C14-3': ('silent', [], 'C14.R5 definite assignment'),
    'C16-1': ('reported', ['C19'], None),
    'C16-2': ('silent', [], 'C16.R6 coefficient-map sum in OpGraphEdge.add'),
    'C16-3': ('reported', [], None),
    'C17-1': ('silent', [], 'C17.R4 frontier / growth agreement'),
    'C17-2': ('silent', [], 'C17.R5 no loop-carried local'),
    'C17-3': ('silent', [], 'C17.R6 Kronecker site order'),
    'C19-1': ('reported', [], None), 'C19-2': ('reported', [], None), 'C19-3': ('reported', [], None),
}


def main():
    base = os.path.join(VERIF, 'seeded')
    for sid, (own, others, rule) in FIRST.items():
        mp = os.path.join(base, sid, 'meta.json')
        if not os.path.exists(mp):
            print('missing', sid)
            continue
        m = json.load(open(mp))
        m['first_run'] = {'own_check': own, 'other_checks_reporting': others, 'rule_added_afterwards': rule}
        m.pop('reported_when_first_run', None)
        json.dump(m, open(mp, 'w'), indent=1)
    missing = [d for d in sorted(os.listdir(base)) if os.path.isdir(os.path.join(base, d)) and d not in FIRST]
    if missing:
        print('no history entry for', missing)


if __name__ == '__main__':
    main()
