"""Generic behaviour-preserving rewrites applied before a rule reads a function (so that the rule sees one spelling).

  enumerate_to_range   for k, x in enumerate(S[:n]) / enumerate(S)   ->   for k in range(n) / range(len(S)),  x -> S[k]
                       (valid when neither S nor x is rebound inside the loop: x is the k-th row view of S)
  aug_from_binop       X = X + e (ints, X a plain name)               ->   X += e
"""
import ast
import copy

from .loader import norm


class _SubstName(ast.NodeTransformer):
    def __init__(self, name, repl):
        self.name, self.repl = name, repl

    def visit_Name(self, node):
        if node.id == self.name and isinstance(node.ctx, ast.Load):
            r = copy.deepcopy(self.repl)
            ast.copy_location(r, node)
            return r
        return node


def enumerate_to_range(fnode):
    fn = copy.deepcopy(fnode)
    for loop in [n for n in ast.walk(fn) if isinstance(n, ast.For)]:
        it = loop.iter
        if not (isinstance(it, ast.Call) and norm(it.func) == 'enumerate' and len(it.args) == 1 and not it.keywords and
                isinstance(loop.target, ast.Tuple) and len(loop.target.elts) == 2 and
                all(isinstance(x, ast.Name) for x in loop.target.elts)):
            continue
        k, x = loop.target.elts[0].id, loop.target.elts[1].id
        seq = it.args[0]
        if isinstance(seq, ast.Subscript) and isinstance(seq.slice, ast.Slice) and seq.slice.lower is None and \
                seq.slice.step is None and seq.slice.upper is not None and isinstance(seq.value, ast.Name):
            base, bound = seq.value, seq.slice.upper
        elif isinstance(seq, ast.Name):
            base, bound = seq, ast.Call(func=ast.Name(id='len', ctx=ast.Load()), args=[copy.deepcopy(seq)], keywords=[])
        else:
            continue
        stored = {n.id for b in loop.body for n in ast.walk(b) if isinstance(n, ast.Name) and isinstance(n.ctx, ast.Store)}
        if x in stored or base.id in stored or k in stored:
            continue
        repl = ast.Subscript(value=ast.Name(id=base.id, ctx=ast.Load()), slice=ast.Name(id=k, ctx=ast.Load()), ctx=ast.Load())
        loop.body = [_SubstName(x, repl).visit(b) for b in loop.body]
        loop.target = ast.copy_location(ast.Name(id=k, ctx=ast.Store()), loop.target)
        loop.iter = ast.copy_location(ast.Call(func=ast.Name(id='range', ctx=ast.Load()), args=[bound], keywords=[]), it)
    ast.fix_missing_locations(fn)
    return fn


def aug_from_binop(fnode):
    fn = copy.deepcopy(fnode)
    for n in ast.walk(fn):
        for f in ('body', 'orelse', 'finalbody'):
            blk = getattr(n, f, None)
            if not (isinstance(blk, list) and blk and isinstance(blk[0], ast.stmt)):
                continue
            for i, s in enumerate(blk):
                if isinstance(s, ast.Assign) and len(s.targets) == 1 and isinstance(s.targets[0], ast.Name) and \
                        isinstance(s.value, ast.BinOp) and isinstance(s.value.op, ast.Add):
                    nm = s.targets[0].id
                    l, r = s.value.left, s.value.right
                    other = r if isinstance(l, ast.Name) and l.id == nm else (l if isinstance(r, ast.Name) and r.id == nm else None)
                    if other is not None and isinstance(other, ast.Constant) and isinstance(other.value, int):
                        blk[i] = ast.copy_location(ast.AugAssign(target=ast.Name(id=nm, ctx=ast.Store()), op=ast.Add(),
                                                                 value=other), s)
    ast.fix_missing_locations(fn)
    return fn


def wrap(fi, *passes):
    from .canon import CanonFunc
    node = fi.node
    for p in passes:
        node = p(node)
    return CanonFunc(fi, node, getattr(fi, 'renamed', {}))


def inline_site_aliases(fnode):
    """T = X.A[e] (T bound once in its statement block, X.A[..] not stored into later in that block, T never rebound in
    the function)  ->  uses of T in the rest of the block replaced by X.A[e], the assignment dropped"""
    fn = copy.deepcopy(fnode)
    stores = {}
    for n in ast.walk(fn):
        if isinstance(n, ast.Name) and isinstance(n.ctx, ast.Store):
            stores[n.id] = stores.get(n.id, 0) + 1
    for n in list(ast.walk(fn)):
        for f in ('body', 'orelse', 'finalbody'):
            blk = getattr(n, f, None)
            if not (isinstance(blk, list) and blk and isinstance(blk[0], ast.stmt)):
                continue
            i = 0
            while i < len(blk):
                s = blk[i]
                if isinstance(s, ast.Assign) and len(s.targets) == 1 and isinstance(s.targets[0], ast.Name) and \
                        stores.get(s.targets[0].id) == 1 and isinstance(s.value, ast.Subscript) and \
                        isinstance(s.value.value, ast.Attribute) and s.value.value.attr == 'A' and \
                        isinstance(s.value.value.value, ast.Name):
                    t = s.targets[0].id
                    owner = norm(s.value.value)
                    rest = blk[i + 1:]
                    written = any(isinstance(x, ast.Subscript) and isinstance(x.ctx, ast.Store) and norm(x.value) == owner
                                  for r in rest for x in ast.walk(r))
                    idx_names = {x.id for x in ast.walk(s.value.slice) if isinstance(x, ast.Name)}
                    idx_rebound = any(isinstance(x, ast.Name) and isinstance(x.ctx, ast.Store) and x.id in idx_names
                                      for r in rest for x in ast.walk(r))
                    if not written and not idx_rebound:
                        blk[i + 1:] = [_SubstName(t, s.value).visit(r) for r in rest]
                        del blk[i]
                        continue
                i += 1
    ast.fix_missing_locations(fn)
    return fn


def dictcomp_to_loops(fnode):
    """T = {k: v for k in R [if c]} (one generator; v may again be such a comprehension)
         ->  T = {} ; for k in R: [if c:] T[k] = v      (recursively for nested values)"""
    fn = copy.deepcopy(fnode)

    def expand(target, comp, loc):
        out = [ast.Assign(targets=[copy.deepcopy(target)], value=ast.Dict(keys=[], values=[]))]
        g = comp.generators[0]
        store = copy.deepcopy(target)
        for x in ast.walk(store):
            if hasattr(x, 'ctx'):
                x.ctx = ast.Load()
        slot = ast.Subscript(value=store, slice=copy.deepcopy(comp.key), ctx=ast.Store())
        if isinstance(comp.value, ast.DictComp) and len(comp.value.generators) == 1:
            inner = expand(slot, comp.value, loc)
        else:
            inner = [ast.Assign(targets=[slot], value=copy.deepcopy(comp.value))]
        body = inner
        for c in reversed(g.ifs):
            body = [ast.If(test=copy.deepcopy(c), body=body, orelse=[])]
        out.append(ast.For(target=copy.deepcopy(g.target), iter=copy.deepcopy(g.iter), body=body, orelse=[]))
        for o in out:
            ast.copy_location(o, loc)
        return out
    for n in list(ast.walk(fn)):
        for f in ('body', 'orelse', 'finalbody'):
            blk = getattr(n, f, None)
            if not (isinstance(blk, list) and blk and isinstance(blk[0], ast.stmt)):
                continue
            i = 0
            while i < len(blk):
                s = blk[i]
                if isinstance(s, ast.Assign) and len(s.targets) == 1 and isinstance(s.value, ast.DictComp) and \
                        len(s.value.generators) == 1:
                    new = expand(s.targets[0], s.value, s)
                    blk[i:i + 1] = new
                    i += len(new)
                    continue
                i += 1
    ast.fix_missing_locations(fn)
    return fn


def inline_procedures(helpers):
    """pass factory: `helper(a, b)` as a statement, helper = straight-line sequence of assignments without return value
    (a procedure of the same module)  ->  its statements with the formals replaced by the actual arguments"""
    def run(fnode):
        fn = copy.deepcopy(fnode)
        for n in list(ast.walk(fn)):
            for f in ('body', 'orelse', 'finalbody'):
                blk = getattr(n, f, None)
                if not (isinstance(blk, list) and blk and isinstance(blk[0], ast.stmt)):
                    continue
                i = 0
                while i < len(blk):
                    s = blk[i]
                    if isinstance(s, ast.Expr) and isinstance(s.value, ast.Call) and isinstance(s.value.func, ast.Name) and \
                            s.value.func.id in helpers and s.value.func.id != fn.name and not s.value.keywords:
                        h = helpers[s.value.func.id]
                        body = [b for b in h.body if not (isinstance(b, ast.Expr) and isinstance(b.value, ast.Constant))
                                and not isinstance(b, ast.Assert)]
                        locals_ = {x.id for b in body for x in ast.walk(b) if isinstance(x, ast.Name) and
                                   isinstance(x.ctx, ast.Store)}
                        if body and all(isinstance(b, (ast.Assign, ast.AugAssign)) for b in body) and not locals_ and \
                                len(h.args.args) == len(s.value.args):
                            new = []
                            for b in body:
                                b2 = copy.deepcopy(b)
                                for a, v in zip(h.args.args, s.value.args):
                                    b2 = _SubstAny(a.arg, v).visit(b2)
                                ast.copy_location(b2, s)
                                new.append(b2)
                            blk[i:i + 1] = new
                            i += len(new)
                            continue
                    i += 1
        ast.fix_missing_locations(fn)
        return fn
    return run


class _SubstAny(ast.NodeTransformer):
    """replace every occurrence of a name (load or store context) by an expression"""
    def __init__(self, name, repl):
        self.name, self.repl = name, repl

    def visit_Name(self, node):
        if node.id == self.name:
            r = copy.deepcopy(self.repl)
            for x in ast.walk(r):
                if hasattr(x, 'ctx') and x is r:
                    x.ctx = node.ctx
            ast.copy_location(r, node)
            return r
        return node


def _store_counts(fn):
    stores = {}
    for n in ast.walk(fn):
        if isinstance(n, ast.Name) and isinstance(n.ctx, ast.Store):
            stores[n.id] = stores.get(n.id, 0) + 1
        elif isinstance(n, ast.arg):
            stores[n.arg] = stores.get(n.arg, 0) + 1
    return stores


def _inline_where(fnode, accept):
    """T = <expr> with accept(expr) true, T stored exactly once in the function, every name inside <expr> stored at most
    once (parameters, loop variables of enclosing loops, other single-assignment names): uses of T in the rest of its
    block are replaced by <expr> and the assignment is dropped"""
    fn = copy.deepcopy(fnode)
    stores = _store_counts(fn)
    for n in list(ast.walk(fn)):
        for f in ('body', 'orelse', 'finalbody'):
            blk = getattr(n, f, None)
            if not (isinstance(blk, list) and blk and isinstance(blk[0], ast.stmt)):
                continue
            i = 0
            while i < len(blk):
                s = blk[i]
                if isinstance(s, ast.Assign) and len(s.targets) == 1 and isinstance(s.targets[0], ast.Name) and \
                        stores.get(s.targets[0].id) == 1 and accept(s.value):
                    t = s.targets[0].id
                    rest = blk[i + 1:]
                    operands = {x.id for x in ast.walk(s.value) if isinstance(x, ast.Name)}
                    rebound = {x.id for r in rest for x in ast.walk(r) if isinstance(x, ast.Name) and
                               isinstance(x.ctx, ast.Store)}
                    if operands & rebound:
                        i += 1
                        continue
                    # no store through the alias (T[k] = ...) and no use outside this block
                    uses_elsewhere = sum(1 for x in ast.walk(fn) if isinstance(x, ast.Name) and x.id == t) - \
                        sum(1 for r in rest for x in ast.walk(r) if isinstance(x, ast.Name) and x.id == t) - 1
                    if uses_elsewhere == 0:
                        blk[i + 1:] = [_SubstName(t, s.value).visit(r) for r in rest]
                        del blk[i]
                        continue
                i += 1
    ast.fix_missing_locations(fn)
    return fn


def inline_self_aliases(fnode):
    """T = self.<attr>[..][..]  (a row / entry of a node-family table)"""
    def accept(v):
        while isinstance(v, ast.Subscript):
            v = v.value
        return isinstance(v, ast.Attribute) and isinstance(v.value, ast.Name) and v.value.id == 'self' and \
            v is not None
    def acc(v):
        return isinstance(v, ast.Subscript) and accept(v)
    return _inline_where(fnode, acc)


def inline_scalar_temps(fnode):
    """T = <integer arithmetic over names, constants and self.L> (e.g. h = L // 2)"""
    def accept(v):
        if not isinstance(v, (ast.BinOp, ast.UnaryOp)):
            return False
        for x in ast.walk(v):
            if not isinstance(x, (ast.BinOp, ast.Name, ast.Constant, ast.Add, ast.Sub, ast.Mult, ast.FloorDiv, ast.Load,
                                  ast.UnaryOp, ast.USub, ast.Attribute)):
                return False
            if isinstance(x, ast.Attribute) and norm(x) != 'self.L':
                return False
            if isinstance(x, ast.Constant) and not isinstance(x.value, int):
                return False
        return True
    return _inline_where(fnode, accept)


def class_method(fi):
    """methods of the node-table classes as the C07 rules read them: local name of self.L canonical, dict comprehensions
    as loops, integer temporaries and aliases of table rows inlined"""
    from .canon import canonical, CLASS_L_ROLES
    return wrap(canonical(fi, CLASS_L_ROLES), dictcomp_to_loops, inline_scalar_temps, inline_self_aliases)
