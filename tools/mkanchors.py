#!/usr/bin/env python3
"""Writes sa/anchors.json: for every property the functions its anchors name (line ranges of properties.jsonl, read
against the ORIGINAL pinned commit, i.e. before the fix: commits) and everything those functions may call inside the
package (by name: module functions, methods of the same class through `self.`, methods whose name is unique among the
package's classes).  The generic per-property rules (STATE / STORAGE / DEFINED in sa/main.py) are restricted to these
functions, so that a property does not answer for code it does not depend on."""
import ast
import json
import os
import re
import subprocess
import sys

VERIF = os.path.dirname(os.path.dirname(os.path.abspath(__file__)))
sys.path.insert(0, VERIF)
COMMON = {'append', 'add', 'copy', 'get', 'items', 'keys', 'values', 'pop', 'update', 'index', 'reshape', 'transpose', 'conj',
          'sort', 'extend', 'insert', 'remove', 'format', 'join', 'astype', 'sum', 'any', 'all', 'flatten', 'dot', 'setdefault'}


def pinned_commit():
    log = subprocess.run(['git', '-C', '/repo', 'log', '--format=%H %s'], capture_output=True, text=True).stdout.splitlines()
    for line in log:
        h, msg = line.split(' ', 1)
        if not msg.startswith('fix:'):
            return h
    return 'HEAD'


def main():
    base = pinned_commit()
    from sa.loader import Repo
    os.environ['SA_NORMALISE'] = '0'
    repo = Repo('/repo')
    # functions by file and line range in the pinned commit
    spans = {}
    for mod in repo.modules:
        src = subprocess.run(['git', '-C', '/repo', 'show', f'{base}:pytenet/{mod}.py'], capture_output=True, text=True).stdout
        if not src:
            continue
        tree = ast.parse(src)
        lst = []
        for n in tree.body:
            if isinstance(n, ast.FunctionDef):
                lst.append((n.lineno, n.end_lineno, f'{mod}.{n.name}'))
            elif isinstance(n, ast.ClassDef):
                for m in n.body:
                    if isinstance(m, ast.FunctionDef):
                        lst.append((m.lineno, m.end_lineno, f'{mod}.{n.name}.{m.name}'))
        spans[mod] = lst
    methods = {}
    for q, fi in repo.funcs.items():
        if fi.cls:
            methods.setdefault(fi.name, []).append(q)

    def callees(q):
        fi = repo.funcs.get(q)
        out = set()
        if fi is None:
            return out
        for c in ast.walk(fi.node):
            if not isinstance(c, ast.Call):
                continue
            f = c.func
            if isinstance(f, ast.Name):
                r = repo.resolve_name(fi.module, f.id)
                if r and r[0] == 'func':
                    out.add(r[1].qual)
                elif r and r[0] == 'class':
                    ci = r[1]
                    if '__init__' in ci.methods:
                        out.add(ci.methods['__init__'].qual)
            elif isinstance(f, ast.Attribute):
                if isinstance(f.value, ast.Name) and f.value.id in ('self', 'cls') and fi.cls:
                    qq = f'{fi.module}.{fi.cls}.{f.attr}'
                    if qq in repo.funcs:
                        out.add(qq)
                        continue
                if isinstance(f.value, ast.Name):
                    r = repo.resolve_name(fi.module, f.value.id)
                    if r and r[0] == 'class' and f.attr in r[1].methods:
                        out.add(r[1].methods[f.attr].qual)
                        continue
                if f.attr not in COMMON and len(methods.get(f.attr, [])) in (1, 2):
                    out.update(methods[f.attr])
        return out
    result = {}
    for line in open(os.path.join(VERIF, 'properties.jsonl')):
        r = json.loads(line)
        a = r.get('anchors') or {}
        wh = [m.get('where', '') for m in (a.get('mechanism') or [])] + [m.get('where', '') for m in (a.get('state') or [])]
        seeds = set()
        for w in wh:
            for part in w.split(';'):
                m = re.match(r'\s*([a-z_]+)\.py:(.*)', part)
                if not m:
                    continue
                mod = m.group(1)
                for rg in m.group(2).split(','):
                    rg = rg.strip()
                    mm = re.match(r'(\d+)(?:-(\d+))?$', rg)
                    if not mm:
                        continue
                    lo = int(mm.group(1))
                    hi = int(mm.group(2) or mm.group(1))
                    for a0, a1, q in spans.get(mod, []):
                        if a0 <= hi and lo <= a1:
                            seeds.add(q)
        closure = set(seeds)
        todo = list(seeds)
        while todo:
            q = todo.pop()
            for c in callees(q):
                if c not in closure:
                    closure.add(c)
                    todo.append(c)
        result[r['id']] = {'anchored': sorted(seeds), 'closure': sorted(closure)}
        print(r['id'], len(seeds), len(closure))
    with open(os.path.join(VERIF, 'sa', 'anchors.json'), 'w') as f:
        json.dump({'pinned_commit': base, 'properties': result}, f, indent=1)


if __name__ == '__main__':
    main()
