"""Symbolic shapes for krylov.py (C14): array extents as affine terms in `numiter`, n = len(vstart)
and loop variables; every index and slice bound becomes an inequality that is decided from the
loop intervals; every return is recorded with its shapes; consumers are checked against them.
"""
import ast
import itertools
from fractions import Fraction

from .affine import Affine, try_affine
from .loader import norm, AnalysisError


class SV:
    """shape value"""
    def __init__(self, kind, data=None):
        self.kind = kind      # 'int' (Affine), 'arr' (tuple of Affine), 'tuple' (list of SV), 'scalar', 'unk', 'func'
        self.data = data

    def __repr__(self):
        if self.kind == 'arr':
            return 'array' + str(tuple(self.data))
        if self.kind == 'int':
            return f'int({self.data})'
        if self.kind == 'tuple':
            return '(' + ', '.join(map(repr, self.data)) + ')'
        return self.kind


UNKV = SV('unk')
SCALAR = SV('scalar')


def arr(*dims):
    return SV('arr', tuple(dims))


class Ctx:
    """interval facts: list of Affine terms known to be >= 0, plus loop variables (innermost last)"""
    def __init__(self, facts=(), loops=()):
        self.facts = list(facts)
        self.loops = list(loops)      # (var, lo, hi)

    def with_fact(self, f):
        return Ctx(self.facts + [f], self.loops)

    def with_loop(self, var, lo, hi):
        return Ctx(self.facts, self.loops + [(var, lo, hi)])


def nonneg(expr, ctx):
    """decide expr >= 0 from the facts and loop intervals: expr = sum lam_i * f_i + c with lam_i >= 0, c >= 0
    (a Farkas certificate searched over small integer multipliers); True / False (= not provable)"""
    facts = list(ctx.facts)
    for var, lo, hi in ctx.loops:
        facts.append(Affine.sym(var) - lo)
        facts.append(hi - Affine.sym(var))
    return _farkas(expr, facts)


def _farkas(e, facts):
    facts = [f for f in facts if f.syms()]
    # only facts that share a symbol (transitively) with e matter
    rel, syms = [], set(e.syms())
    changed = True
    while changed:
        changed = False
        for f in facts:
            if f not in rel and (f.syms() & syms):
                rel.append(f)
                syms |= f.syms()
                changed = True
    rel = rel[:9]
    if not e.syms():
        return e.c >= 0
    for lams in itertools.product((0, 1, 2), repeat=len(rel)):
        r = e
        for l, f in zip(lams, rel):
            if l:
                r = r - f.scale(l)
        if not r.syms() and r.c >= 0:
            return True
    return False


class Ret:
    def __init__(self, node, value, ctx, early):
        self.node = node
        self.value = value
        self.ctx = ctx
        self.early = early


class ShapeInterp:
    def __init__(self, repo, fi, report, summaries=None):
        self.repo = repo
        self.fi = fi
        self.report = report        # callable(kind, node, ok, text)
        self.summaries = summaries or {}
        self.returns = []
        self.loop_depth = 0

    # -- expressions ---------------------------------------------------
    def ev(self, e, env, ctx):
        if isinstance(e, ast.Constant):
            if isinstance(e.value, int) and not isinstance(e.value, bool):
                return SV('int', Affine.const(e.value))
            return SCALAR
        if isinstance(e, ast.Name):
            return env.get(e.id, UNKV)
        if isinstance(e, ast.Tuple):
            return SV('tuple', [self.ev(x, env, ctx) for x in e.elts])
        if isinstance(e, ast.UnaryOp):
            v = self.ev(e.operand, env, ctx)
            if v.kind == 'int' and isinstance(e.op, ast.USub):
                return SV('int', -v.data)
            return v
        if isinstance(e, ast.IfExp):
            fact = self.cond_fact(e.test, env, ctx)
            a = self.ev(e.body, env, ctx.with_fact(fact) if fact is not None else ctx)
            b = self.ev(e.orelse, env, ctx)
            if a.kind == 'arr':
                return a
            return b if b.kind == 'arr' else a
        if isinstance(e, ast.BinOp):
            a = self.ev(e.left, env, ctx)
            b = self.ev(e.right, env, ctx)
            if isinstance(e.op, ast.MatMult):
                return self.matmul(a, b, e)
            if a.kind == 'int' and b.kind == 'int':
                try:
                    if isinstance(e.op, ast.Add):
                        return SV('int', a.data + b.data)
                    if isinstance(e.op, ast.Sub):
                        return SV('int', a.data - b.data)
                    if isinstance(e.op, ast.Mult):
                        return SV('int', a.data * b.data)
                except ValueError:
                    return SCALAR
                return SCALAR
            return self.elementwise(a, b, e)
        if isinstance(e, ast.Compare):
            for x in [e.left] + e.comparators:
                self.ev(x, env, ctx)
            return SCALAR
        if isinstance(e, ast.Attribute):
            v = self.ev(e.value, env, ctx)
            if v.kind == 'arr':
                if e.attr == 'T':
                    return arr(*reversed(v.data))
                if e.attr in ('real', 'imag'):
                    return v
                if e.attr == 'shape':
                    return SV('tuple', [SV('int', d) for d in v.data])
            if v.kind == 'scalar' and e.attr in ('real', 'imag', 'eps'):
                return SCALAR
            return UNKV if v.kind == 'unk' else SCALAR
        if isinstance(e, ast.Subscript):
            return self.subscript(e, env, ctx)
        if isinstance(e, ast.Call):
            return self.call(e, env, ctx)
        if isinstance(e, ast.JoinedStr):
            return SCALAR
        if isinstance(e, ast.Lambda):
            return SV('func')
        return UNKV

    def elementwise(self, a, b, e):
        if a.kind == 'arr' and b.kind == 'arr':
            if len(a.data) == len(b.data):
                ok = all(x == y for x, y in zip(a.data, b.data))
                self.report('elementwise', e, ok, f'`{norm(e)[:60]}`: {a} with {b}')
                return a
            return a if len(a.data) > len(b.data) else b
        if a.kind == 'arr':
            return a
        if b.kind == 'arr':
            return b
        if a.kind == 'unk' or b.kind == 'unk':
            return UNKV
        return SCALAR

    def matmul(self, a, b, e):
        if a.kind != 'arr' or b.kind != 'arr':
            self.report('matmul', e, None, f'`{norm(e)[:70]}`: operand shapes unknown ({a} @ {b})')
            return UNKV
        ok = a.data[-1] == b.data[0]
        self.report('matmul', e, ok, f'`{norm(e)[:70]}`: {a} @ {b}')
        return arr(*(tuple(a.data[:-1]) + tuple(b.data[1:])))

    def index_one(self, base_dim, idx, env, ctx, node):
        """returns None (axis removed), an Affine extent (slice), or 'unk'"""
        if isinstance(idx, ast.Slice):
            if idx.step is not None:
                return 'unk'
            lo = Affine.const(0)
            if idx.lower is not None:
                v = self.ev(idx.lower, env, ctx)
                if v.kind != 'int':
                    return 'unk'
                lo = v.data
            if idx.upper is None:
                hi = base_dim
            else:
                v = self.ev(idx.upper, env, ctx)
                if v.kind != 'int':
                    return 'unk'
                hi = v.data
                ok1 = nonneg(base_dim - hi, ctx)
                ok2 = nonneg(hi - lo, ctx)
                self.report('slice-bound', node, ok1 and ok2,
                            f'`{norm(node)[:50]}`: slice end {hi} within extent {base_dim} and >= start {lo}')
                if not (ok1 and ok2):
                    # extent not determined (python clamps the slice): opaque symbol, rank stays known
                    self._fresh = getattr(self, '_fresh', 0) + 1
                    return Affine.sym(f'?extent{self._fresh}')
            if idx.lower is not None:
                self.report('slice-bound', node, nonneg(lo, ctx), f'`{norm(node)[:50]}`: slice start {lo} >= 0')
            return hi - lo
        v = self.ev(idx, env, ctx)
        if v.kind == 'int':
            ok = nonneg(v.data, ctx) and nonneg(base_dim - v.data - Affine.const(1), ctx)
            self.report('index-bound', node, ok, f'`{norm(node)[:50]}`: 0 <= {v.data} <= {base_dim} - 1')
            return None
        return 'unk'

    def subscript(self, e, env, ctx):
        base = self.ev(e.value, env, ctx)
        if base.kind == 'tuple':
            i = try_affine(e.slice)
            if i is not None and i.is_const() and 0 <= int(i.c) < len(base.data):
                return base.data[int(i.c)]
            return UNKV
        if base.kind != 'arr':
            return UNKV if base.kind == 'unk' else SCALAR
        idxs = e.slice.elts if isinstance(e.slice, ast.Tuple) else [e.slice]
        dims = list(base.data)
        out = []
        for k, idx in enumerate(idxs):
            if k >= len(dims):
                self.report('index-rank', e, False, f'`{norm(e)[:50]}`: too many indices for {base}')
                return UNKV
            r = self.index_one(dims[k], idx, env, ctx, e)
            if isinstance(r, str):
                return UNKV
            if r is not None:
                out.append(r)
        out += dims[len(idxs):]
        if not out:
            return SCALAR
        return arr(*out)

    def call(self, e, env, ctx):
        f = norm(e.func)
        args = [self.ev(a, env, ctx) for a in e.args]
        for k in e.keywords:
            self.ev(k.value, env, ctx)
        if f == 'len' and args:
            a = args[0]
            if a.kind == 'arr':
                return SV('int', a.data[0])
            return SCALAR
        if f == 'np.zeros' and args:
            a = args[0]
            if a.kind == 'int':
                return arr(a.data)
            if a.kind == 'tuple' and all(x.kind == 'int' for x in a.data):
                return arr(*[x.data for x in a.data])
            return UNKV
        if f in ('np.linalg.norm', 'np.vdot', 'np.finfo', 'warnings.warn', 'float', 'abs'):
            return SCALAR
        if f in ('np.exp', 'np.sqrt', 'np.conj', 'np.abs'):
            return args[0] if args else UNKV
        if f == 'range':
            return SV('range', args)
        if f == 'eigh_tridiagonal' and len(args) >= 2:
            a, b = args[0], args[1]
            if a.kind == 'arr' and b.kind == 'arr' and len(a.data) == 1 and len(b.data) == 1:
                ok = (b.data[0] + Affine.const(1)) == a.data[0]
                self.report('consumer', e, ok, f'eigh_tridiagonal(d, e): len(e) = {b.data[0]} must be len(d) - 1 = '
                                                f'{a.data[0] - Affine.const(1)}')
                return SV('tuple', [arr(a.data[0]), arr(a.data[0], a.data[0])])
            self.report('consumer', e, None, f'eigh_tridiagonal: argument shapes unknown ({a}, {b})')
            return UNKV
        if f == 'expm' and args:
            a = args[0]
            if a.kind == 'arr' and len(a.data) == 2:
                self.report('consumer', e, a.data[0] == a.data[1], f'expm of a {a}: must be square')
                return a
            return UNKV
        if isinstance(e.func, ast.Name) and e.func.id in env and env[e.func.id].kind == 'func':
            # matrix-free linear map: result has the shape of its argument (assumption A-linear-map)
            return args[0] if args else UNKV
        if isinstance(e.func, ast.Name) and e.func.id in self.summaries:
            return SV('callret', (e.func.id, e))
        return UNKV

    # -- conditions ------------------------------------------------------
    def cond_fact(self, test, env, ctx):
        """Affine term known >= 0 when test holds (only `a > b`, `a >= b`, `a < b`, `a <= b` on ints)"""
        if isinstance(test, ast.Compare) and len(test.ops) == 1:
            a = self.ev(test.left, env, ctx)
            b = self.ev(test.comparators[0], env, ctx)
            if a.kind == 'int' and b.kind == 'int':
                op = test.ops[0]
                if isinstance(op, ast.Gt):
                    return a.data - b.data - Affine.const(1)
                if isinstance(op, ast.GtE):
                    return a.data - b.data
                if isinstance(op, ast.Lt):
                    return b.data - a.data - Affine.const(1)
                if isinstance(op, ast.LtE):
                    return b.data - a.data
        return None

    def neg_fact(self, test, fact, env, ctx):
        """affine term known >= 0 when `test` does NOT hold"""
        if fact is not None:
            return Affine.const(-1) - fact              # not (f >= 0)  <=>  -f - 1 >= 0 over the integers
        if isinstance(test, ast.Compare) and len(test.ops) == 1 and isinstance(test.ops[0], ast.Eq):
            a = self.ev(test.left, env, ctx)
            b = self.ev(test.comparators[0], env, ctx)
            if a.kind == 'int' and b.kind == 'int':
                d = b.data - a.data
                # a != b together with a <= b (resp. a >= b) known from the loop intervals gives a strict inequality
                if nonneg(d, ctx):
                    return d - Affine.const(1)
                if nonneg(Affine.const(0) - d, ctx):
                    return Affine.const(0) - d - Affine.const(1)
        return None

    # -- statements ------------------------------------------------------
    def run(self, env, ctx=None):
        ctx = ctx or Ctx()
        self.block(self.fi.node.body, env, ctx)
        return self.returns

    def block(self, stmts, env, ctx):
        """returns False if the block certainly leaves (return/raise)"""
        for s in stmts:
            if not self.stmt(s, env, ctx):
                return False
        return True

    def assign(self, target, val, env, ctx, node):
        if isinstance(target, ast.Name):
            env[target.id] = val
        elif isinstance(target, (ast.Tuple, ast.List)):
            if val.kind == 'tuple' and len(val.data) == len(target.elts):
                for t, v in zip(target.elts, val.data):
                    self.assign(t, v, env, ctx, node)
            else:
                for t in target.elts:
                    self.assign(t, UNKV, env, ctx, node)
        elif isinstance(target, ast.Subscript):
            # element / row store: index must be in bounds; stored shape must fit
            tv = self.subscript(target, env, ctx)
            if tv.kind == 'arr' and val.kind == 'arr':
                ok = len(tv.data) == len(val.data) and all(x == y for x, y in zip(tv.data, val.data))
                self.report('store-shape', node, ok, f'`{norm(node)[:60]}`: storing {val} into a slot of shape {tv}')

    def stmt(self, s, env, ctx):
        if isinstance(s, ast.Assign):
            v = self.ev(s.value, env, ctx)
            for t in s.targets:
                self.assign(t, v, env, ctx, s)
            return True
        if isinstance(s, ast.AugAssign):
            v = self.ev(s.value, env, ctx)
            if isinstance(s.target, ast.Name):
                cur = env.get(s.target.id, UNKV)
                if cur.kind == 'arr' and v.kind == 'arr':
                    self.elementwise(cur, v, s)
                elif cur.kind == 'int' and v.kind == 'int':
                    env[s.target.id] = SCALAR
            else:
                self.ev(s.target, env, ctx)
            return True
        if isinstance(s, ast.Expr):
            self.ev(s.value, env, ctx)
            return True
        if isinstance(s, ast.Assert):
            f = self.cond_fact(s.test, env, ctx)
            if f is not None:
                ctx.facts.append(f)
            return True
        if isinstance(s, ast.Return):
            v = self.ev(s.value, env, ctx) if s.value is not None else SCALAR
            self.returns.append(Ret(s, v, Ctx(ctx.facts, ctx.loops), self.loop_depth > 0))
            return False
        if isinstance(s, ast.Raise):
            return False
        if isinstance(s, ast.If):
            fact = self.cond_fact(s.test, env, ctx)
            self.ev(s.test, env, ctx)
            e1 = dict(env)
            c1 = ctx.with_fact(fact) if fact is not None else Ctx(ctx.facts, ctx.loops)
            a = self.block(s.body, e1, c1)
            e2 = dict(env)
            b = self.block(s.orelse, e2, Ctx(ctx.facts, ctx.loops))
            if a and b:
                for k in set(e1) | set(e2):
                    v1, v2 = e1.get(k), e2.get(k)
                    env[k] = v1 if (v1 is not None and v2 is not None and repr(v1) == repr(v2)) else UNKV
            elif a:
                env.clear()
                env.update(e1)
            elif b:
                env.clear()
                env.update(e2)
                # the tested branch leaves (return / raise / break / continue): what follows runs under the negated test
                neg = self.neg_fact(s.test, fact, env, ctx)
                if neg is not None and not s.orelse:
                    ctx.facts.append(neg)
            else:
                return False
            return True
        if isinstance(s, ast.For):
            it = self.ev(s.iter, env, ctx)
            if it.kind != 'range' or not isinstance(s.target, ast.Name):
                raise AnalysisError(f'{self.fi.qual}: loop `for {norm(s.target)} in {norm(s.iter)}` is not a range loop')
            a = it.data
            if not all(x.kind == 'int' for x in a) or len(a) > 2:
                raise AnalysisError(f'{self.fi.qual}: range bounds of `{norm(s.iter)}` are not affine')
            lo = Affine.const(0) if len(a) == 1 else a[0].data
            hi = (a[0].data if len(a) == 1 else a[1].data) - Affine.const(1)
            var = s.target.id
            if any(var == v for v, _, _ in ctx.loops):
                raise AnalysisError(f'{self.fi.qual}: loop variable {var} shadows an outer loop variable')
            before = dict(env)
            env2 = dict(env)
            env2[var] = SV('int', Affine.sym(var))
            self.loop_depth += 1
            self.block(s.body, env2, ctx.with_loop(var, lo, hi))
            self.loop_depth -= 1
            # shape invariance: a variable visible after the loop must have the same shape as before
            for k, v in env2.items():
                if k == var:
                    continue
                if k in before:
                    if repr(before[k]) != repr(v):
                        env[k] = UNKV
                else:
                    env[k] = v if v.kind in ('scalar',) else UNKV
            env.pop(var, None)
            return True
        if isinstance(s, (ast.Break, ast.Continue)):
            return False
        if isinstance(s, (ast.Pass, ast.Import, ast.ImportFrom)):
            return True
        if isinstance(s, ast.While):
            raise AnalysisError(f'{self.fi.qual}: while loops are not part of the shape domain')
        return True
