"""Local definitions, expansion of names to access paths, dominating conditions."""
import ast
import copy

from .loader import norm


def local_defs(fnode, keep_ctor_calls=False):
    """Definitions `name = expr` that are unique in the function (the same definition repeated
    textually counts once).  Loop targets and augmented names are excluded."""
    defs, count = {}, {}
    if isinstance(fnode, list):
        fnode = ast.Module(body=fnode, type_ignores=[])
    for n in ast.walk(fnode):
        if isinstance(n, ast.Assign) and len(n.targets) == 1 and isinstance(n.targets[0], ast.Name):
            name = n.targets[0].id
            if name in defs and norm(defs[name]) == norm(n.value):
                continue
            count[name] = count.get(name, 0) + 1
            defs[name] = n.value
        elif isinstance(n, (ast.For, ast.comprehension)):
            for x in ast.walk(n.target):
                if isinstance(x, ast.Name):
                    count[x.id] = count.get(x.id, 0) + 2
        elif isinstance(n, ast.AugAssign) and isinstance(n.target, ast.Name):
            count[n.target.id] = count.get(n.target.id, 0) + 2
    out = {k: v for k, v in defs.items() if count.get(k) == 1}
    if not keep_ctor_calls:
        for k in list(out):
            v = out[k]
            if isinstance(v, ast.Call):
                f = v.func
                nm = f.id if isinstance(f, ast.Name) else (f.attr if isinstance(f, ast.Attribute) else '')
                if nm[:1].isupper() or nm == 'cls':
                    del out[k]
    return out


class _Expand(ast.NodeTransformer):
    def __init__(self, defs, depth=0, pop_as_subscript=True):
        self.defs = defs
        self.depth = depth
        self.pop = pop_as_subscript

    def visit_Name(self, node):
        if isinstance(node.ctx, ast.Load) and node.id in self.defs and self.depth < 8:
            v = copy.deepcopy(self.defs[node.id])
            return _Expand(self.defs, self.depth + 1, self.pop).visit(v)
        return node

    def visit_Call(self, node):
        self.generic_visit(node)
        if self.pop and isinstance(node.func, ast.Attribute) and node.func.attr == 'pop' and len(node.args) == 1:
            return ast.Subscript(value=node.func.value, slice=node.args[0], ctx=ast.Load())
        return node


def expand(expr, defs):
    t = _Expand(defs).visit(copy.deepcopy(expr))
    ast.fix_missing_locations(t)
    return t


def canon_cond(test, defs, negate=False):
    """canonical text of a (possibly negated) comparison with local definitions expanded"""
    t = copy.deepcopy(test)
    while isinstance(t, ast.UnaryOp) and isinstance(t.op, ast.Not):
        t = t.operand
        negate = not negate
    t = expand(t, defs)
    if isinstance(t, ast.Compare) and len(t.ops) == 1:
        op = t.ops[0]
        l, r = norm(t.left), norm(t.comparators[0])
        sym = {ast.Eq: '==', ast.NotEq: '!=', ast.Lt: '<', ast.LtE: '<=', ast.Gt: '>', ast.GtE: '>=',
               ast.In: 'in', ast.NotIn: 'not in', ast.Is: 'is', ast.IsNot: 'is not'}.get(type(op))
        if sym is None:
            return ('not ' if negate else '') + norm(t)
        if negate:
            sym = {'==': '!=', '!=': '==', '<': '>=', '>=': '<', '>': '<=', '<=': '>', 'in': 'not in',
                   'not in': 'in', 'is': 'is not', 'is not': 'is'}[sym]
        if sym in ('==', '!=') and r < l:
            l, r = r, l
        return f'{l} {sym} {r}'
    return ('not ' if negate else '') + norm(t)


def canon_conds(test, defs, negate=False):
    """list of canonical conditions equivalent to the (possibly negated) test: a conjunction is split into its parts,
    a negated disjunction into the negated parts (De Morgan); anything else is one condition"""
    t = test
    while isinstance(t, ast.UnaryOp) and isinstance(t.op, ast.Not):
        t = t.operand
        negate = not negate
    if isinstance(t, ast.BoolOp):
        if (isinstance(t.op, ast.And) and not negate) or (isinstance(t.op, ast.Or) and negate):
            out = []
            for v in t.values:
                out += canon_conds(v, defs, negate)
            return out
    return [canon_cond(t, defs, negate)]


def dominating_conditions(fnode, target, defs):
    """Canonical conditions that hold whenever the node `target` executes: tests of enclosing
    `if`s and the negation of every earlier `if c: continue/return/break/raise` in enclosing blocks."""
    result = None

    def walk(stmts, conds):
        nonlocal result
        conds = list(conds)
        for s in stmts:
            if result is not None:
                return
            if not isinstance(s, (ast.If, ast.For, ast.While)):
                for n in ast.walk(s):
                    if n is target:
                        result = conds
                        return
            if isinstance(s, ast.If):
                for n in ast.walk(s.test):
                    if n is target:
                        result = conds
                        return
                walk(s.body, conds + canon_conds(s.test, defs))
                if result is not None:
                    return
                walk(s.orelse, conds + canon_conds(s.test, defs, True))
                if result is not None:
                    return
                if s.body and isinstance(s.body[-1], (ast.Continue, ast.Return, ast.Break, ast.Raise)) and not s.orelse:
                    conds = conds + canon_conds(s.test, defs, True)
            elif isinstance(s, (ast.For, ast.While)):
                for n in ast.walk(s.iter if isinstance(s, ast.For) else s.test):
                    if n is target:
                        result = conds
                        return
                walk(s.body, conds)
    walk(fnode.body, [])
    return result


def enclosing_loops(fnode, target):
    """list of For/While nodes enclosing `target`, outermost first"""
    path = []

    def rec(node, stack):
        for c in ast.iter_child_nodes(node):
            if c is target:
                path.extend(stack)
                return True
            st = stack + [c] if isinstance(c, (ast.For, ast.While)) else stack
            if rec(c, st):
                return True
        return False
    rec(fnode, [])
    return path


def inline_call(call, repo, module):
    """`helper(a, b)` with a straight-line helper of the same module (assignments to fresh names, then `return <expr>`):
    the returned expression with the helper's temporaries expanded and its formals replaced by the actual arguments.
    None when the call is not of that kind."""
    import copy as _copy
    if not (isinstance(call, ast.Call) and isinstance(call.func, ast.Name) and not call.keywords):
        return None
    r = repo.resolve_name(module, call.func.id)
    if not r or r[0] != 'func' or r[1].module != module:
        return None
    h = r[1].node
    body = [b for b in h.body if not (isinstance(b, ast.Expr) and isinstance(b.value, ast.Constant)) and
            not isinstance(b, ast.Assert)]
    if not body or not isinstance(body[-1], ast.Return) or body[-1].value is None or len(h.args.args) != len(call.args):
        return None
    if not all(isinstance(b, ast.Assign) and len(b.targets) == 1 and isinstance(b.targets[0], ast.Name) for b in body[:-1]):
        return None
    env = {a.arg: v for a, v in zip(h.args.args, call.args)}

    class S(ast.NodeTransformer):
        def visit_Name(self, node):
            if isinstance(node.ctx, ast.Load) and node.id in env:
                return ast.copy_location(_copy.deepcopy(env[node.id]), node)
            return node
    for b in body[:-1]:
        env[b.targets[0].id] = S().visit(_copy.deepcopy(b.value))
    out = S().visit(_copy.deepcopy(body[-1].value))
    ast.copy_location(out, call)
    ast.fix_missing_locations(out)
    return out


def before(fn, a, b, strict=True):
    """node a comes before node b in program order of function fn (depth-first position in the tree).  Line numbers are
    not used: code inlined at load time keeps the line of its call site."""
    num = getattr(fn, '_dfs_order', None)
    if num is None or num.get('__n') != sum(1 for _ in ast.walk(fn)):
        num = {}

        def dfs(n):
            num[id(n)] = len(num)
            for c in ast.iter_child_nodes(n):
                dfs(c)
        dfs(fn)
        num['__n'] = len(num)
        try:
            fn._dfs_order = num
        except AttributeError:
            pass
    x, y = num.get(id(a)), num.get(id(b))
    if x is None or y is None:
        return (getattr(a, 'lineno', 0) < getattr(b, 'lineno', 0)) if strict else (getattr(a, 'lineno', 0) <= getattr(b, 'lineno', 0))
    return x < y if strict else x <= y
