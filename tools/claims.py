"""Per-property claim texts for MANIFEST.json (only properties whose rules exist and pass)."""

TRUST = ('trusted: CPython ast of /repo/pytenet/*.py, the NumPy/SciPy API classification tables in /verif/sa, '
         'the frozen slot/leg/field tables transcribed from the docstrings (cross-checked against the code on every run)')

CLAIMS = {
    'C05': {
        'technique': 'static analysis: path-sensitive id typestate + coefficient taint/def-use + list-length algebra over the AST',
        'text': 'Decides the structural clauses of C05 for all inputs: ids are handed out once on every path of '
                'from_opchains; no chain coefficient is dropped between the chain list and an edge (would have '
                'reported F1); MPO.from_opgraph uses one layer ordering for labels, node map, columns and rows; '
                'OpChain.padded length algebra.  Does not decide operator equality of the compiled graph.',
        'design_ref': 'DESIGN.md 4.2, 5 (C05)',
        'note': TRUST + '; undecided: correctness of repartition + vertex cover as an algorithm',
    },
    'C19': {
        'technique': 'static analysis: interprocedural may-write / may-share (points-to) analysis on a typed abstract heap',
        'text': 'For every public entry point (155 obligations over ~135 functions): the set of parameters that may '
                'be written on any path through the function and its callees, and the set of operand objects that '
                'may be reachable from the result, are computed and compared with the documented in-place table.  '
                'Holds for all operand values and all later mutations of the result, which no value-based test can '
                'sample.  Over-approximates (may-analysis): a reported write/sharing names the statement.',
        'design_ref': 'DESIGN.md 4.1, 5 (C19)',
        'note': TRUST + '; assumptions: callbacks are pure (A-callback), user arrays do not overlap, class-field '
                'type table; limits: heap is flow-insensitive (weak updates), paths k-limited to 6',
    },
}
