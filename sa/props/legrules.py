"""Leg-level rules shared by C01, C02, C03, C12, C13: local factorisation steps."""
import ast

from ..loader import norm, AnalysisError
from .. import legs as lg
from ..legs import LegError, LegUnknown, TVal
from ..legs_interp import LegInterp, QV, TupleVal, SigmaVal
from .common import where


def mps_site(name, qd, ql, qr):
    return lg.param_tensor(name, 3, charges=[(1, qd), (1, ql), (-1, qr)])


def mpo_site(name, qd, ql, qr):
    return lg.param_tensor(name, 4, charges=[(1, qd), (-1, qd), (1, ql), (-1, qr)])


# (module function) -> description of the local step
LOCAL_STEPS = {
    'mps.local_orthonormalize_left_qr': ('mps', 'left', 'qr'),
    'mps.local_orthonormalize_right_qr': ('mps', 'right', 'qr'),
    'mps.local_orthonormalize_left_svd': ('mps', 'left', 'svd'),
    'mps.local_orthonormalize_right_svd': ('mps', 'right', 'svd'),
    'mpo.local_orthonormalize_left_qr': ('mpo', 'left', 'qr'),
    'mpo.local_orthonormalize_right_qr': ('mpo', 'right', 'qr'),
}


def slots(kind):
    """(index of the left bond axis, index of the right bond axis)"""
    return (1, 2) if kind == 'mps' else (2, 3)


def run_local_step(repo, q):
    kind, direction, fact = LOCAL_STEPS[q]
    fi = repo.func(q)
    mk = mps_site if kind == 'mps' else mpo_site
    nb = fi.params[1]
    if direction == 'left':
        A = mk('A', 'qd', 'qD[0]', 'qD[1]')
        N = mk(nb, 'qd', 'qD[1]', 'qD[2]')
    else:
        A = mk('A', 'qd', 'qD[0]', 'qD[1]')
        N = mk(nb, 'qd', 'qD[-1]', 'qD[0]')
    env = {'A': A, nb: N}
    it = LegInterp(fi, env, repo=repo)
    out = it.run()
    return fi, kind, direction, fact, A, N, it, out


def gauge_check(kind, direction, A, N, outA, outN):
    """contract the two returned site tensors over the new bond, rewrite Q-R / U-sigma-V by its contract and
    compare with the two input tensors contracted over the old bond.  Returns (ok, detail)."""
    l, r = slots(kind)
    if direction == 'left':
        new = lg.tensordot(outA, outN, [r], [l], 'new bond')
        ref = lg.tensordot(A, N, [r], [l], 'old bond')
    else:
        new = lg.tensordot(outN, outA, [r], [l], 'new bond')
        ref = lg.tensordot(N, A, [r], [l], 'old bond')
    red, applied, problems = lg.apply_rules(new)
    c1, c2 = lg.canon(red), lg.canon(ref)
    leftover = [o.name for o in red.net.occs if o.kind != 'param']
    ok = (c1 == c2) and not problems and not leftover and len(applied) == 1
    detail = ''
    if not ok:
        detail = f'after rewriting: open {c1["open"]} pairs {c1["pairs"]}; expected open {c2["open"]} pairs {c2["pairs"]}'
        if problems:
            detail = '; '.join(problems) + '; ' + detail
        if leftover:
            detail = f'factor tensors {leftover} are not contracted over their own bond; ' + detail
    weights = {str(k): {a: str(b) for a, b in v.items()} for k, v in red.net.weights.items()}
    if weights and ok:
        ok = False
        detail = f'stray diagonal weights {weights}'
    return ok, detail


def charge_list(axis):
    out = []
    for leg in axis:
        if leg.charge is None:
            return None
        out.append(leg.charge)
    return out


def fmt(q):
    return '[' + ', '.join(('+' if s > 0 else '-') + t for s, t in q) + ']'


def check_factor_charges(chk, rid, repo, rec, keyprefix):
    """rule #5: q0 are the signed charges of the row legs, q1 the negated charges of the column legs"""
    fi = rec['fi']
    m = rec['m']
    rows = charge_list(m.axes[0])
    cols = charge_list(m.axes[1])
    node = rec['node']
    if rows is None or cols is None:
        raise AnalysisError(f'{fi.qual}: legs of the factorised matrix carry no charge labels')
    q0 = rec['q0'].items
    q1 = rec['q1'].items
    want1 = [(-s, t) for s, t in cols]
    chk.ob(rid, where(repo, fi, node), f'{fi.name}: row quantum numbers of the {rec["kind"]} call match the merged row legs',
           q0 == rows, f'passed {fmt(q0)}, row legs carry {fmt(rows)}', key=f'{keyprefix}|{fi.qual}|q0|{norm(node.args[1])}')
    chk.ob(rid, where(repo, fi, node), f'{fi.name}: column quantum numbers of the {rec["kind"]} call match the merged column legs',
           q1 == want1, f'passed {fmt(q1)}, column legs require {fmt(want1)}',
           key=f'{keyprefix}|{fi.qual}|q1|{norm(node.args[2])}')


def check_label(chk, rid, repo, fi, kind, outA, label, node, keyprefix, what='returned'):
    """the stored / returned bond label has the orientation of the new leg in the site tensor"""
    l, r = slots(kind)
    bonds = [(k, ax[0]) for k, ax in enumerate(outA.axes) if len(ax) == 1 and ax[0].tag == 'bond']
    if len(bonds) != 1:
        chk.ob(rid, where(repo, fi, node), f'{fi.name}: the new site tensor carries exactly one factorisation bond',
               False, f'axes {outA.axes}', key=f'{keyprefix}|{fi.qual}|one-bond')
        return
    k, leg = bonds[0]
    if k not in (l, r):
        chk.ob(rid, where(repo, fi, node), f'{fi.name}: the new bond sits in a virtual-bond slot', False,
               f'new bond is axis {k}', key=f'{keyprefix}|{fi.qual}|bond-slot')
        return
    slot_sign = 1 if k == l else -1
    want = [(slot_sign * leg.charge[0], leg.charge[1])]
    got = label.items if isinstance(label, QV) else None
    chk.ob(rid, where(repo, fi, node), f'{fi.name}: {what} bond label has the orientation of the new leg '
           f'({"left" if k == l else "right"} bond slot)', got == want,
           f'label {fmt(got) if got else label}, required {fmt(want)}', key=f'{keyprefix}|{fi.qual}|label')


def check_local_step(chk, rid, repo, q, charges_rid=None):
    try:
        fi, kind, direction, fact, A, N, it, out = run_local_step(repo, q)
    except LegError as ex:
        if isinstance(ex, LegUnknown):
            raise           # not understood is not a finding
        fi = repo.func(q)
        chk.ob(rid, where(repo, fi, fi.node), f'{fi.name}: body is well-formed in the leg domain', False, str(ex),
               key=f'{rid}|{q}|wellformed')
        return 1
    if not isinstance(out, TupleVal) or len(out.items) != 3 or not isinstance(out.items[0], TVal) \
            or not isinstance(out.items[1], TVal):
        raise AnalysisError(f'{q}: expected a result (A, neighbour, label)')
    outA, outN, label = out.items
    n = 0
    w = where(repo, fi, fi.node)
    rank = 3 if kind == 'mps' else 4
    chk.ob(rid, w, f'{fi.name}: both returned tensors have the rank of a site tensor', outA.rank == rank and outN.rank == rank,
           f'ranks {outA.rank}, {outN.rank}', key=f'{rid}|{q}|ranks')
    n += 1
    if outA.rank == rank and outN.rank == rank:
        try:
            ok, detail = gauge_check(kind, direction, A, N, outA, outN)
        except LegError as ex:
            if isinstance(ex, LegUnknown):
                raise           # not understood is not a finding
            ok, detail = False, str(ex)
        chk.ob(rid, w, f'{fi.name}: the two returned tensors contracted over the new bond denote the two input tensors '
               f'contracted over the old bond (given the factorisation contract)', ok, detail, key=f'{rid}|{q}|gauge')
        n += 1
        # physical legs stay in front, outer bonds keep their slots
        l, r = slots(kind)
        phys_ok = all(len(ax) == 1 and ax[0].occ.kind != 'param' or True for ax in outA.axes)
        n += 0
    fcalls = it.factor_calls or it.shared.get('factor_calls', [])        # a step that delegates to its sibling factorises there
    if len(fcalls) != 1:
        raise AnalysisError(f'{q}: expected exactly one factorisation call, found {len(fcalls)}')
    crid = charges_rid or rid
    check_factor_charges(chk, crid, repo, fcalls[0], crid)
    check_label(chk, crid, repo, fi, kind, outA, label, it.ret_node, crid)
    n += 3
    return n


# ----------------------------------------------------------------------
# sweep loop bodies in the leg domain (in-line factorisations, splits, local orthonormalisations)
def body_env(psi, i):
    from ..affine import Affine, try_affine
    import ast as _ast
    env = {}
    for off in (-1, 0, 1, 2):
        k = str(Affine.sym(i) + Affine.const(off))
        kl = k
        kr = str(Affine.sym(i) + Affine.const(off + 1))
        env[f'@{psi}.A[{k}]'] = mps_site(f'{psi}.A[{k}]', f'{psi}.qd', f'{psi}.qD[{kl}]', f'{psi}.qD[{kr}]')
    return env


def _position_test(t, i):
    """a test on the position of the sweep only (loop variable, lattice size, constants)"""
    names = {n.id for n in ast.walk(t) if isinstance(n, ast.Name)}
    return isinstance(t, (ast.Compare, ast.BoolOp, ast.UnaryOp)) and i in names and names <= {i, 'L', 'length', 'nsites'} and \
        not any(isinstance(n, (ast.Call, ast.Attribute, ast.Subscript)) for n in ast.walk(t))


def check_loop_body(chk, rid, repo, fi, stmts, i, label, psi='psi'):
    """Evaluate the statements of one sweep position in the leg domain (local evolution / optimisation steps are the
    identity on leg structure) and check: quantum numbers of every factorisation call, orientation of every stored
    label, and that the updated pair of site tensors still denotes the old pair (gauge invariance).
    A statement that is executed only at some positions (`if i < L - 2: ...`) gives two bodies, one per outcome; both are
    checked."""
    for k, s_ in enumerate(stmts):
        if isinstance(s_, ast.If) and _position_test(s_.test, i):
            n_ = 0
            for arm, tag in ((s_.body, norm(s_.test)), (s_.orelse, f'not ({norm(s_.test)})')):
                n_ += check_loop_body(chk, rid, repo, fi, list(stmts[:k]) + list(arm) + list(stmts[k + 1:]), i,
                                      f'{label}, {tag}', psi)
            return n_
    env0 = body_env(psi, i)
    body = [s for s in stmts if not isinstance(s, (ast.Assert, ast.For))]
    w = where(repo, fi, stmts[0])
    try:
        it = LegInterp(fi, env0, repo=repo, body=body)
        it.run()
    except LegError as ex:
        if isinstance(ex, LegUnknown):
            raise           # not understood is not a finding
        chk.ob(rid, w, f'{fi.name} [{label}]: statements of one sweep position are well-formed in the leg domain', False,
               str(ex), key=f'{rid}|{fi.qual}|{label}|wellformed')
        return 1
    n = 0
    for rec in it.shared['factor_calls']:
        check_factor_charges(chk, rid, repo, rec, f'{rid}|{label}')
        n += 2
    # which site tensors changed?
    changed = [k for k in env0 if it.env.get(k) is not env0[k]]
    sites = sorted(changed)
    from ..affine import Affine
    keys = {off: f'@{psi}.A[{Affine.sym(i) + Affine.const(off)}]' for off in (-1, 0, 1, 2)}
    pair = None
    for off in (-1, 0, 1):
        if keys[off] in changed and keys[off + 1] in changed:
            pair = (off, off + 1)
    if pair is None:
        # only identity steps on single tensors at this position
        return n
    a, b = pair
    A_old, B_old = env0[keys[a]], env0[keys[b]]
    A_new, B_new = it.env[keys[a]], it.env[keys[b]]
    ok, detail = False, ''
    if isinstance(A_new, TVal) and isinstance(B_new, TVal) and A_new.rank == 3 and B_new.rank == 3:
        try:
            new = lg.tensordot(A_new, B_new, [2], [1], 'new bond')
            ref = lg.tensordot(A_old, B_old, [2], [1], 'old bond')
            red, applied, problems = lg.apply_rules(new)
            c1, c2 = lg.canon(red), lg.canon(ref)
            leftover = [o.name for o in red.net.occs if o.kind != 'param']
            ok = c1['open'] == c2['open'] and c1['pairs'] == c2['pairs'] and not problems and not leftover and \
                not red.net.weights
            detail = '; '.join(problems) or f'open {c1["open"]} pairs {c1["pairs"]} vs expected open {c2["open"]} pairs {c2["pairs"]}'
        except LegError as ex:
            if isinstance(ex, LegUnknown):
                raise           # not understood is not a finding
            detail = str(ex)
    else:
        detail = f'updated values: {type(A_new).__name__}, {type(B_new).__name__}'
    chk.ob(rid, w, f'{fi.name} [{label}]: the updated tensors of sites ({i}{a:+d}, {i}{b:+d}) contracted over the new bond denote '
           f'the old pair (local steps taken as the identity on legs)', ok, detail, key=f'{rid}|{fi.qual}|{label}|gauge')
    n += 1
    # label stored for the bond between them
    bond = str(Affine.sym(i) + Affine.const(b))
    lab = it.env.get(f'@{psi}.qD[{bond}]')
    if lab is None:
        chk.ob(rid, w, f'{fi.name} [{label}]: the label of the re-factorised bond {bond} is stored', False,
               f'no store to {psi}.qD[{bond}]', key=f'{rid}|{fi.qual}|{label}|label-stored')
        return n + 1
    # orientation: the left tensor of the pair has the new bond in its right slot, the right tensor in its left slot
    for T, slot, nm in ((A_new, 2, 'left'), (B_new, 1, 'right')):
        if isinstance(T, TVal) and T.rank == 3 and len(T.axes[slot]) == 1 and T.axes[slot][0].tag == 'bond':
            leg = T.axes[slot][0]
            sgn = 1 if slot == 1 else -1
            want = [(sgn * leg.charge[0], leg.charge[1])]
            got = lab.items if isinstance(lab, QV) else None
            chk.ob(rid, w, f'{fi.name} [{label}]: the label stored for bond {bond} has the orientation of the new leg in the '
                   f'{nm} tensor of the pair', got == want, f'label {fmt(got) if got else lab}, required {fmt(want)}',
                   key=f'{rid}|{fi.qual}|{label}|label|{nm}')
            n += 1
    return n


def sweep_positions(fi, psi='psi'):
    """(label, loop variable, statements) for every sweep position of a TDVP / DMRG routine"""
    out = []
    outer = [s for s in fi.node.body if isinstance(s, ast.For) and ('numsteps' in norm(s.iter) or 'numsweeps' in norm(s.iter))]
    if len(outer) != 1:
        raise AnalysisError(f'{fi.qual}: outer loop over steps / sweeps not found')
    between = []
    k = 0
    for s in outer[0].body:
        if isinstance(s, ast.For):
            if between:
                out.append((f'block {k}', 'i', between))
                k += 1
                between = []
            out.append((f'loop {norm(s.iter)}', norm(s.target), s.body))
        else:
            if any(isinstance(x, ast.Attribute) and x.attr == 'A' and norm(x.value) == psi for x in ast.walk(s)) or between:
                between.append(s)
    if between:
        out.append((f'block {k}', 'i', between))
    return out
