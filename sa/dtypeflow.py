"""Storage-type flow: values written into a preallocated array are cast to the array's dtype.

Rule (one instance per store into a buffer that was allocated with an explicit element type in the same function):
the element type of the stored value, as an upper bound in a small symbolic lattice, must not exceed the element type
of the buffer for any input.  The lattice has the kinds bool < int < float < complex as constants and one symbol per
input whose element type is not fixed by the code (`dt(vint)`, the value of a `dtype` parameter, `dt(scale)`); a term is a
join of atoms.  `value <= buffer` holds when every atom of the value is below an atom of the buffer: a symbol only below
itself or below complex, a constant kind only below a constant kind.  (A buffer typed `vint.dtype` therefore cannot take
`0.5 * vint`: for integer input the halves are truncated on assignment.)

Only definite atoms are judged: a sub-expression the rules below cannot type contributes nothing, so the rule can miss
a narrowing store but does not report one that is not there.  Exactly representable constants (integer literals, 0/1
arrays from identity / eye / ones / zeros) are below every type.
"""
import ast

from .loader import norm

KINDS = {'bool': 0, 'int': 1, 'float': 2, 'complex': 3}
KIND_NAMES = {v: k for k, v in KINDS.items()}
DTYPE_NAMES = {
    'bool': 0, 'np.bool_': 0, 'int': 1, 'np.int32': 1, 'np.int64': 1, 'np.int_': 1, 'np.intp': 1, 'np.uint8': 1,
    'float': 2, 'np.float64': 2, 'np.float32': 2, 'np.double': 2, 'np.float_': 2,
    'complex': 3, 'np.complex128': 3, 'np.complex64': 3, 'np.cdouble': 3, 'np.complex_': 3,
}
ALLOC = {'np.zeros', 'np.empty', 'np.ones', 'np.full'}
ALLOC_LIKE = {'np.zeros_like', 'np.empty_like', 'np.ones_like', 'np.full_like'}
EXACT01 = {'np.identity', 'np.eye', 'np.ones', 'np.zeros'}
# array functions whose result type is the join of their array arguments
JOIN_FUNCS = {'np.transpose', 'np.reshape', 'np.conj', 'np.conjugate', 'np.tensordot', 'np.einsum', 'np.kron', 'np.dot',
              'np.matmul', 'np.outer', 'np.trace', 'np.sum', 'np.diag', 'np.block', 'np.concatenate', 'np.stack',
              'np.copy', 'np.asarray', 'np.array', 'np.ascontiguousarray', 'np.squeeze', 'np.expand_dims', 'np.swapaxes',
              'np.moveaxis', 'np.roll', 'np.flip', 'np.tril', 'np.triu', 'np.multiply', 'np.add', 'np.subtract',
              'np.negative', 'np.real', 'np.imag', 'np.vdot', 'np.inner', 'np.prod', 'np.cumsum', 'np.take',
              'np.hstack', 'np.vstack', 'np.pad', 'np.where', 'np.abs', 'np.absolute', 'sum', 'abs', 'max', 'min'}
FLOAT_FUNCS = {'np.sqrt', 'np.exp', 'np.log', 'np.sin', 'np.cos', 'np.tan', 'np.divide', 'np.true_divide', 'np.mean',
               'np.linalg.norm', 'np.power', 'np.sinh', 'np.cosh', 'np.tanh', 'np.arctan', 'np.arctan2', 'np.average'}
JOIN_METHODS = {'reshape', 'transpose', 'conj', 'conjugate', 'copy', 'flatten', 'ravel', 'sum', 'trace', 'squeeze', 'dot',
                'swapaxes', 'diagonal', 'cumsum', 'prod', 'item', 'T', 'real', 'imag', 'take', 'repeat'}
# which arguments of the joining functions are data (others are axes / shapes); default: all positional
NON_DATA_AFTER = {'np.transpose': 1, 'np.reshape': 1, 'np.sum': 1, 'np.trace': 1, 'np.squeeze': 1, 'np.expand_dims': 1,
                  'np.swapaxes': 1, 'np.moveaxis': 1, 'np.roll': 1, 'np.flip': 1, 'np.tensordot': 2, 'np.diag': 1,
                  'np.tril': 1, 'np.triu': 1, 'np.prod': 1, 'np.cumsum': 1, 'np.take': 1, 'np.pad': 1, 'np.concatenate': 1,
                  'np.stack': 1}

K = lambda k: ('k', k)
S = lambda s: ('s', s)
UNKNOWN = ('?',)
EXACT = ('exact',)          # exactly representable in every type
REC = ('rec',)              # the name being resolved (contributes nothing new)


def show(term):
    out = []
    for a in sorted(term, key=str):
        if a[0] == 'k':
            out.append(KIND_NAMES[a[1]])
        elif a[0] == 's':
            out.append(f'type({a[1]})')
        elif a == UNKNOWN:
            out.append('?')
    return ' v '.join(out) or 'exact constant'


class Typer:
    """element-type terms of the expressions of one function (closures share the definitions of the enclosing one)"""

    def __init__(self, fn, outer=None):
        self.fn = fn
        self.defs = dict(outer.defs) if outer is not None else {}
        own = {}
        for n in ast.walk(fn):
            tgts = []
            if isinstance(n, ast.Assign):
                for t in n.targets:
                    if isinstance(t, ast.Name):
                        tgts.append((t.id, n.value))
                    elif isinstance(t, (ast.Tuple, ast.List)):
                        for x in t.elts:
                            if isinstance(x, ast.Name):
                                tgts.append((x.id, None))
            elif isinstance(n, ast.AugAssign) and isinstance(n.target, ast.Name):
                tgts.append((n.target.id, ast.BinOp(ast.Name(n.target.id, ast.Load()), n.op, n.value)))
            elif isinstance(n, (ast.For, ast.comprehension)):
                for x in ast.walk(n.target):
                    if isinstance(x, ast.Name):
                        tgts.append((x.id, ('iter', n.iter)))
            elif isinstance(n, (ast.With, ast.NamedExpr)):
                for x in ast.walk(n):
                    if isinstance(x, ast.Name) and isinstance(x.ctx, ast.Store):
                        tgts.append((x.id, None))
            for name, val in tgts:
                own.setdefault(name, []).append(val)
        params = {a.arg for a in fn.args.args + fn.args.kwonlyargs} if hasattr(fn, 'args') else set()
        for p in params:
            self.defs.pop(p, None)
        self.defs.update(own)
        self.params = params
        self._busy = set()

    # ------------------------------------------------------------------
    def dtype_term(self, d):
        """term of an expression used as a dtype"""
        t = norm(d)
        if t in DTYPE_NAMES:
            return frozenset([K(DTYPE_NAMES[t])])
        if isinstance(d, ast.Constant) and isinstance(d.value, str):
            for k_, v_ in (('complex', 3), ('float', 2), ('int', 1), ('bool', 0)):
                if d.value.startswith(k_):
                    return frozenset([K(v_)])
            return frozenset([UNKNOWN])
        if isinstance(d, ast.Attribute) and d.attr == 'dtype':
            return self.term(d.value)
        if isinstance(d, ast.Call) and norm(d.func) in ('np.result_type', 'np.promote_types', 'np.common_type',
                                                        'np.find_common_type'):
            out = frozenset()
            for a in d.args:
                for x in (a.elts if isinstance(a, (ast.List, ast.Tuple)) else [a]):
                    out |= self.dtype_term(x) if self._is_dtype_expr(x) else self.term(x)
            if norm(d.func) == 'np.common_type':
                out |= frozenset([K(2)])
            return out
        if isinstance(d, ast.Call) and norm(d.func) == 'np.dtype' and len(d.args) == 1:
            return self.dtype_term(d.args[0])
        if isinstance(d, ast.Name):
            vals = self.defs.get(d.id)
            if vals is None:
                return frozenset([S(d.id)])
            if len(vals) == 1 and vals[0] is not None and not isinstance(vals[0], tuple) and d.id not in self._busy:
                self._busy.add(d.id)
                try:
                    return self.dtype_term(vals[0])
                finally:
                    self._busy.discard(d.id)
            return frozenset([UNKNOWN])
        if isinstance(d, ast.IfExp):
            return self.dtype_term(d.body) | self.dtype_term(d.orelse)
        return frozenset([UNKNOWN])

    def _is_dtype_expr(self, x):
        t = norm(x)
        return t in DTYPE_NAMES or (isinstance(x, ast.Attribute) and x.attr == 'dtype') or \
            (isinstance(x, ast.Name) and 'dtype' in x.id)

    def term(self, e):
        """upper bound of the element type of the value of e"""
        if isinstance(e, ast.Constant):
            v = e.value
            if isinstance(v, bool) or (isinstance(v, int)):
                return frozenset([EXACT])
            if isinstance(v, float):
                return frozenset([EXACT]) if v == int(v) and abs(v) < 2 ** 31 else frozenset([K(2)])
            if isinstance(v, complex):
                return frozenset([K(3)])
            return frozenset([UNKNOWN])
        if isinstance(e, ast.Name):
            if e.id in self._busy:
                return frozenset([REC])
            vals = self.defs.get(e.id)
            if vals is None:
                return frozenset([S(e.id)])
            self._busy.add(e.id)
            try:
                out = frozenset([S(e.id)]) if e.id in self.params else frozenset()
                for v in vals:
                    if v is None:
                        out |= frozenset([UNKNOWN])
                    elif isinstance(v, tuple):
                        out |= self.elem_term(v[1])
                    else:
                        out |= self.term(v)
                return out
            finally:
                self._busy.discard(e.id)
        if isinstance(e, ast.Attribute):
            if e.attr in ('real', 'imag', 'T'):
                return self.term(e.value)
            if e.attr in ('shape', 'ndim', 'size', 'dtype', 'nsites', 'bond_dims'):
                return frozenset([EXACT]) if e.attr != 'dtype' else frozenset([UNKNOWN])
            return frozenset([S(norm(e))])
        if isinstance(e, ast.Subscript):
            return self.term(e.value)
        if isinstance(e, ast.UnaryOp):
            return self.term(e.operand)
        if isinstance(e, ast.BinOp):
            t = self.term(e.left) | self.term(e.right)
            if isinstance(e.op, ast.Div):
                t = (t - {EXACT}) | {K(2)}
            elif isinstance(e.op, ast.Pow):
                t = (t - {EXACT}) | {UNKNOWN}
            elif EXACT in t and len(t) > 1:
                # an exact constant combined with typed data: the data decides
                t = t - {EXACT}
            return frozenset(t)
        if isinstance(e, ast.IfExp):
            return self.term(e.body) | self.term(e.orelse)
        if isinstance(e, (ast.List, ast.Tuple)):
            out = frozenset()
            for x in e.elts:
                out |= self.term(x)
            return out or frozenset([EXACT])
        if isinstance(e, (ast.ListComp, ast.GeneratorExp)):
            return self.term(e.elt)
        if isinstance(e, ast.Call):
            f = norm(e.func)
            kw = {k.arg: k.value for k in e.keywords if k.arg}
            if f in ALLOC or f in ('np.identity', 'np.eye'):
                if 'dtype' in kw:
                    return self.dtype_term(kw['dtype'])
                if f == 'np.full' and len(e.args) >= 3:
                    return self.dtype_term(e.args[2])
                if f in ('np.zeros', 'np.empty', 'np.ones') and len(e.args) >= 2:
                    return self.dtype_term(e.args[1])
                if f == 'np.identity' and len(e.args) >= 2:
                    return self.dtype_term(e.args[1])
                if f == 'np.full':
                    return self.term(e.args[1]) if len(e.args) > 1 else frozenset([UNKNOWN])
                return frozenset([EXACT]) if f in EXACT01 else frozenset([K(2)])
            if f in ALLOC_LIKE:
                if 'dtype' in kw:
                    return self.dtype_term(kw['dtype'])
                return self.term(e.args[0]) if e.args else frozenset([UNKNOWN])
            if f in ('np.array', 'np.asarray') and ('dtype' in kw or len(e.args) >= 2):
                return self.dtype_term(kw.get('dtype', e.args[1] if len(e.args) >= 2 else None))
            if isinstance(e.func, ast.Attribute) and e.func.attr == 'astype' and e.args:
                return self.dtype_term(e.args[0])
            if f in ('complex', 'float', 'int', 'bool'):
                return frozenset([K(KINDS[f])])
            if f in ('len', 'range', 'np.arange', 'np.prod') and f != 'np.prod':
                return frozenset([EXACT])
            if f in JOIN_FUNCS or f in FLOAT_FUNCS:
                args = e.args
                if f == 'np.einsum':
                    args = [a for a in e.args if not isinstance(a, (ast.Tuple, ast.List, ast.Constant))]
                elif f in NON_DATA_AFTER:
                    args = e.args[:NON_DATA_AFTER[f]]
                out = frozenset()
                for a in args:
                    out |= self.term(a)
                if f in FLOAT_FUNCS:
                    out = (out - {EXACT}) | {K(2)}
                return out or frozenset([UNKNOWN])
            if isinstance(e.func, ast.Attribute) and e.func.attr in JOIN_METHODS:
                out = self.term(e.func.value)
                if e.func.attr == 'dot':
                    for a in e.args:
                        out |= self.term(a)
                return out
            return frozenset([UNKNOWN])
        return frozenset([UNKNOWN])

    def elem_term(self, it):
        """element type of the items produced by iterating `it`"""
        if isinstance(it, ast.Call) and norm(it.func) in ('range', 'enumerate', 'zip', 'reversed', 'itertools.product',
                                                          'product', 'sorted', 'list'):
            if norm(it.func) in ('range',):
                return frozenset([EXACT])
            return frozenset([UNKNOWN])
        return self.term(it)


def leq(value, buf):
    """atoms of `value` that are not below the buffer type (empty list: the store is safe / undecided)"""
    if UNKNOWN in buf:
        return []
    top = max([a[1] for a in buf if a[0] == 'k'], default=-1)
    bad = []
    for a in value:
        if a in (UNKNOWN, EXACT, REC):
            continue
        if top == 3:
            continue
        if a[0] == 's' and a not in buf:
            bad.append(a)
        if a[0] == 'k' and a[1] > top:
            bad.append(a)
    return bad


def buffer_stores(fn, outer_typer=None):
    """[(store statement, buffer name, allocation call, buffer term, value term, offending atoms)] of a function,
    including its nested functions (closures see the buffers of the enclosing function)"""
    typer = Typer(fn, outer_typer)
    out = []
    # buffers: names with exactly one definition, an allocation with an explicit element type
    bufs = {}
    for name, vals in typer.defs.items():
        if len(vals) == 1 and isinstance(vals[0], ast.Call):
            c = vals[0]
            f = norm(c.func)
            kw = {k.arg: k.value for k in c.keywords if k.arg}
            if (f in ALLOC and ('dtype' in kw or (f != 'np.full' and len(c.args) >= 2))) or f in ALLOC_LIKE:
                bufs[name] = (c, typer.term(c))
            elif f in ('np.array', 'np.asarray') and len(c.args) == 1 and 'dtype' not in kw and \
                    isinstance(c.args[0], (ast.List, ast.Tuple)) and c.args[0].elts:
                # an array built from a list of values takes the join of their types; as the type of a buffer an
                # integer literal counts as int, not as an exact constant
                t = frozenset()
                for x in ast.walk(c.args[0]):
                    if isinstance(x, ast.Constant) and isinstance(x.value, int) and not isinstance(x.value, bool):
                        t |= {K(1)}
                t |= typer.term(c.args[0]) - {EXACT}
                if t:
                    bufs[name] = (c, frozenset(t))
    nested = [n for n in ast.walk(fn) if isinstance(n, (ast.FunctionDef, ast.Lambda)) and n is not fn]
    inner = set()
    for nf in nested:
        for x in ast.walk(nf):
            inner.add(id(x))
    for n in ast.walk(fn):
        if id(n) in inner:
            continue
        tgt = val = None
        if isinstance(n, ast.Assign) and len(n.targets) == 1 and isinstance(n.targets[0], ast.Subscript):
            tgt, val = n.targets[0], n.value
        elif isinstance(n, ast.AugAssign) and isinstance(n.target, ast.Subscript):
            tgt, val = n.target, n.value
        if tgt is None or not isinstance(tgt.value, ast.Name) or tgt.value.id not in bufs:
            continue
        call, bt = bufs[tgt.value.id]
        vt = typer.term(val)
        out.append((n, tgt.value.id, call, bt, vt, leq(vt, bt)))
    for nf in nested:
        if isinstance(nf, ast.FunctionDef) and not any(id(nf) in {id(y) for y in ast.walk(o)} for o in nested if o is not nf):
            out += buffer_stores(nf, typer)
    return out
