"""Kinds of quantum-number containers (C02.R1).

A small kind lattice evaluated flow-sensitively per function and context-sensitively
across repository calls (the callee is analysed with the kinds of the actual arguments):

  ND            numpy.ndarray
  LIST(k)       python list / tuple-like sequence with element kind k
  TUPLE(k...)   result tuple of a call
  SCALAR        number / str / None / bool
  OBJ           any other object
  UNK(why)      not determined

Class invariant used for loads (it is what the stores establish): `X.qd` is ND, `X.qD` is
LIST(ND), `X.A` is LIST(ND).  Obligation at every store: `.qd = v` needs ND, `.qD = v`
needs LIST(ND), `.qD[k] = v` needs ND.
"""
import ast

from .absint import Domain, Interp
from .loader import AnalysisError, norm

ND = ('ND',)
SCALAR = ('SCALAR',)
OBJ = ('OBJ',)


def LIST(k):
    return ('LIST', k)


def TUPLE(ks):
    return ('TUPLE', tuple(ks))


def UNK(why):
    return ('UNK', why)


def show(k):
    if k[0] == 'LIST':
        return f'list[{show(k[1])}]'
    if k[0] == 'TUPLE':
        return '(' + ', '.join(show(x) for x in k[1]) + ')'
    if k[0] == 'UNK':
        return f'unknown({k[1]})'
    if k[0] == 'FUNC':
        return f'function {k[1]}'
    if k[0] == 'MIX':
        return ' | '.join(show(x) for x in k[1])
    return {'ND': 'ndarray', 'SCALAR': 'scalar', 'OBJ': 'object'}[k[0]]


def join(a, b):
    if a is None:
        return b
    if b is None:
        return a
    if a == b:
        return a
    if a[0] == 'LIST' and b[0] == 'LIST':
        return LIST(join(a[1], b[1]))
    if a[0] == 'TUPLE' and b[0] == 'TUPLE' and len(a[1]) == len(b[1]):
        return TUPLE(join(x, y) for x, y in zip(a[1], b[1]))
    parts = []
    for x in (a, b):
        for y in (x[1] if x[0] == 'MIX' else (x,)):
            if y not in parts:
                parts.append(y)
    return ('MIX', tuple(parts))


def elem(k):
    if k[0] == 'LIST':
        return k[1]
    if k[0] == 'ND':
        return ND        # row of an array (or a scalar; harmless here)
    if k[0] == 'TUPLE':
        out = None
        for x in k[1]:
            out = join(out, x)
        return out or UNK('empty tuple')
    if k[0] == 'MIX':
        out = None
        for x in k[1]:
            out = join(out, elem(x))
        return out
    return UNK(f'element of {show(k)}')


NP_ND = {'array', 'asarray', 'zeros', 'ones', 'full', 'empty', 'arange', 'concatenate', 'identity', 'eye',
         'diag', 'kron', 'block', 'cumsum', 'argsort', 'sort', 'sqrt', 'exp', 'tensordot', 'einsum',
         'intersect1d', 'union1d', 'unique', 'transpose', 'reshape', 'conj', 'abs', 'hstack', 'vstack',
         'stack', 'copy', 'zeros_like', 'ones_like', 'outer', 'flip', 'repeat', 'tile', 'negative', 'add',
         'subtract', 'multiply', 'pad', 'append', 'delete', 'insert', 'ravel', 'squeeze', 'real', 'imag'}
NP_SCALAR = {'any', 'all', 'allclose', 'array_equal', 'vdot', 'dot', 'trace', 'sum', 'prod', 'isclose',
             'iscomplexobj', 'isrealobj', 'ndim', 'size', 'finfo'}
ND_METHODS_ND = {'copy', 'reshape', 'transpose', 'conj', 'conjugate', 'astype', 'flatten', 'ravel', 'squeeze',
                 'view', 'cumsum', 'argsort', 'round', 'clip', 'repeat', 'swapaxes', 'take', 'nonzero'}
ND_ATTR_ND = {'T', 'real', 'imag', 'flat'}
LIST_METHODS_SELF = {'copy'}
CLASS_FIELD_KINDS = {'qd': ND, 'qD': LIST(ND), 'A': LIST(ND)}


class QDomain(Domain):
    def __init__(self, engine, fi):
        self.engine = engine
        self.fi = fi
        self.returns = None

    def copy(self, st):
        return dict(st)

    def join(self, a, b):
        out = {}
        for k in set(a) | set(b):
            out[k] = join(a.get(k), b.get(k))
        return out

    # ---------------- expressions ----------------
    def ev(self, e, st):
        eng = self.engine
        if isinstance(e, ast.Constant):
            return SCALAR
        if isinstance(e, ast.Name):
            if e.id in st:
                return st[e.id]
            r_ = eng.repo.resolve_name(self.fi.module, e.id)
            if r_ and r_[0] == 'func':
                return ('FUNC', r_[1].qual)           # a function of the package handed on as a value
            return UNK(f'name {e.id}')
        if isinstance(e, (ast.List, ast.Tuple)):
            k = None
            for x in e.elts:
                k = join(k, self.ev(x, st))
            if isinstance(e, ast.Tuple):
                return TUPLE([self.ev(x, st) for x in e.elts])
            return LIST(k or SCALAR)
        if isinstance(e, (ast.ListComp, ast.GeneratorExp, ast.SetComp)):
            st2 = dict(st)
            for g in e.generators:
                self.bind(g.target, elem(self.ev(g.iter, st2)), st2)
            return LIST(self.ev(e.elt, st2))
        if isinstance(e, ast.DictComp):
            return OBJ
        if isinstance(e, ast.UnaryOp):
            k = self.ev(e.operand, st)
            if isinstance(e.op, ast.Not):
                return SCALAR
            return k      # -ndarray is an ndarray; -list raises (kept as list => reported at the store)
        if isinstance(e, ast.BinOp):
            a, b = self.ev(e.left, st), self.ev(e.right, st)
            if a == ND or b == ND:
                return ND
            if a[0] == 'LIST' and b[0] == 'LIST':
                return join(a, b)
            if a[0] == 'LIST' and isinstance(e.op, ast.Mult):
                return a
            if b[0] == 'LIST' and isinstance(e.op, ast.Mult):
                return b
            if a == SCALAR and b == SCALAR:
                return SCALAR
            return join(a, b)
        if isinstance(e, (ast.Compare, ast.BoolOp)):
            return SCALAR
        if isinstance(e, ast.IfExp):
            return join(self.ev(e.body, st), self.ev(e.orelse, st))
        if isinstance(e, ast.JoinedStr):
            return SCALAR
        if isinstance(e, ast.Lambda):
            return OBJ
        if isinstance(e, ast.Attribute):
            if e.attr in CLASS_FIELD_KINDS:
                return CLASS_FIELD_KINDS[e.attr]
            base = self.ev(e.value, st)
            if base == ND and e.attr in ND_ATTR_ND:
                return ND
            if e.attr in ('shape', 'ndim', 'dtype', 'size', 'nsites', 'real', 'imag'):
                return SCALAR if base != ND or e.attr not in ('real', 'imag') else ND
            return UNK(f'attribute .{e.attr}')
        if isinstance(e, ast.Subscript):
            base = self.ev(e.value, st)
            is_slice = isinstance(e.slice, ast.Slice) or (
                isinstance(e.slice, ast.Tuple) and any(isinstance(x, ast.Slice) for x in e.slice.elts))
            if base == ND:
                return ND if is_slice or not isinstance(e.slice, ast.Constant) else ND
            if base[0] == 'LIST':
                return base if is_slice else base[1]
            if base[0] == 'TUPLE':
                if isinstance(e.slice, ast.Constant) and isinstance(e.slice.value, int) and \
                        -len(base[1]) <= e.slice.value < len(base[1]):
                    return base[1][e.slice.value]
                return elem(base)
            if base[0] == 'MIX':
                out = None
                for x in base[1]:
                    if x == ND:
                        out = join(out, ND)
                    elif x[0] == 'LIST':
                        out = join(out, x if is_slice else x[1])
                    else:
                        out = join(out, UNK('subscript of ' + show(x)))
                return out
            return UNK(f'subscript of {show(base)}')
        if isinstance(e, ast.Call):
            return self.call(e, st)
        if isinstance(e, ast.Starred):
            return self.ev(e.value, st)
        return UNK(e.__class__.__name__)

    def call(self, e, st):
        f = e.func
        args = [self.ev(a, st) for a in e.args]
        if isinstance(f, ast.Name):
            n = f.id
            if n in ('len', 'int', 'float', 'complex', 'abs', 'min', 'max', 'sum', 'isinstance', 'bool', 'str',
                     'round', 'hash', 'any', 'all'):
                return SCALAR
            if n in ('list', 'tuple', 'sorted', 'reversed', 'set'):
                return LIST(elem(args[0])) if args else LIST(SCALAR)
            if n == 'range':
                return LIST(SCALAR)
            if n == 'reduce' and e.args:
                # functools.reduce(f, xs): the kind of f's results
                fn_ = norm(e.args[0])
                if fn_ == 'np.add.outer' or (fn_.startswith('np.') and fn_.split('.')[-1] in NP_ND):
                    return ND
                return UNK(f'reduce({fn_})')
            if n == 'map' and e.args:
                fn_ = norm(e.args[0])
                if fn_.startswith('np.') and fn_.split('.')[-1] in NP_ND:
                    return LIST(ND)
                return LIST(UNK(f'element of map({fn_})'))
            if n == 'enumerate':
                return LIST(TUPLE([SCALAR, elem(args[0])]))
            if n == 'zip':
                return LIST(TUPLE([elem(a) for a in args]))
            if n in st and st[n][0] == 'FUNC':
                # a call through a parameter / local that holds a function of the package
                kw = {k.arg: self.ev(k.value, st) for k in e.keywords if k.arg}
                return self.engine.summary(self.engine.repo.funcs[st[n][1]], args, kw)
            if n in st and st[n][0] == 'MIX' and all(x[0] == 'FUNC' for x in st[n][1]):
                kw = {k.arg: self.ev(k.value, st) for k in e.keywords if k.arg}
                out = None
                for x in st[n][1]:
                    out = join(out, self.engine.summary(self.engine.repo.funcs[x[1]], args, kw))
                return out
            r = self.engine.repo.resolve_name(self.fi.module, n)
            if r and r[0] == 'func':
                kw = {k.arg: self.ev(k.value, st) for k in e.keywords if k.arg}
                return self.engine.summary(r[1], args, kw)
            if r and r[0] == 'class':
                return OBJ
            if n == 'cls':
                return OBJ
            return UNK(f'call {n}')
        if isinstance(f, ast.Attribute):
            dotted = norm(f)
            if dotted == 'functools.reduce' and e.args:
                fn_ = norm(e.args[0])
                if fn_ == 'np.add.outer' or (fn_.startswith('np.') and fn_.split('.')[-1] in NP_ND):
                    return ND
                return UNK(f'reduce({fn_})')
            if dotted.startswith('np.'):
                name = dotted.split('.')[-1]
                if dotted.startswith('np.linalg.'):
                    if name in ('svd',):
                        return TUPLE([ND, ND, ND])
                    if name in ('qr', 'eigh', 'eig'):
                        return TUPLE([ND, ND])
                    if name in ('norm', 'det'):
                        return SCALAR
                    return ND
                if dotted == 'np.add.outer':
                    return ND
                if dotted in ('functools.reduce',) and e.args:
                    fn_ = norm(e.args[0])
                    if fn_ == 'np.add.outer' or (fn_.startswith('np.') and fn_.split('.')[-1] in NP_ND):
                        return ND
                    return UNK(f'reduce({fn_})')
                if name == 'where':
                    return ND if len(e.args) == 3 else TUPLE([ND])
                if name in NP_ND:
                    return ND
                if name in NP_SCALAR:
                    return SCALAR
                return UNK(f'numpy function {dotted}')
            recv = self.ev(f.value, st)
            if recv == ND:
                if f.attr in ND_METHODS_ND:
                    return ND
                if f.attr in ('fill', 'sort'):
                    return SCALAR
                if f.attr in ('tolist',):
                    return LIST(SCALAR)
                return SCALAR
            if recv[0] == 'LIST':
                if f.attr == 'copy':
                    return recv
                if f.attr in ('index', 'count'):
                    return SCALAR
                if f.attr == 'pop':
                    return recv[1]
                return SCALAR
            # method of a repository class: resolve by name when unique
            cands = [fi for fi in self.engine.repo.funcs.values() if fi.cls and fi.name == f.attr]
            if len(cands) >= 1 and f.attr not in ('copy', 'get', 'keys', 'values', 'items', 'append', 'pop'):
                out = None
                kw = {k.arg: self.ev(k.value, st) for k in e.keywords if k.arg}
                for c in cands:
                    out = join(out, self.engine.summary(c, [OBJ] + args, kw))
                return out
            return UNK(f'method .{f.attr} of {show(recv)}')
        return UNK('call')

    # ---------------- statements ----------------
    def bind(self, target, kind, st):
        if isinstance(target, ast.Name):
            st[target.id] = kind
        elif isinstance(target, (ast.Tuple, ast.List)):
            for i, t in enumerate(target.elts):
                if kind[0] == 'TUPLE' and len(kind[1]) == len(target.elts):
                    self.bind(t, kind[1][i], st)
                else:
                    self.bind(t, elem(kind), st)
        # attribute / subscript targets are handled by the store obligations

    def stores(self, target, value_kind, node):
        eng = self.engine
        if isinstance(target, ast.Attribute) and target.attr == 'qd':
            eng.store(self.fi, node, target, value_kind, ND)
        elif isinstance(target, ast.Attribute) and target.attr == 'qD':
            eng.store(self.fi, node, target, value_kind, LIST(ND))
        elif isinstance(target, ast.Subscript) and isinstance(target.value, ast.Attribute) and \
                target.value.attr == 'qD':
            if isinstance(target.slice, ast.Slice):
                eng.store(self.fi, node, target, value_kind, LIST(ND))
            else:
                eng.store(self.fi, node, target, value_kind, ND)

    def stmt(self, node, st):
        st = dict(st)
        if isinstance(node, ast.Assign):
            if len(node.targets) == 1 and isinstance(node.targets[0], (ast.Tuple, ast.List)) and \
                    isinstance(node.value, (ast.Tuple, ast.List)) and \
                    len(node.value.elts) == len(node.targets[0].elts):
                kinds = [self.ev(v, st) for v in node.value.elts]
                for t, k in zip(node.targets[0].elts, kinds):
                    self.bind(t, k, st)
                    self.stores(t, k, node)
                return st
            k = self.ev(node.value, st)
            for t in node.targets:
                if isinstance(t, (ast.Tuple, ast.List)):
                    for i, tt in enumerate(t.elts):
                        kk = k[1][i] if (k[0] == 'TUPLE' and len(k[1]) == len(t.elts)) else elem(k)
                        self.bind(tt, kk, st)
                        self.stores(tt, kk, node)
                else:
                    self.bind(t, k, st)
                    self.stores(t, k, node)
        elif isinstance(node, ast.AugAssign):
            k = join(self.ev(node.target, st) if not isinstance(node.target, ast.Name) or node.target.id in st
                     else None, None)
            v = self.ev(node.value, st)
            if isinstance(node.target, ast.Name):
                cur = st.get(node.target.id)
                if cur is not None and cur[0] == 'LIST' and v[0] == 'LIST':
                    st[node.target.id] = join(cur, v)
                elif cur == ND or v == ND:
                    st[node.target.id] = ND
        elif isinstance(node, ast.Expr):
            self.ev(node.value, st)
            # list.append(x) on a local list refines its element kind
            v = node.value
            if isinstance(v, ast.Call) and isinstance(v.func, ast.Attribute) and v.func.attr in ('append', 'extend') \
                    and isinstance(v.func.value, ast.Name) and v.func.value.id in st and v.args:
                cur = st[v.func.value.id]
                a = self.ev(v.args[0], st)
                if v.func.attr == 'extend':
                    a = elem(a)
                if cur[0] == 'LIST':
                    ek = cur[1]
                    st[v.func.value.id] = LIST(a if ek == ('EMPTY',) else join(ek, a))
        elif isinstance(node, (ast.FunctionDef, ast.ClassDef)):
            st[node.name] = OBJ
        return st

    def loop_bind(self, node, st):
        st = dict(st)
        self.bind(node.target, elem(self.ev(node.iter, st)), st)
        return st

    def on_return(self, node, st):
        k = self.ev(node.value, st) if node.value is not None else SCALAR
        self.returns = join(self.returns, k)
        return st


class QEngine:
    def __init__(self, repo):
        self.repo = repo
        self.memo = {}
        self.stack = []
        self.store_records = {}     # key -> record (dedup over contexts; worst verdict wins)

    def summary(self, fi, args, kwargs):
        key = (fi.qual, tuple(args), tuple(sorted(kwargs.items())))
        if key in self.memo:
            return self.memo[key]
        if key in self.stack or len(self.stack) > 12:
            return UNK('recursion')
        self.stack.append(key)
        try:
            dom = QDomain(self, fi)
            st = {}
            params = fi.params
            for i, p in enumerate(params):
                if i < len(args):
                    st[p] = args[i]
                elif p in kwargs:
                    st[p] = kwargs[p]
                elif p in fi.defaults:
                    st[p] = dom.ev(fi.defaults[p], {})
                else:
                    st[p] = UNK(f'parameter {p}')
            flow = Interp(dom).run(fi.node.body, st)
            res = dom.returns if dom.returns is not None else SCALAR
        finally:
            self.stack.pop()
        self.memo[key] = res
        return res

    def analyse_entry(self, fi):
        args = []
        for p in fi.params:
            ann = fi.annotations.get(p)
            if p in ('self', 'cls'):
                args.append(OBJ)
            elif ann in ('np.ndarray',):
                args.append(ND)
            elif ann in ('int', 'float', 'str', 'bool', 'complex'):
                args.append(SCALAR)
            else:
                args.append(UNK(f'parameter {p}'))
        self.summary(fi, args, {})

    def store(self, fi, node, target, kind, need):
        ok = (kind == need)
        key = f'C02.R1|{fi.qual}|{norm(target)} = {norm(node.value)[:80]}'
        rec = self.store_records.get(key)
        if rec is None or (rec['ok'] and not ok):
            self.store_records[key] = {
                'fi': fi, 'line': node.lineno, 'target': norm(target), 'value': norm(node.value)[:100],
                'kind': show(kind), 'need': show(need), 'ok': ok, 'key': key}


def functions_with_qstores(repo):
    out = []
    for fi in repo.funcs.values():
        for n in ast.walk(fi.node):
            tgts = []
            if isinstance(n, ast.Assign):
                for t in n.targets:
                    tgts.extend(t.elts if isinstance(t, (ast.Tuple, ast.List)) else [t])
            for t in tgts:
                if isinstance(t, ast.Attribute) and t.attr in ('qd', 'qD'):
                    out.append(fi)
                    break
                if isinstance(t, ast.Subscript) and isinstance(t.value, ast.Attribute) and t.value.attr == 'qD':
                    out.append(fi)
                    break
            else:
                continue
            break
    return out
