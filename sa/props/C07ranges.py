"""C07.R4 - index-range inclusion: every key with which a node family is addressed in generate_graph / copy_nids lies in
the range for which the family was created in __init__, for every L of the documented domain."""
import ast

from ..loader import norm, AnalysisError
from ..affine import Affine
from .. import ranges as rg
from .. import tables as tb
from ..canon import canonical, CLASS_L_ROLES
from .common import where

DOMAIN_MIN = {'MolecularOpGraphNodes': 4, 'SpinMolecularOpGraphNodes': 2}


def flat_keys(keys):
    out = []
    for k in keys:
        out += list(k.elts) if isinstance(k, ast.Tuple) else [k]
    return out


class Walker:
    """walks a function body keeping the context (constraints, opaque guards) of every statement"""

    def __init__(self, fnode):
        self.fnode = fnode
        self.hits = []       # (ctx, stmt)

    def run(self):
        self.block(self.fnode.body, rg.Ctx())
        return self.hits

    def block(self, stmts, ctx):
        ctx = rg.Ctx(ctx.cons, ctx.atoms, ctx.vars)
        for s in stmts:
            if isinstance(s, ast.For):
                try:
                    cons, vs = rg.loop_constraints(s, {})
                except AnalysisError:
                    # a loop over something else than index ranges (tables, values): its variables are unconstrained
                    cons, vs = [], [n.id for n in ast.walk(s.target) if isinstance(n, ast.Name)]
                self.hits.append((ctx, s.iter))
                self.block(s.body, ctx.ext(cons, (), vs))
            elif isinstance(s, ast.If):
                self.branch(s, ctx)
                if len(s.body) == 1 and isinstance(s.body[0], ast.Continue) and not s.orelse:
                    c, a = cond(s.test, False)
                    ctx = ctx.ext(c, a)
            elif isinstance(s, (ast.While,)):
                raise AnalysisError('while loop in a wiring routine')
            else:
                self.hits.append((ctx, s))

    def branch(self, s, ctx):
        c, a = cond(s.test, True)
        self.hits.append((ctx, s.test))
        self.block(s.body, ctx.ext(c, a))
        c2, a2 = cond(s.test, False)
        self.block(s.orelse, ctx.ext(c2, a2))


def cond(test, truth):
    cons, atoms = rg.cond_constraints(test, truth, {})
    out_atoms = []
    for at in atoms:
        if isinstance(at, str) and at.startswith('NE|'):
            out_atoms.append(at)
        else:
            out_atoms.append((truth, test))
    return cons, out_atoms


def tighten(ctx):
    """x - y >= 0 together with x != y gives x - y >= 1"""
    extra = []
    for at in ctx.atoms:
        if isinstance(at, str) and at.startswith('NE|'):
            for c in ctx.cons:
                if str(c) == at[3:] or str(-c) == at[3:]:
                    extra.append(c - Affine.const(1))
    return rg.Ctx(ctx.cons + extra, ctx.atoms, ctx.vars)


def creation_records(init_fn, fams):
    recs = {}
    for ctx, s in Walker(init_fn).run():
        if isinstance(s, ast.Assign) and len(s.targets) == 1 and isinstance(s.value, ast.Call) and \
                norm(s.value.func) == 'OpGraphNode':
            root, keys = tb.subscript_chain(s.targets[0])
            fam = tb.self_attr_root('self')(root)
            if fam in fams:
                recs.setdefault(fam, []).append((flat_keys(keys), tighten(ctx)))
    return recs


def family_uses(fn, fams, depth):
    out = []
    for ctx, s in Walker(fn).run():
        seen = set()
        for n in ast.walk(s):
            if isinstance(n, ast.Subscript) and id(n) not in seen:
                root, keys = tb.subscript_chain(n)
                fam = tb.self_attr_root('self')(root)
                if fam in fams and len(keys) == depth[fam]:
                    out.append((fam, flat_keys(keys), tighten(ctx), n))
                    # do not report the inner prefixes of this chain again
                    inner = n
                    while isinstance(inner, ast.Subscript):
                        seen.add(id(inner))
                        inner = inner.value
    return out


def included(use_keys, uctx, rec, facts):
    ckeys, cctx = rec
    if len(ckeys) != len(use_keys):
        return False, 'key arity differs'
    m_aff, m_ast = {}, {}
    for ck, uk in zip(ckeys, use_keys):
        if not isinstance(ck, ast.Name):
            raise AnalysisError(f'creation key `{norm(ck)}` is not a loop variable')
        a = rg.aff(uk)
        if a is None:
            return False, f'key `{norm(uk)}` is not affine'
        m_aff[ck.id] = a
        m_ast[ck.id] = uk
    base = uctx.cons + facts
    for c in cctx.cons:
        g = c
        for v in m_aff:                      # simultaneous substitution: first to fresh names
            g = g.subst(v, Affine.sym('$' + v))
        for v, a in m_aff.items():
            g = g.subst('$' + v, a)
        left = {x for x in g.syms() if not rg.is_floor_sym(x)} - {'L'} - set(uctx.vars)
        if left:
            raise AnalysisError(f'creation constraint {c} mentions variables {sorted(left)} that are not keys')
        if not rg.entails(base, g):
            return False, f'cannot show {g} >= 0 (creation range {c} >= 0)'
    utexts = set()
    for at in uctx.atoms:
        if isinstance(at, tuple):
            utexts.add((at[0], norm(at[1])))
    for at in cctx.atoms:
        if isinstance(at, tuple):
            txt = rg.subst_text(at[1], m_ast)
            if (at[0], txt) not in utexts:
                return False, f'guard `{"" if at[0] else "not "}{txt}` of the creation loop is not established at the use'
    return True, ''


def rule_R4(chk, repo, rid='C07.R4'):
    chk.rule(rid, 'index ranges: every key used on a node family in generate_graph / copy_nids lies in the range for which '
                  'the family was created in __init__ (loop bounds with max/min, L//2 as a symbol h with 2h <= L <= 2h+1, '
                  'skip guards; entailment by Fourier-Motzkin), for all L of the documented domain - so the wiring cannot '
                  'hit a missing node for lattice sizes the tests do not visit')
    n = 0
    for cname, lmin in DOMAIN_MIN.items():
        ci = repo.cls(cname)
        from ..normal import class_method as _cm
        init = _cm(ci.methods['__init__'])
        fq, leaves = tb.family_nests(init.node, tb.self_attr_root('self'))
        fams = {f for f in fq if f != 'L'}
        depth = {}
        for fam, s, cv, keys in leaves:
            if isinstance(s.value, ast.Call):
                depth[fam] = len(keys)
        recs = creation_records(init.node, fams)
        facts = rg.h_facts() + [Affine.sym('L') - Affine.const(lmin)]
        for mname in ('generate_graph', 'copy_nids'):
            from ..normal import class_method
            fi = class_method(ci.methods[mname])
            for fam, ukeys, uctx, node in family_uses(fi.node, fams, depth):
                ok, detail = False, 'family has no creation record'
                for rec in recs.get(fam, []):
                    ok, detail = included(ukeys, uctx, rec, facts)
                    if ok:
                        break
                chk.ob(rid, where(repo, ci.methods[mname], node), f'{cname}.{mname}: `{norm(node)[:70]}` addresses an existing '
                       f'node for all L >= {lmin}', ok, detail, key=f'{rid}|{cname}|{mname}|{norm(node)}|{n}')
                n += 1
    chk.floor(rid, n, 140)
    return n
