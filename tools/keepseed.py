#!/usr/bin/env python3
"""tools/keepseed.py <source dir with patch.diff, demo.py[, notes.md]> <seed id> <property id> [--needs "..."]
Runs tools/seedcheck.py on the change; if it is confirmed (demo passes without / fails with the change, suite passes)
copies it to /verif/seeded/<seed id>/ with meta.json recording what was run and which checks report it."""
import json
import os
import shutil
import subprocess
import sys

VERIF = os.path.dirname(os.path.dirname(os.path.abspath(__file__)))


def main():
    src, sid, pid = sys.argv[1:4]
    needs = ''
    if '--needs' in sys.argv:
        needs = sys.argv[sys.argv.index('--needs') + 1]
    r = subprocess.run([sys.executable, os.path.join(VERIF, 'tools', 'seedcheck.py'), src], capture_output=True, text=True)
    txt = r.stdout[r.stdout.index('{'):] if '{' in r.stdout else '{}'
    res = json.loads(txt)
    confirmed = res.get('demo_without') == 0 and res.get('demo_with', 0) != 0 and res.get('suite_rc') == 0 and res.get('compiles')
    print(json.dumps(res, indent=1))
    if not confirmed:
        print('NOT CONFIRMED - not kept')
        return 1
    dst = os.path.join(VERIF, 'seeded', sid)
    os.makedirs(dst, exist_ok=True)
    shutil.copy(os.path.join(src, 'patch.diff'), dst)
    shutil.copy(os.path.join(src, 'demo.py'), dst)
    notes = ''
    if os.path.exists(os.path.join(src, 'notes.md')):
        notes = open(os.path.join(src, 'notes.md')).read()
        shutil.copy(os.path.join(src, 'notes.md'), dst)
    detected = sorted(p for p, rc in res['checks'].items() if rc == 1)
    meta = {
        'seed_id': sid, 'breaks_property': pid, 'origin': 'independent sub-agent given only the property text and a scratch worktree',
        'needs_to_manifest': needs or (notes.splitlines()[0] if notes else ''),
        'confirmed': {'demo_exit_without_change': res['demo_without'], 'demo_exit_with_change': res['demo_with'],
                      'demo_message': res.get('demo_with_tail'), 'test_suite_with_change': res.get('suite_tail')},
        'what_was_run': ['git worktree add (scratch, under /tmp)', 'python demo.py (unchanged)', 'git apply patch.diff',
                         'python -m compileall pytenet', 'python demo.py (changed)',
                         'python -m pytest -q -p no:cacheprovider --timeout=900 -x (changed)',
                         './check <every claimed property> with SA_REPO_ROOT=<scratch worktree>', 'git worktree remove --force'],
        'checks_reporting_violation': detected,
        'checks_exit_codes': res['checks'],
        'first_reports': res.get('reports', {}),
        'detected_by_own_property_check': pid in detected,
    }
    json.dump(meta, open(os.path.join(dst, 'meta.json'), 'w'), indent=1)
    print('kept as', dst, 'detected by', detected)
    return 0


if __name__ == '__main__':
    sys.exit(main())
