#!/usr/bin/env python3
"""Probe the checks with one textual edit of /repo/pytenet (false-alarm hunting, DESIGN.md section 14).

  tools/probe.py <file in pytenet/> <old text> <new text> [Cxx ...]

Copies /repo/pytenet to a scratch directory, replaces the (unique) old text by the new one, runs the given checks (default:
all claimed ones) with SA_REPO_ROOT pointing at the copy and prints the first violated obligations / analysis errors.
`\\n` in the arguments stands for a newline.  Nothing is applied to /repo; the scratch copy is removed.
A harmless spelling that is reported goes, once the rule is corrected, into sa/mutate.py TEXT_EDITS as a 'silent' entry -
together with a 'violation' twin (the same construct with its meaning changed) where one exists.
"""
import os
import shutil
import subprocess
import sys
import tempfile

VERIF = os.path.dirname(os.path.dirname(os.path.abspath(__file__)))


def main():
    if len(sys.argv) < 4:
        print(__doc__)
        return 2
    f, old, new = sys.argv[1], sys.argv[2].replace('\\n', '\n'), sys.argv[3].replace('\\n', '\n')
    props = sys.argv[4:] or ['--all']
    d = tempfile.mkdtemp(prefix='probe_')
    try:
        shutil.copytree('/repo/pytenet', os.path.join(d, 'pytenet'))
        p = os.path.join(d, 'pytenet', f)
        s = open(p).read()
        if s.count(old) != 1:
            print(f'old text occurs {s.count(old)} times in {f} (must be exactly once)')
            return 2
        open(p, 'w').write(s.replace(old, new))
        out = []
        for prop in props:  # ./check takes one property per invocation
            r = subprocess.run([os.path.join(VERIF, 'check'), prop],
                               env=dict(os.environ, SA_REPO_ROOT=d, SA_EVIDENCE_DIR=os.path.join(d, 'ev')),
                               capture_output=True, text=True)
            lines = (r.stdout + r.stderr).splitlines()
            if r.returncode not in (0, 1) and not any('ANALYSIS-ERROR' in l for l in lines):
                print(f'check {prop} did not run (exit {r.returncode}):', *lines[-3:], sep='\n   ')
                return 2
            out += [l for l in lines if 'violated' in l or 'ANALYSIS-ERROR' in l]
        print('silent' if not out else f'{len(out)} report line(s):')
        for l in out[:8]:
            print('  ', l.strip()[:300])
        return 0 if not out else 1
    finally:
        shutil.rmtree(d, ignore_errors=True)


if __name__ == '__main__':
    sys.exit(main())
