"""Truncation rule of bond_ops.retained_bond_indices, clause by clause (shared by C12 and C13).

The property clauses "the discarded relative weight never exceeds the tolerance", "no kept singular value is smaller than
a discarded one", "discarding one more would exceed the tolerance" and "positive singular values" are decided on a small
abstract domain over the body of the function:

  vector values carry  deg  (degree of homogeneity in the scale of the input),  pw  (power of the individual entry),
                       acc  (None | 'asc' = cumulative sums taken in ascending order of the values | 'other'),
                       ver  (version counter, so that a permutation is tied to the array it sorts)
  scalars carry deg; permutations carry the version of the array they sort ascending.

T1  the quantity compared with the tolerance is scale invariant and quadratic in the singular values (deg 0, pw 2):
    a *relative weight*;
T2  it is accumulated in ascending order of the values themselves (gather by argsort, cumsum, scatter by the same
    permutation): the discarded set is a set of smallest values also across charge sectors;
T3  the comparison is strict (`> tol`): an index whose cumulative weight equals the tolerance is still discarded
    (maximality) and zero singular values are dropped at tol = 0 (positivity);
T5  the weights sum to one: the entries are s^p / sum(s^p) (squares over the squared 2-norm), so the tolerance is a
    fraction of the total weight;
T4  every caller hands over the singular values themselves (power 1), as they come out of the SVD.
"""
import ast

from ..loader import norm, AnalysisError
from .common import where


class Vec:
    def __init__(self, deg, pw, acc=None, ver=0):
        self.deg, self.pw, self.acc, self.ver = deg, pw, acc, ver

    def __repr__(self):
        return f'vector(degree {self.deg}, power {self.pw}, accumulation {self.acc})'


class Sca:
    def __init__(self, deg):
        self.deg = deg

    def __repr__(self):
        return f'scalar(degree {self.deg})'


class Perm:
    def __init__(self, ver, asc):
        self.ver, self.asc = ver, asc

    def __repr__(self):
        return f'permutation(sorts version {self.ver} {"ascending" if self.asc else "not ascending"})'


class Unknown:
    def __init__(self, why):
        self.why = why

    def __repr__(self):
        return f'unknown ({self.why})'


class Interp:
    def __init__(self, fi):
        self.fi = fi
        self.env = {}
        self.nver = 0
        self.findings = []      # (rule, node, ok, text)

    def fresh(self):
        self.nver += 1
        return self.nver

    def const(self, e):
        if isinstance(e, ast.Constant) and isinstance(e.value, (int, float)) and not isinstance(e.value, bool):
            return e.value
        if isinstance(e, ast.UnaryOp) and isinstance(e.op, ast.USub):
            c = self.const(e.operand)
            return None if c is None else -c
        return None

    # -- normalisation tracking (T5) ---------------------------------------------------------------------------
    # a scalar may be known as an aggregate (sum_i s_i^a)^b of the raw values: agg = (a, b); a vector as s^pw divided by
    # such an aggregate: den = None (nothing divided), (a, c) for s^pw / (sum s^a)^c, or 'mixed' (anything else).
    @staticmethod
    def _scale(d, k):
        return (d[0], d[1] * k) if isinstance(d, tuple) else d

    @staticmethod
    def _combine(den, agg, sg):
        """vector with denominator `den` multiplied (sg=+1) or divided (sg=-1) by a scalar known as `agg`"""
        if not isinstance(agg, tuple) or den == 'mixed':
            return 'mixed'
        a, b = agg
        if den is None:
            return (a, -sg * b)
        if abs(den[0] - a) > 1e-9:
            return 'mixed'
        c = den[1] - sg * b
        return None if abs(c) < 1e-9 else (a, c)

    def ev(self, e):
        r = self._ev(e)
        if isinstance(e, ast.Name) or not isinstance(r, (Vec, Sca)):
            return r
        if hasattr(r, 'norm_done'):
            return r
        r.norm_done = True
        r.den = None if isinstance(r, Vec) else None
        r.agg = None
        sub = lambda x: self._ev(x) if not isinstance(x, ast.Name) else self.env.get(x.id)
        gd = lambda v: getattr(v, 'den', 'mixed') if isinstance(v, Vec) else 'mixed'
        ga = lambda v: getattr(v, 'agg', None) if isinstance(v, Sca) else None
        if isinstance(e, ast.BinOp):
            l, rr = self.ev(e.left), self.ev(e.right)
            if isinstance(e.op, ast.Pow):
                k = self.const(e.right)
                if isinstance(r, Vec):
                    r.den = self._scale(gd(l), k)
                elif k is not None:
                    r.agg = self._scale(ga(l), k)
            elif isinstance(e.op, (ast.Div, ast.Mult)):
                sg = 1 if isinstance(e.op, ast.Mult) else -1
                if isinstance(r, Vec):
                    if isinstance(l, Vec) and isinstance(rr, Sca):
                        r.den = self._combine(gd(l), ga(rr), sg)
                    elif isinstance(l, Sca) and isinstance(rr, Vec):
                        r.den = self._combine(gd(rr), ga(l), sg)
                    else:
                        dl, dr = gd(l), gd(rr)
                        if dl is None or dr is None:
                            r.den = dr if dl is None else dl          # product of two vectors (sg == 1): denominators multiply
                        elif isinstance(dl, tuple) and isinstance(dr, tuple) and abs(dl[0] - dr[0]) < 1e-9 and sg == 1:
                            r.den = (dl[0], dl[1] + dr[1])
                        else:
                            r.den = 'mixed'
                else:
                    al, ar = ga(l), ga(rr)
                    if isinstance(al, tuple) and isinstance(ar, tuple) and abs(al[0] - ar[0]) < 1e-9:
                        r.agg = (al[0], al[1] + sg * ar[1])
        elif isinstance(e, ast.Subscript):
            b = self.ev(e.value)
            if isinstance(r, Vec):
                r.den = gd(b)
        elif isinstance(e, ast.Call):
            f = norm(e.func)
            a = list(e.args)
            if isinstance(e.func, ast.Attribute) and not a and norm(e.func.value) not in ('np', 'numpy'):
                f, a = 'np.' + e.func.attr, [e.func.value]
            v = self.ev(a[0]) if a else None
            if isinstance(r, Sca):
                if isinstance(v, Vec) and gd(v) is None and not v.acc:
                    if f in ('np.linalg.norm', 'numpy.linalg.norm'):
                        r.agg = (2 * v.pw, 0.5)
                    elif f in ('np.sum', 'sum'):
                        r.agg = (v.pw, 1)
                    elif f in ('np.dot', 'np.vdot', 'np.inner'):
                        r.agg = (2 * v.pw, 1)
                elif isinstance(v, Sca) and f == 'np.sqrt':
                    r.agg = self._scale(ga(v), 0.5)
            else:
                if f in ('np.empty_like', 'np.zeros_like', 'np.empty', 'np.zeros'):
                    r.den = None
                elif f == 'np.sqrt':
                    r.den = self._scale(gd(v), 0.5)
                elif f == 'np.square':
                    r.den = self._scale(gd(v), 2)
                else:
                    r.den = gd(v)
        return r

    def _ev(self, e):
        if isinstance(e, ast.Name):
            return self.env.get(e.id, Unknown(f'`{e.id}` is not defined by a recognised statement'))
        c = self.const(e)
        if c is not None:
            return Sca(0)
        if isinstance(e, ast.BinOp):
            l, r = self.ev(e.left), self.ev(e.right)
            if isinstance(e.op, ast.Pow):
                k = self.const(e.right)
                if k is None:
                    return Unknown(f'exponent `{norm(e.right)}` is not a constant')
                if isinstance(l, Vec):
                    if l.acc:
                        return Unknown('power of accumulated values')
                    return Vec(l.deg * k, l.pw * k, None, self.fresh())
                if isinstance(l, Sca):
                    return Sca(l.deg * k)
                return l
            if isinstance(e.op, (ast.Div, ast.Mult)):
                sg = 1 if isinstance(e.op, ast.Mult) else -1
                if isinstance(l, Vec) and isinstance(r, Sca):
                    return Vec(l.deg + sg * r.deg, l.pw, l.acc, self.fresh())
                if isinstance(l, Sca) and isinstance(r, Vec) and sg == 1:
                    return Vec(l.deg + r.deg, r.pw, r.acc, self.fresh())
                if isinstance(l, Sca) and isinstance(r, Sca):
                    return Sca(l.deg + sg * r.deg)
                if isinstance(l, Vec) and isinstance(r, Vec) and sg == 1 and not l.acc and not r.acc:
                    return Vec(l.deg + r.deg, l.pw + r.pw, None, self.fresh())
                if isinstance(l, Unknown):
                    return l
                if isinstance(r, Unknown):
                    return r
            return Unknown(f'`{norm(e)[:40]}` is not a recognised operation on the weights')
        if isinstance(e, ast.Subscript):
            b = self.ev(e.value)
            if isinstance(b, Vec):
                ix = e.slice
                if isinstance(ix, ast.Slice):
                    st = self.const(ix.step) if ix.step is not None else 1
                    if ix.lower is None and ix.upper is None and st in (1, -1):
                        if st == 1:
                            return b
                        return Vec(b.deg, b.pw, 'other' if b.acc else None, self.fresh())
                    return Unknown(f'slice `{norm(e)}` drops entries')
                p = self.ev(ix)
                if isinstance(p, Perm):
                    v = Vec(b.deg, b.pw, b.acc, self.fresh())
                    v.gathered = (p, b.ver)
                    return v
                return Unknown(f'index `{norm(ix)}` is not a permutation')
            return b if isinstance(b, Unknown) else Unknown(f'`{norm(e)}` not recognised')
        if isinstance(e, ast.Call):
            f = norm(e.func)
            a = e.args
            if isinstance(e.func, ast.Attribute) and e.func.attr in ('cumsum', 'argsort', 'copy') and not a and \
                    not norm(e.func.value) in ('np', 'numpy'):
                # the method form of the array function: x.cumsum() is np.cumsum(x)
                f = 'np.' + e.func.attr
                a = [e.func.value]
            if f in ('np.linalg.norm', 'numpy.linalg.norm') and len(a) == 1 and not e.keywords:
                v = self.ev(a[0])
                if isinstance(v, Vec) and v.pw == 1 and not v.acc:
                    return Sca(v.deg)
                return Unknown(f'`{norm(e)}`: 2-norm of something that is not the plain vector')
            if f in ('np.sum', 'sum') and len(a) == 1 and not e.keywords:
                v = self.ev(a[0])
                if isinstance(v, Vec) and not v.acc:
                    s = Sca(v.deg)
                    s.sum_pw = v.pw
                    return s
                return Unknown(f'`{norm(e)}` not recognised')
            if f in ('np.dot', 'np.vdot', 'np.inner') and len(a) == 2 and norm(a[0]) == norm(a[1]):
                v = self.ev(a[0])
                if isinstance(v, Vec) and not v.acc:
                    return Sca(2 * v.deg)
            if f in ('np.sqrt',) and len(a) == 1:
                v = self.ev(a[0])
                if isinstance(v, Sca):
                    return Sca(v.deg / 2)
                if isinstance(v, Vec) and not v.acc:
                    return Vec(v.deg / 2, v.pw / 2, None, self.fresh())
            if f in ('np.abs', 'abs', 'np.asarray', 'np.array', 'np.copy') and len(a) == 1:
                v = self.ev(a[0])
                if isinstance(v, Vec):
                    return Vec(v.deg, v.pw, v.acc, self.fresh())
                return v
            if f in ('np.empty_like', 'np.zeros_like', 'np.empty', 'np.zeros') and a:
                # a fresh array of the same length, to be filled completely by a scatter through a permutation
                v = self.ev(a[0]) if f.endswith('_like') else None
                w = Vec(0, 0, None, self.fresh())
                w.blank_like = v.ver if isinstance(v, Vec) else None
                return w
            if f == 'np.square' and len(a) == 1:
                v = self.ev(a[0])
                if isinstance(v, Vec) and not v.acc:
                    return Vec(2 * v.deg, 2 * v.pw, None, self.fresh())
            if f == 'np.argsort' and len(a) == 1:
                v = self.ev(a[0])
                if isinstance(v, Vec) and not v.acc:
                    kinds = [k for k in e.keywords if k.arg not in ('kind',)]
                    return Perm(v.ver, not kinds)
                return Unknown(f'`{norm(e)}`: argsort of something that is not the current weights')
            if f == 'np.sort' and len(a) == 1 and not e.keywords:
                v = self.ev(a[0])
                if isinstance(v, Vec) and not v.acc:
                    w = Vec(v.deg, v.pw, None, self.fresh())
                    w.sorted_copy = True
                    return w
            if f == 'np.cumsum' and len(a) == 1 and not e.keywords:
                v = self.ev(a[0])
                if isinstance(v, Vec) and not v.acc:
                    g = getattr(v, 'gathered', None)
                    w = Vec(v.deg, v.pw, 'other', self.fresh())
                    if g is not None and g[0].asc and g[0].ver == g[1]:
                        w.cum_of = g          # cumulative sums along the ascending order of the gathered array
                    return w
                return v if isinstance(v, Unknown) else Unknown(f'`{norm(e)}` not recognised')
            return Unknown(f'call `{norm(e)[:50]}` is not a recognised operation on the weights')
        if isinstance(e, ast.UnaryOp) and isinstance(e.op, ast.USub):
            v = self.ev(e.operand)
            if isinstance(v, Vec):
                return Unknown('negated weights')
            return v
        return Unknown(f'`{norm(e)[:50]}` not recognised')

    # ------------------------------------------------------------------
    def run(self, tolname):
        fn = self.fi.node
        vec = self.fi.params[0]
        v0 = Vec(1, 1, None, self.fresh())
        v0.den, v0.norm_done = None, True
        self.env[vec] = v0
        self.tol = tolname
        self.ret = None
        self.rets = []
        self.block(fn.body)
        return self.ret

    def block(self, stmts):
        for s in stmts:
            if isinstance(s, ast.Expr) and isinstance(s.value, ast.Constant):
                continue
            if isinstance(s, ast.Assert):
                continue
            if isinstance(s, ast.If):
                # the only conditional of the rule: the zero vector keeps nothing
                t = s.test
                zero = isinstance(t, ast.Compare) and len(t.ops) == 1 and isinstance(t.ops[0], (ast.Eq, ast.LtE)) and \
                    isinstance(self.ev(t.left), Sca) and self.const(t.comparators[0]) == 0
                empty = len(s.body) == 1 and isinstance(s.body[0], ast.Return) and not s.orelse and \
                    norm(s.body[0].value).startswith(('np.array([]', 'np.zeros(0', 'np.empty(0', '[]'))
                # the same guard written the other way round: if w != 0 / w > 0: <rule> else: return <empty>
                nonzero = isinstance(t, ast.Compare) and len(t.ops) == 1 and isinstance(t.ops[0], (ast.NotEq, ast.Gt)) and \
                    isinstance(self.ev(t.left), Sca) and self.const(t.comparators[0]) == 0
                empty_else = len(s.orelse) == 1 and isinstance(s.orelse[0], ast.Return) and \
                    norm(s.orelse[0].value).startswith(('np.array([]', 'np.zeros(0', 'np.empty(0', '[]'))
                if nonzero and empty_else:
                    self.block(s.body)
                    if self.ret is not None:
                        return
                    continue
                if nonzero and not s.orelse and s.body and isinstance(s.body[-1], ast.Return):
                    # if w != 0: <rule>; return <kept>        followed by        return <empty>   (the zero vector keeps nothing)
                    saved = dict(self.env)
                    self.block(s.body)
                    self.env = saved
                    self.zero_tail = True
                    continue
                if not (zero and empty):
                    # any other conditional: both arms are followed; each return met is judged on its own
                    saved = dict(self.env)
                    self.block(s.body)
                    self.env = dict(saved)
                    self.block(s.orelse)
                    self.env = saved
                continue
            if isinstance(s, ast.Assign) and len(s.targets) == 1:
                t = s.targets[0]
                if isinstance(t, ast.Name):
                    self.env[t.id] = self.ev(s.value)
                    continue
                if isinstance(t, ast.Subscript) and isinstance(t.value, ast.Name):
                    base = self.env.get(t.value.id)
                    p = self.ev(t.slice) if not isinstance(t.slice, ast.Slice) else None
                    v = self.ev(s.value)
                    if isinstance(base, Vec) and isinstance(p, Perm) and isinstance(v, Vec):
                        g = getattr(v, 'cum_of', None)
                        # scatter back into the array the values were gathered from, or into a blank array of the same
                        # length (a permutation fills every slot): entry i holds the accumulated weight up to entry i
                        src = base.ver if not hasattr(base, 'blank_like') else (g[1] if g is not None else None)
                        asc = g is not None and g[0].ver == src and p.ver == src and p.asc
                        nv = Vec(v.deg, v.pw, 'asc' if asc else 'other', self.fresh())
                        nv.den, nv.norm_done = getattr(v, 'den', 'mixed'), True
                        self.env[t.value.id] = nv
                        continue
                    self.env[t.value.id] = Unknown(f'store `{norm(s)[:50]}` not recognised')
                    continue
            if isinstance(s, ast.Return):
                if getattr(self, 'zero_tail', False) and s.value is not None and \
                        norm(s.value).startswith(('np.array([]', 'np.zeros(0', 'np.empty(0', '[]')):
                    return
                self.rets.append((s, dict(self.env)))
                self.ret = s
                return
            if isinstance(s, (ast.Assign, ast.AugAssign)):
                for t in (s.targets if isinstance(s, ast.Assign) else [s.target]):
                    for n_ in ast.walk(t):
                        if isinstance(n_, ast.Name):
                            self.env[n_.id] = Unknown(f'`{norm(s)[:50]}` is not a recognised step of the rule')
                continue
            raise AnalysisError(f'{self.fi.qual}: statement `{norm(s)[:60]}` is not part of a recognised truncation rule')


def kept_set(ip, ret):
    """the returned index set: np.where(<weights> > tol)[0] (or tol < <weights>)"""
    e = ret.value
    if isinstance(e, ast.Subscript) and ip.const(e.slice) == 0:
        e = e.value
    if not (isinstance(e, ast.Call) and norm(e.func) in ('np.where', 'np.nonzero', 'np.flatnonzero') and len(e.args) == 1):
        return None
    c = e.args[0]
    if not (isinstance(c, ast.Compare) and len(c.ops) == 1):
        return None
    l, r, op = c.left, c.comparators[0], c.ops[0]
    if norm(r) == ip.tol:
        return l, type(op), c
    if norm(l) == ip.tol:
        flip = {ast.Lt: ast.Gt, ast.LtE: ast.GtE, ast.Gt: ast.Lt, ast.GtE: ast.LtE}
        return r, flip.get(type(op), type(op)), c
    return None


def rule(chk, repo, rid):
    chk.rule(rid, 'truncation rule, clause by clause: the quantity compared with the tolerance is a relative weight (scale '
                  'invariant, quadratic in the singular values, summing to one over all values), accumulated in ascending order of the values themselves '
                  '(across charge sectors), compared strictly (`> tol`: maximal discarded set, zeros dropped at tol = 0); '
                  'every caller hands over the singular values as they come out of the SVD (power 1)')
    fi = repo.func('bond_ops.retained_bond_indices')
    if len(fi.params) != 2:
        raise AnalysisError('retained_bond_indices: expected (s, tol)')
    from ..normal import wrap, result_var_to_returns
    fi = wrap(fi, result_var_to_returns)
    ip = Interp(fi)
    ret = ip.run(fi.params[1])
    if ret is None:
        raise AnalysisError('retained_bond_indices: no final return found')
    n = 0
    # every return but the last (straight-line) one is judged by its form alone
    final_env = None
    for r_, env_ in ip.rets:
        if r_ is ret and final_env is None:
            final_env = env_
            continue
        if kept_set(ip, r_) is None:
            chk.ob(rid, where(repo, fi, r_), 'retained_bond_indices: every result is the set of positions whose cumulative weight '
                   'exceeds tol', False, f'`{norm(r_)[:80]}` is not of the form np.where(<cumulative weights> > tol)[0]',
                   key=f'{rid}|form|{norm(r_)[:60]}')
            n += 1
    ks = kept_set(ip, ret)
    w = where(repo, fi, ret)
    if ks is None:
        chk.ob(rid, w, 'retained_bond_indices: the result is the set of positions whose cumulative weight exceeds tol '
               '(an element-wise test of the accumulated weights: tied values on the cut are split, which no threshold on the '
               'values themselves can do)', False,
               f'`{norm(ret)[:80]}` is not of the form np.where(<cumulative weights> > tol)[0]', key=f'{rid}|form')
        return n + 1
    wexpr, op, cmp_ = ks
    if final_env is not None:
        ip.env = final_env
    v = ip.ev(wexpr)
    isv = isinstance(v, Vec)
    chk.ob(rid, w, 'T1: the compared quantity is scale invariant and quadratic in the singular values (a relative weight)',
           isv and v.deg == 0 and v.pw == 2, f'`{norm(wexpr)}` is {v}', key=f'{rid}|T1')
    chk.ob(rid, w, 'T2: the weights are accumulated in ascending order of the values themselves (gather by argsort, cumsum, '
           'scatter by the same permutation)', isv and v.acc == 'asc', f'`{norm(wexpr)}` is {v}', key=f'{rid}|T2')
    chk.ob(rid, w, 'T3: the comparison with the tolerance is strict (cumulative weight > tol is kept)', op is ast.Gt,
           f'`{norm(cmp_)}`', key=f'{rid}|T3')
    den = getattr(v, 'den', 'mixed') if isv else 'mixed'
    unit = isinstance(den, tuple) and abs(den[0] - v.pw) < 1e-9 and abs(den[1] - 1) < 1e-9
    chk.ob(rid, w, 'T5: the weights sum to one (values to the power p divided by the sum of the p-th powers, e.g. squares '
           'over the squared 2-norm), so that tol bounds the discarded fraction of the total weight', unit,
           f'`{norm(wexpr)}` is s^{v.pw if isv else "?"} divided by ' +
           (f'(sum s^{den[0]})^{den[1]}' if isinstance(den, tuple) else 'nothing' if den is None else 'an unrecognised factor'),
           key=f'{rid}|T5')
    n += 4
    # T4: call sites
    sites = 0
    for q, cfi in sorted(repo.funcs.items()):
        for c in ast.walk(cfi.node):
            if isinstance(c, ast.Call) and norm(c.func).split('.')[-1] == 'retained_bond_indices' and c.args:
                sites += 1
                pw, why = power(cfi, c.args[0])
                chk.ob(rid, where(repo, cfi, c), f'T4: {cfi.name} hands the singular values themselves to the truncation rule',
                       pw == 1, f'`{norm(c.args[0])}`: {why}', key=f'{rid}|T4|{q}|{sites}')
                n += 1
    chk.floor(rid, sites, 2, hard_min=2)
    return n


SVD_NAMES = ('np.linalg.svd', 'svd', 'scipy.linalg.svd', 'linalg.svd')


def power(fi, e, depth=0):
    """power of the singular values in expression e of function fi: (power | None, reason)"""
    if depth > 6:
        return None, 'definition chain too long'
    if isinstance(e, ast.Name):
        pws = set()
        seen = False
        for s in ast.walk(fi.node):
            if isinstance(s, ast.Assign):
                for t in s.targets:
                    elts = list(t.elts) if isinstance(t, (ast.Tuple, ast.List)) else [t]
                    for k, x in enumerate(elts):
                        if isinstance(x, ast.Name) and x.id == e.id:
                            seen = True
                            if len(elts) > 1:
                                if isinstance(s.value, ast.Call) and norm(s.value.func) in SVD_NAMES and k == 1 and len(elts) == 3:
                                    pws.add(1)
                                elif isinstance(s.value, ast.Tuple) and len(s.value.elts) == len(elts):
                                    vk = s.value.elts[k]
                                    if isinstance(vk, ast.Subscript) and norm(vk.value) == e.id:
                                        continue    # a selection of itself
                                    p, why = power(fi, vk, depth + 1)
                                    if p is None:
                                        return None, why
                                    pws.add(p)
                                else:
                                    return None, f'`{e.id}` is bound by `{norm(s)[:50]}`'
                            else:
                                if isinstance(s.value, ast.Call) and norm(s.value.func) in ('np.zeros', 'np.empty'):
                                    continue        # storage, filled by slice stores below
                                p, why = power(fi, s.value, depth + 1) if norm(s.value) != e.id else (None, '')
                                if isinstance(s.value, ast.Subscript) and norm(s.value.value) == e.id:
                                    continue        # s = s[...]: a selection of itself
                                if p is None:
                                    return None, why
                                pws.add(p)
                        elif isinstance(x, ast.Subscript) and isinstance(x.value, ast.Name) and x.value.id == e.id:
                            seen = True
                            p, why = power(fi, s.value, depth + 1)
                            if p is None:
                                return None, why
                            pws.add(p)
            elif isinstance(s, ast.AugAssign) and isinstance(s.target, ast.Name) and s.target.id == e.id:
                return None, f'`{e.id}` is updated by `{norm(s)[:50]}`'
        if not seen:
            return None, f'`{e.id}` has no definition in {fi.name}'
        if len(pws) == 1:
            p = pws.pop()
            return p, f'power {p}'
        return None, f'definitions of `{e.id}` disagree: powers {sorted(pws)}'
    if isinstance(e, ast.Subscript):
        return power(fi, e.value, depth)
    if isinstance(e, ast.BinOp) and isinstance(e.op, ast.Pow) and isinstance(e.right, ast.Constant) and \
            isinstance(e.right.value, (int, float)):
        p, why = power(fi, e.left, depth)
        return (None, why) if p is None else (p * e.right.value, f'power {p * e.right.value}')
    if isinstance(e, ast.BinOp) and isinstance(e.op, ast.Mult):
        p, w1 = power(fi, e.left, depth)
        q, w2 = power(fi, e.right, depth)
        if p is not None and q is not None:
            return p + q, f'power {p + q}'
        return None, w1 if p is None else w2
    if isinstance(e, ast.Call) and norm(e.func) in ('np.abs', 'abs', 'np.asarray', 'np.array', 'np.copy', 'np.real') and e.args:
        return power(fi, e.args[0], depth)
    if isinstance(e, ast.Call) and norm(e.func) == 'np.sqrt' and e.args:
        p, why = power(fi, e.args[0], depth)
        return (None, why) if p is None else (p / 2, f'power {p / 2}')
    if isinstance(e, ast.Call) and norm(e.func) == 'np.square' and e.args:
        p, why = power(fi, e.args[0], depth)
        return (None, why) if p is None else (2 * p, f'power {2 * p}')
    return None, f'`{norm(e)[:50]}` is not traced to the output of an SVD'
