"""C19 - operands are never modified, results share no mutable state with them."""
from ..loader import AnalysisError
from ..effects import Engine, IMM

# ---------------------------------------------------------------------------------------
# Frozen tables (confirmed by reading the docstrings; one reason per in-place entry).
# qualified name -> parameter that may be written
INPLACE = {
    'mps.MPS.zero_qnumbers': 'self',             # "Set all quantum numbers to zero"
    'mps.MPS.orthonormalize': 'self',            # in-place canonicalisation
    'mps.MPS.compress': 'self',                  # "Compress and orthonormalize a MPS"
    'mpo.MPO.zero_qnumbers': 'self',
    'mpo.MPO.orthonormalize': 'self',
    'evolution.integrate_local_singlesite': 'psi',   # "`psi` is overwritten in-place"
    'evolution.integrate_local_twosite': 'psi',
    'minimization.calculate_ground_state_local_singlesite': 'psi',   # "will be overwritten"
    'minimization.calculate_ground_state_local_twosite': 'psi',
    'opgraph.OpGraphNode.add_edge_id': 'self',
    'opgraph.OpGraphNode.remove_edge_id': 'self',
    'opgraph.OpGraphNode.rename_edge_id': 'self',
    'opgraph.OpGraphNode.flip': 'self',
    'opgraph.OpGraphEdge.flip': 'self',
    'opgraph.OpGraphEdge.add': 'self',           # "Logical addition of the operation represented by another edge"
    'opgraph.OpGraph.add_node': 'self',
    'opgraph.OpGraph.remove_node': 'self',
    'opgraph.OpGraph.add_edge': 'self',
    'opgraph.OpGraph.add_connect_edge': 'self',
    'opgraph.OpGraph.remove_edge': 'self',
    'opgraph.OpGraph.merge_edges': 'self',
    'opgraph.OpGraph.simplify': 'self',          # "Simplify the graph in-place"
    'opgraph.OpGraph.flip': 'self',
    'opgraph.OpGraph.rename_node_id': 'self',
    'opgraph.OpGraph.rename_edge_id': 'self',
    'opgraph.OpGraph.add': 'self',               # "Add another graph by merging it into the current one"
    'autop.AutOpNode.add_edge_id': 'self',
    'autop.AutOp.add_node': 'self',
    'autop.AutOp.remove_node': 'self',
    'autop.AutOp.add_edge': 'self',
    'autop.AutOp.add_connect_edge': 'self',
    'autop.AutOp.remove_edge': 'self',
    'optree.OpTreeNode.add_child': 'self',
    'bipartite_graph.HopcroftKarp.__call__': 'self',   # scratch data of the algorithm object
}
# `add_connect_edge` also registers the edge id in the nodes of the graph (part of self).

# functions returning an MPS, MPO or OpGraph (or OpChain): nothing mutable of an operand reachable
RESULT = [
    'mps.MPS.from_vector', 'mps.MPS.__add__', 'mps.MPS.__sub__', 'mps.add_mps',
    'mpo.MPO.identity', 'mpo.MPO.from_opgraph', 'mpo.MPO.__add__', 'mpo.MPO.__sub__', 'mpo.MPO.__matmul__',
    'mpo.add_mpo', 'mpo.multiply_mpo', 'operation.apply_operator',
    'opgraph.OpGraph.from_automaton', 'opgraph.OpGraph.from_opchains', 'opgraph.OpGraph.from_optrees',
    'hamiltonian.ising_mpo', 'hamiltonian.heisenberg_xxz_mpo', 'hamiltonian.heisenberg_xxz_spin1_mpo',
    'hamiltonian.bose_hubbard_mpo', 'hamiltonian.fermi_hubbard_mpo', 'hamiltonian.linear_fermionic_mpo',
    'hamiltonian.molecular_hamiltonian_mpo', 'hamiltonian.spin_molecular_hamiltonian_mpo',
    'opchain.OpChain.padded',
]
# constructors whose object must not keep a reference to a mutable argument (conversions)
CTOR_RESULT = ['mps.MPS.__init__', 'mpo.MPO.__init__', 'opchain.OpChain.__init__',
               'opgraph.OpGraphNode.__init__', 'opgraph.OpGraphEdge.__init__',
               'bipartite_graph.BipartiteGraph.__init__', 'autop.AutOpNode.__init__']
# constructors that take ownership of / link to the objects handed to them (documented structure building)
CTOR_OWNERSHIP = {
    'opgraph.OpGraph.__init__': 'takes ownership of the node and edge objects handed to it (low-level constructor)',
    'autop.AutOp.__init__': 'takes ownership of the node and edge objects handed to it',
    'autop.AutOpEdge.__init__': 'stores `opics`/`active` (sequence or callable) by reference, documented Union type',
    'optree.OpTreeEdge.__init__': 'links to the child node object (tree structure)',
    'optree.OpTreeNode.__init__': 'links to the child edge objects (tree structure; the list itself is copied)',
    'optree.OpTree.__init__': 'links to the root node object',
    'bipartite_graph.HopcroftKarp.__init__': '"store a reference to the graph"',
}
# ... but the SEQUENCE handed over is converted: the new object links to the elements, never to the caller's list itself
# (the object appends to / rebuilds its own containers)
OWNERSHIP_CONTAINERS = {
    'optree.OpTreeNode.__init__': ['children'],
    'opgraph.OpGraph.__init__': ['nodes', 'edges', 'nid_terminal'],
    'autop.AutOp.__init__': ['nodes', 'edges', 'nid_terminal'],
}
EXTRA_PUBLIC = ['mps.add_mps', 'mps.local_orthonormalize_left_qr', 'mps.local_orthonormalize_right_qr',
                'mps.local_orthonormalize_left_svd', 'mps.local_orthonormalize_right_svd',
                'mpo.add_mpo', 'mpo.multiply_mpo', 'mpo.local_orthonormalize_left_qr',
                'mpo.local_orthonormalize_right_qr',
                'operation.contraction_step_right', 'operation.contraction_step_left',
                'operation.contraction_operator_step_right', 'operation.contraction_operator_step_left',
                'operation.contraction_operator_density_step_right']
DUNDERS = {'__init__', '__add__', '__sub__', '__matmul__', '__eq__', '__call__', '__hash__'}
# in-place entries that take ownership of an argument object (the argument becomes part of self)
INPLACE_OWNERSHIP = {'opgraph.OpGraph.add_node', 'opgraph.OpGraph.add_edge', 'opgraph.OpGraph.add_connect_edge',
                     'autop.AutOp.add_node', 'autop.AutOp.add_edge', 'autop.AutOp.add_connect_edge',
                     'optree.OpTreeNode.add_child'}


def public_entries(repo):
    out = []
    for mname, mod in sorted(repo.modules.items()):
        if mname == '__init__':
            continue
        for name in repo.public_names(mname):
            if name in mod.functions:
                out.append(mod.functions[name])
            elif name in mod.classes:
                ci = mod.classes[name]
                if any(b in ('IntEnum', 'Enum') for b in ci.bases):
                    continue
                for m in ci.methods.values():
                    if not m.name.startswith('_') or m.name in DUNDERS:
                        out.append(m)
    for q in EXTRA_PUBLIC:
        fi = repo.func(q)
        if fi not in out:
            out.append(fi)
    return out


def root_param(loc):
    return loc.root[1] if loc.root[0] == 'P' else None


def analyse_entry(eng, fi):
    res = eng.analyse(fi)
    pw = {}
    for l, sites in res['writes'].items():
        if l.is_param() and l.kind not in ('imm', 'callable', 'rng'):
            pw.setdefault(root_param(l), []).append((l.describe(), sorted(sites)[0]))
    return res, pw


def shared_with_params(eng, fi, val, exclude=()):
    out = []
    for l in eng.reachable(val):
        if l.is_param() and l.kind not in ('imm', 'callable', 'rng') and root_param(l) not in exclude:
            out.append(l.describe())
    return sorted(out)


def run(chk, repo, tier):
    eng = Engine(repo)
    chk.rule('C19.PURE', 'public operation that returns a new object or a number: the may-write set over all '
                         'parameters (any path, including callees) is empty')
    chk.rule('C19.INPLACE', 'documented in-place operation: the may-write set is contained in the one documented '
                            'parameter (never the Hamiltonian, never the other graph)')
    chk.rule('C19.RESULT', 'operation returning an MPS/MPO/OpGraph/OpChain: no mutable object reachable from a '
                           'parameter is reachable from the result (depth 6 through fields and elements)')
    chk.rule('C19.CTOR', 'converting constructors: nothing mutable reachable from a non-self argument is stored '
                         'into the new object; every constructor writes only self')
    entries = public_entries(repo)
    for q in list(INPLACE) + RESULT + CTOR_RESULT + list(CTOR_OWNERSHIP):
        repo.func(q)      # anchors must exist
    n_pure = n_inpl = n_res = n_ctor = 0
    unclassified = []
    assumed = set()
    total_calls = 0
    for fi in entries:
        q = fi.qual
        res, pw = analyse_entry(eng, fi)
        assumed |= eng.assumed
        total_calls += eng.resolved_calls
        where = f'pytenet/{fi.module}.py:{q.split(".", 1)[1]}:{fi.node.lineno}'
        if fi.name == '__init__':
            n_ctor += 1
            bad = {p: w for p, w in pw.items() if p != 'self'}
            chk.ob('C19.CTOR', where, f'{q} writes only self', not bad,
                   '; '.join(f'may write {d} at {s}' for ws in bad.values() for d, s in ws[:2]),
                   key=f'C19.CTOR|{q}|writes')
            if q in CTOR_RESULT:
                selfv = res['args']['self']
                sh = shared_with_params(eng, fi, selfv, exclude=('self',))
                chk.ob('C19.CTOR', where, f'{q} keeps no reference to a mutable argument', not sh,
                       'new object can reach ' + ', '.join(sh[:4]) if sh else '', key=f'C19.CTOR|{q}|sharing')
            elif q not in CTOR_OWNERSHIP:
                unclassified.append(q)
            if q in OWNERSHIP_CONTAINERS:
                selfv = res['args']['self']
                sh = [d for d in shared_with_params(eng, fi, selfv, exclude=('self',)) if d in OWNERSHIP_CONTAINERS[q]]
                chk.ob('C19.CTOR', where, f'{q} links to the objects handed to it but converts the sequence that holds them (the '
                       f"caller's list is not the object's list)", not sh, 'the new object holds the caller\'s ' + ', '.join(sh) if sh else '',
                       key=f'C19.CTOR|{q}|container')
            continue
        if q in INPLACE:
            n_inpl += 1
            allowed = INPLACE[q]
            bad = {p: w for p, w in pw.items() if p != allowed}
            chk.ob('C19.INPLACE', where, f'{q} may write only `{allowed}`', not bad,
                   '; '.join(f'may write {d} at {s}' for ws in bad.values() for d, s in ws[:2]),
                   key=f'C19.INPLACE|{q}')
            if allowed not in pw and q not in ('bipartite_graph.HopcroftKarp.__call__',):
                # sanity of the engine: an in-place routine that writes nothing means the analysis lost track
                raise AnalysisError(f'effects engine found no write to `{allowed}` in in-place routine {q}')
        else:
            n_pure += 1
            chk.ob('C19.PURE', where, f'{q} writes none of its parameters', not pw,
                   '; '.join(f'may write {d} at {s}' for ws in pw.values() for d, s in ws[:2]),
                   key=f'C19.PURE|{q}')
        if q in RESULT:
            n_res += 1
            sh = shared_with_params(eng, fi, res['ret'])
            chk.ob('C19.RESULT', where, f'result of {q} shares no mutable state with an operand', not sh,
                   'result can reach ' + ', '.join(sh[:4]) if sh else '', key=f'C19.RESULT|{q}')
    chk.rule('C19.ALIAS', 'a returned MPS / MPO does not share one array between its own sites (list repetition of a mutable '
                          'element), so that an in-place edit of one site tensor cannot change another')
    from . import arith
    arith.aliasing_rules(chk, repo, 'C19.ALIAS')
    # built-in positive examples: the engine must see a write / a sharing where there is one
    selftest(chk, repo, eng)
    chk.floor('C19.PURE', n_pure, 80, hard_min=40)
    chk.floor('C19.INPLACE', n_inpl, len(INPLACE), hard_min=20)
    chk.floor('C19.RESULT', n_res, len(RESULT), hard_min=15)
    chk.floor('C19.CTOR', n_ctor, 18, hard_min=8)
    chk.notes['entry_points'] = len(entries)
    chk.notes['unclassified_constructors'] = unclassified
    chk.notes['ownership_constructors'] = CTOR_OWNERSHIP
    chk.notes['repository_calls_analysed'] = total_calls
    for a in sorted(assumed):
        chk.assume(a)
    chk.assume('arrays handed in by the user do not overlap each other')
    chk.assume('no setattr/exec/globals in the package (checked: none)')
    chk.trust('NumPy/SciPy API classification (copy / view / in-place) in sa/effects.py')
    chk.trust('class-field type table CLASS_FIELDS in sa/effects.py')
    return ('May-write / may-share analysis (flow-sensitive locals, monotone typed abstract heap, full context '
            'sensitivity by analysing callees with the abstract arguments of each call site) over every public '
            'entry point of pytenet.  Decides for all inputs and all later mutations whether an operand may be '
            'written and whether a returned MPS/MPO/OpGraph can reach a mutable object of an operand.',
            'one instance per (public entry point, obligation kind); distinct = distinct entry/obligation keys; '
            'non-trivial = the entry has at least one parameter holding a mutable object')


def selftest(chk, repo, eng):
    """Tiny positive examples that must be recognised on every run (rules whose expected offender count is 0)."""
    import ast
    from ..loader import FuncInfo
    src = (
        "def _w(a, b):\n    a[0] = 1\n    return b\n"
        "def _v(a):\n    return a.reshape(-1)\n"
        "def _c(a):\n    s = a\n    s /= 2\n    return np.array(a)\n"
        "def _ok(a):\n    s = a / 2\n    s[0] = 1\n    return s.copy()\n")
    tree = ast.parse(src)
    fis = {n.name: FuncInfo('qnumber', None, n) for n in tree.body}
    r = eng.analyse(fis['_w'])
    w = any(l.is_param() and l.root[1] == 'a' for l in r['writes'])
    s = any(l.is_param() and l.root[1] == 'b' for l in eng.reachable(r['ret']))
    r2 = eng.analyse(fis['_v'])
    s2 = any(l.is_param() for l in eng.reachable(r2['ret']))
    r3 = eng.analyse(fis['_c'])
    w3 = any(l.is_param() for l in r3['writes'])
    r4 = eng.analyse(fis['_ok'])
    ok4 = not any(l.is_param() for l in r4['writes']) and not any(l.is_param() for l in eng.reachable(r4['ret']))
    if not (w and s and s2 and w3 and ok4):
        raise AnalysisError(f'effects self-test failed: write={w} share={s} view={s2} augassign={w3} clean={ok4}')
    chk.notes['engine_selftest'] = 'subscript store, returned operand, returned view, in-place operator recognised; fresh copy clean'
