"""C06 - built-in lattice Hamiltonians: the structural clauses (DESIGN.md section 15).

The constructors are partially evaluated (sa/peval.py: constants propagated, numeric parameters symbolic, loops over
parameter-dependent ranges executed once with a symbolic variable, undecided tests forked); the rules read the evaluated
tables: charge typing, Hermiticity of the local terms, Jordan-Wigner typing, placement of the local chains, parameter
flow.  Equality of the dense matrix with the documented formula is not decided."""
import ast
from fractions import Fraction

from ..loader import norm, AnalysisError
from ..affine import Affine
from .. import optable as ot
from .. import peval as pe
from ..optable import FoldError, Mat, Band
from ..peval import Oid, Obj, Ref, Sym, Opaque, Gen, SymSeq, SymDict, symview
from .common import where

CHAIN_MODELS = ['hamiltonian.heisenberg_xxz_mpo', 'hamiltonian.heisenberg_xxz_spin1_mpo', 'hamiltonian.bose_hubbard_mpo',
                'hamiltonian.fermi_hubbard_mpo']
AUTOMATON_MODEL = 'hamiltonian.ising_mpo'
GRAPH_MODEL = 'hamiltonian.linear_fermionic_mpo'
FERMIONIC = {'hamiltonian.fermi_hubbard_mpo'}
SIZE_PARAMS = {'L', 'd', 'ftype'}
ONE = Affine.const(1)
ZERO = Affine.const(0)


# ----------------------------------------------------------------------
def _runs(repo, q):
    fi = repo.func(q)
    try:
        runs = pe.evaluate(repo, fi, string_params=('ftype',))
    except FoldError as ex:
        raise AnalysisError(f'{q}: outside the table vocabulary of the partial evaluator: {ex}')
    if not runs:
        raise AnalysisError(f'{q}: no evaluation')
    return fi, runs


def _label(run, many):
    if not many:
        return ''
    parts = [f'{k}={v!r}' for k, v in sorted(run.strings.items())]
    parts += [f'{"" if out else "not "}({key})' for key, out, _ in run.path]
    return ' [' + ', '.join(parts) + ']' if parts else ''


def _result(q, res):
    if isinstance(res, Obj) and res.kind == 'raise':
        return None
    if not (isinstance(res, Obj) and res.kind == 'MPO'):
        raise AnalysisError(f'{q}: the constructor does not return MPO.from_opgraph(...) on every path (got {res!r})')
    return res


def _qd(q, v):
    if isinstance(v, list) and all(isinstance(x, int) and not isinstance(x, bool) for x in v):
        return list(v)
    if isinstance(v, tuple) and v and v[0] == 'arange' and len(v[2]) == 1:
        return v
    raise AnalysisError(f'{q}: physical quantum numbers are not a table of integers ({v!r})'[:160])


def _opmap(q, v):
    if not (isinstance(v, SymDict) and not v.sym and v.items and all(isinstance(k, Oid) for k in v.items)):
        raise AnalysisError(f'{q}: operator map is not a table from operator ids to matrices')
    for k, m in v.items.items():
        if not isinstance(m, (Mat, Band)):
            raise AnalysisError(f'{q}: operator {k.name} is not a constant matrix ({m!r})'[:160])
    return {k.name: m for k, m in v.items.items()}


def _coeff(c):
    """coefficient value -> (parameter text or None, factor)"""
    if isinstance(c, (int, float)) and not isinstance(c, bool):
        return None, float(c)
    if isinstance(c, Sym):
        syms = sorted(c.a.syms())
        if len(syms) == 1 and c.a.c == 0:
            return syms[0], float(c.a.coeff(syms[0]))
        raise FoldError(f'coefficient `{c.a}` is not a constant multiple of one parameter')
    if isinstance(c, Opaque):
        return c.text, 1.0
    raise FoldError(f'coefficient {c!r}')


def _names_in(c):
    if isinstance(c, Sym):
        return set(c.a.syms())
    if isinstance(c, Opaque):
        import re
        return set(re.findall(r'[A-Za-z_][A-Za-z_0-9]*', c.text))
    return set()


def _hermitian(m):
    return m.close_to(m.adjoint())


def _bounds(constraints, sym):
    """integer solutions of a list of (affine in one symbol, op) meaning `affine op 0`, together with sym >= 1:
    (lo, hi) with None for unbounded, or 'empty'"""
    lo, hi = 1, None
    for d, op in constraints:
        if not d.syms():
            c = d.c
            ok = {'>=': c >= 0, '>': c > 0, '<=': c <= 0, '<': c < 0, '==': c == 0, '!=': c != 0}[op]
            if not ok:
                return 'empty'
            continue
        if d.syms() != {sym}:
            raise FoldError(f'condition `{d} {op} 0` is not about the lattice size alone')
        a, b = d.coeff(sym), d.c               # a*s + b op 0
        if op == '!=':
            continue                           # excludes one point at most
        if op == '==':
            v = -b / a
            if v.denominator != 1:
                return 'empty'
            lo = max(lo, int(v))
            hi = int(v) if hi is None else min(hi, int(v))
            continue
        if a < 0:
            a, b = -a, -b
            op = {'>=': '<=', '>': '<', '<=': '>=', '<': '>'}[op]
        t = -b / a                             # s op t
        import math
        if op == '>=':
            lo = max(lo, math.ceil(t))
        elif op == '>':
            lo = max(lo, math.floor(t) + 1)
        elif op == '<=':
            hi = math.floor(t) if hi is None else min(hi, math.floor(t))
        elif op == '<':
            v = math.ceil(t) - 1
            hi = v if hi is None else min(hi, v)
    if hi is not None and hi < lo:
        return 'empty'
    return lo, hi


def _path_forms(run):
    out = []
    neg = {'>=': '<', '>': '<=', '<=': '>', '<': '>=', '==': '!=', '!=': '=='}
    for key, outcome, form in run.path:
        if form is None:
            continue
        d, op = form
        out.append((d, op if outcome else neg[op]))
    return out


# ======================================================================
def table_rules(chk, repo, fi, q, lab, qd, opmap, ident, node):
    """R1a charge of every operator, R5 shapes / identity; returns {operator name: charge or None}"""
    dim = len(qd) if isinstance(qd, list) else None
    w = where(repo, fi, node)
    if ident is not None:
        m = opmap.get(ident.name) if isinstance(ident, Oid) else None
        ok = (isinstance(m, Mat) and dim is not None and m.close_to(Mat.identity(dim))) or (isinstance(m, Band) and m.offs == {0: '1'})
        chk.ob('C06.R5', w, f'{fi.name}{lab}: the identity id handed on is the key of the identity matrix of the physical dimension',
               bool(ok), f'{ident!r} -> {m!r}'[:120], key=f'C06.R5|{q}|identity{lab}')
    charge = {}
    for name, m in sorted(opmap.items()):
        ok = (isinstance(m, Band) and dim is None) or (isinstance(m, Mat) and m.n == m.m == dim)
        chk.ob('C06.R5', w, f'{fi.name}{lab}: operator {name} is a square matrix of the physical dimension', bool(ok), f'{m!r}'[:100],
               key=f'C06.R5|{q}|shape|{name}{lab}')
        try:
            cs = ot.charges(m, qd)
        except FoldError as ex:
            raise AnalysisError(f'{q}: operator {name}: {ex}')
        charge[name] = next(iter(cs)) if len(cs) == 1 else (0 if not cs else None)
        chk.ob('C06.R1', w, f'{fi.name}{lab}: all non-zero entries of operator {name} connect physical states whose quantum numbers '
               f'differ by one and the same amount', len(cs) <= 1, f'differences {sorted(cs)}', key=f'C06.R1|{q}|charge|{name}{lab}')
    return charge


def chain_model_rules(chk, repo, q):
    fi, runs = _runs(repo, q)
    many = len(runs) > 1
    for run, res0 in runs:
        lab = _label(run, many)
        res = _result(q, res0)
        if res is None:
            continue                    # the constructor raises on this path (documented for vanishing operators)
        g = res.f.get('graph')
        if not (isinstance(g, Obj) and g.kind == 'graph:opchains'):
            raise AnalysisError(f'{q}: the graph is not compiled from operator chains')
        qd = _qd(q, res.f['qd'])
        opmap = _opmap(q, res.f['opmap'])
        charge = table_rules(chk, repo, fi, q, lab, qd, opmap, g.f.get('ident'), res.f['_node'])
        size = pe.as_affine(g.f.get('size'))
        if size is None or len(size.syms()) != 1:
            raise AnalysisError(f'{q}: lattice size handed to the chain compiler is not a parameter')
        ssym = next(iter(size.syms()))
        # local chains = OpChain objects built outside any parameter-dependent loop; placements = segments of the compiled list
        local = [o for o in getattr(run, 'created', []) if o.kind == 'OpChain' and not o.f.get('_ctx')]
        chains = symview(g.f['chains'])
        segs = chains.segs if isinstance(chains, SymSeq) else list(chains)

        def content(o):
            try:
                return (tuple(x.name for x in o.f['oids']), tuple(o.f['qnums']), repr(o.f['coeff']))
            except (AttributeError, TypeError, KeyError):
                raise AnalysisError(f'{q}: OpChain with fields outside the table vocabulary')
        placed = {}
        for sg in segs:
            if isinstance(sg, Gen):
                for e in sg.elts:
                    if not (isinstance(e, Obj) and e.kind == 'OpChain'):
                        raise AnalysisError(f'{q}: compiled list contains something else than OpChain objects')
                    src = e.copied_from if e.copied_from is not None else e
                    placed.setdefault(content(src), []).append((sg, e))
            elif isinstance(sg, Obj) and sg.kind == 'OpChain':
                placed.setdefault(content(sg), []).append((None, sg))
            else:
                raise AnalysisError(f'{q}: compiled list contains something else than OpChain objects')
        compiled_ids = {id(sg) for sg in segs if isinstance(sg, Obj)}
        seen_local = {}
        for o in local:
            if o.copied_from is None and id(o) not in compiled_ids:
                seen_local.setdefault(content(o), o)
        for o in local:
            # a chain that is only ever handed to the compiler as it stands is a local chain as well
            if o.copied_from is None and content(o) not in seen_local:
                seen_local[content(o)] = o
        if not seen_local and not run.path:
            raise AnalysisError(f'{q}: no local operator chain found')
        pforms = _path_forms(run)
        try:
            if any(d.syms() == {ssym} for d, _ in pforms) and _bounds([f_ for f_ in pforms if f_[0].syms() <= {ssym}], ssym) == 'empty':
                continue                # the path condition excludes every lattice size L >= 1
        except FoldError:
            pass
        groups = {}
        used = set()
        for key_, o in seen_local.items():
            oids, qn, _ = key_
            node = o.f['_node']
            w = where(repo, fi, node)
            tag = f'{"-".join(oids)}|{",".join(map(str, qn))}|{o.f["coeff"]!r}'
            missing = [x for x in oids if x not in opmap]
            chk.ob('C06.R5', w, f'{fi.name}{lab}: every operator id of the chain {list(oids)} is a key of the operator map', not missing,
                   f'missing {missing}', key=f'C06.R5|{q}|keys|{tag}{lab}')
            used |= _names_in(o.f['coeff'])
            if not missing:
                ok = len(qn) == len(oids) + 1 and qn[0] == 0 and qn[-1] == 0 and \
                    all(charge[x] is not None and qn[k + 1] - qn[k] == charge[x] for k, x in enumerate(oids))
                det = '; '.join(f'{x}: charge {charge[x]}, bond {qn[k]} -> {qn[k + 1] if k + 1 < len(qn) else "?"}'
                                for k, x in enumerate(oids))
                chk.ob('C06.R1', w, f'{fi.name}{lab}: along {list(oids)} the bond quantum numbers {list(qn)} start and end at 0 and change '
                       f'by the charge of each operator', ok, det, key=f'C06.R1|{q}|chain|{tag}{lab}')
                try:
                    par, fac = _coeff(o.f['coeff'])
                except FoldError as ex:
                    raise AnalysisError(f'{q}: {ex}')
                groups.setdefault((par, len(oids)), []).append((o, list(oids), fac))
            # ---- R4 placement: starts 0 .. size - n, each once, as a fresh object starting there
            n_ = len(oids)
            want_hi = size - Affine.const(n_)
            pl = placed.get(key_, [])
            ok, det = True, ''
            try:
                if pl and all(sg is None for sg, _ in pl):
                    # explicit placements (the loop had a constant trip count on this path): compare as sets of starts
                    starts = [pe.as_affine(e.f.get('istart')) for _, e in pl]
                    b = _bounds([f_ for f_ in pforms if f_[0].syms() <= {ssym}], ssym)
                    if any(e is o for _, e in pl):
                        ok, det = False, 'the local chain itself (with the start site of its definition) is handed to the compiler'
                    elif b != 'empty' and b[0] == b[1] and all(a_ is not None and a_.is_const() for a_ in starts):
                        hi_c = want_hi.subst(ssym, Affine.const(b[0]))
                        want = list(range(0, int(hi_c.c) + 1))
                        got = sorted(int(a_.c) for a_ in starts)
                        ok = got == want
                        det = '' if ok else f'for {ssym} = {b[0]} the chain is placed at starts {got}, admissible starts are {want}'
                    else:
                        raise FoldError('explicit placements on a path that does not fix the lattice size')
                elif any(sg is None for sg, _ in pl):
                    ok, det = False, 'the chain is placed both explicitly and by a loop'
                elif not pl:
                    b = _bounds(pforms + [(want_hi, '>=')], ssym)
                    ok = b == 'empty'
                    det = '' if ok else f'the chain is not placed at all although starts 0..{want_hi} exist for {ssym} in {b}'
                elif len(pl) > 1:
                    ok, det = False, f'{len(pl)} placement loops for one local chain'
                else:
                    sg, e = pl[0]
                    ist = pe.as_affine(e.f.get('istart'))
                    fresh = e.copied_from is not None or bool(e.f.get('_ctx')) and e is not o
                    if not fresh:
                        ok, det = False, 'every placement appends the same chain object (no copy per start site)'
                    elif ist is None or ist != Affine.sym(sg.var):
                        ok, det = False, f'start site of the placed copy is `{ist}`, not the position of the placement'
                    elif sg.lo == ZERO and sg.hi == want_hi:
                        ok = True
                    else:
                        # equal as sets of starts under the path condition: both empty for every admissible size
                        e1 = _bounds(pforms + [(sg.hi - sg.lo, '>=')], ssym)
                        e2 = _bounds(pforms + [(want_hi, '>=')], ssym)
                        ok = e1 == 'empty' and e2 == 'empty'
                        det = '' if ok else f'placed at starts [{sg.lo}, {sg.hi}], admissible starts are [0, {want_hi}]'
            except FoldError as ex:
                raise AnalysisError(f'{q}: {ex}')
            chk.ob('C06.R4', w, f'{fi.name}{lab}: the chain {list(oids)} is placed once, as a fresh copy starting there, at every start '
                   f'0 .. {want_hi} (none if it is longer than the lattice)', ok, det, key=f'C06.R4|{q}|{tag}{lab}')
        extra = [k for k in placed if k not in seen_local]
        chk.ob('C06.R4', where(repo, fi, res.f['_node']), f'{fi.name}{lab}: every compiled chain is a placement of a local chain', not extra,
               f'{extra[:2]}', key=f'C06.R4|{q}|extra{lab}')
        # ---- R2
        for (par, ln), terms in sorted(groups.items(), key=str):
            if all(isinstance(opmap[x], Mat) for _, oids, _ in terms for x in oids):
                tot = None
                for _, oids, fac in terms:
                    m = opmap[oids[0]]
                    for x in oids[1:]:
                        m = m.kron(opmap[x])
                    m = m.scale(fac)
                    tot = m if tot is None else tot.add(m)
                ok = _hermitian(tot)
                det = '' if ok else f'sum of {[oids for _, oids, _ in terms]} with factors {[f for _, _, f in terms]} differs from its adjoint'
            else:
                keys = [(tuple(sorted(opmap[x].offs.items()) for x in oids), fac) for _, oids, fac in terms]
                adj = [(tuple(sorted(opmap[x].adjoint().offs.items()) for x in oids), fac) for _, oids, fac in terms]
                ok = sorted(map(str, keys)) == sorted(map(str, adj))
                det = '' if ok else f'terms {[oids for _, oids, _ in terms]} are not closed under the adjoint'
            chk.ob('C06.R2', where(repo, fi, terms[0][0].f['_node']), f'{fi.name}{lab}: the {ln}-site terms multiplying {par or "a constant"} '
                   f'are Hermitian as they stand', ok, det, key=f'C06.R2|{q}|{par}|{ln}{lab}')
        # ---- R5 parameter flow (a parameter may be absent only on a path that tested that very parameter)
        tested = set()
        for key, out, form in run.path:
            tested |= set(form[0].syms()) if form else set()
            import re
            tested |= set(re.findall(r'[A-Za-z_][A-Za-z_0-9]*', key))
        for p in fi.params:
            if p in SIZE_PARAMS:
                continue
            chk.ob('C06.R5', where(repo, fi, fi.node), f'{fi.name}{lab}: parameter `{p}` reaches the coefficient of a local term (or the '
                   f'path has tested that it vanishes)', p in used or p in tested, f'coefficients use {sorted(used)}',
                   key=f'C06.R5|{q}|param|{p}{lab}')
        # ---- R3
        if q in FERMIONIC:
            classes = {}
            for name, m in opmap.items():
                fac = ot.kron_factor(m) if isinstance(m, Mat) and m.n == 4 else None
                if fac is not None and ot.mode_class(fac[0]) and ot.mode_class(fac[1]):
                    classes[name] = [ot.mode_class(fac[0]), ot.mode_class(fac[1])]
                elif isinstance(m, Mat) and m.is_diagonal():
                    classes[name] = ['E', 'E']
                else:
                    raise AnalysisError(f'{q}: operator {name} is neither a product of two mode factors nor diagonal')
            for key_, o in seen_local.items():
                oids = key_[0]
                if any(x not in classes for x in oids):
                    continue
                modes = [x for o_ in oids for x in classes[o_]]
                fpos = [k for k, x in enumerate(modes) if x == 'F']
                if len(fpos) == 0:
                    ok, det = all(x in ('I', 'E', 'Z') for x in modes), f'modes {modes}'
                elif len(fpos) == 2:
                    between = modes[fpos[0] + 1:fpos[1]]
                    outside = modes[:fpos[0]] + modes[fpos[1] + 1:]
                    ok = all(x == 'Z' for x in between) and all(x == 'I' for x in outside)
                    det = f'modes (site-major, spin-up first) {modes}: between the fermionic factors {between}, elsewhere {outside}'
                else:
                    ok, det = False, f'{len(fpos)} fermionic factors in one term: modes {modes}'
                chk.ob('C06.R3', where(repo, fi, o.f['_node']), f'{fi.name}{lab}: {list(oids)}: every mode strictly between the two '
                       f'fermionic factors carries Z and no other mode carries anything but the identity', ok, det,
                       key=f'C06.R3|{q}|{"-".join(oids)}|{o.f["coeff"]!r}{lab}')
        # a mutable default argument that was filled is state shared between calls
        for node, p, val in run.mutable_defaults:
            v = symview(val)
            changed = (isinstance(v, SymSeq) and v.segs) or (isinstance(v, list) and len(v) > 0) or (isinstance(v, SymDict) and (v.items or v.sym))
            chk.ob('C06.R5', f'pytenet/{fi.module}.py:{getattr(node, "name", "?")}:{node.lineno}', f'{getattr(node, "name", "?")}: the mutable '
                   f'default of `{p}` is not filled (it would be shared by all later calls)', not changed, '',
                   key=f'C06.R5|{q}|default|{getattr(node, "name", "?")}|{p}{lab}')


# ======================================================================
def _node_of(x, nodes):
    """end point of an edge -> node object (through the owner of the id, or by the value of a literal id)"""
    if isinstance(x, Ref) and isinstance(x.owner, Obj):
        return x.owner
    for n in nodes:
        if isinstance(n, Obj) and not isinstance(n.f.get('nid'), (Opaque, Sym)) and n.f.get('nid') == x:
            return n
    return None


def automaton_rules(chk, repo, q=AUTOMATON_MODEL):
    fi, runs = _runs(repo, q)
    many = len(runs) > 1
    for run, res0 in runs:
        lab = _label(run, many)
        res = _result(q, res0)
        if res is None:
            continue
        g = res.f.get('graph')
        if not (isinstance(g, Obj) and g.kind == 'graph:automaton' and isinstance(g.f.get('autop'), Obj)):
            raise AnalysisError(f'{q}: the graph is not unrolled from an automaton')
        au = g.f['autop']
        qd = _qd(q, res.f['qd'])
        opmap = _opmap(q, res.f['opmap'])
        charge = table_rules(chk, repo, fi, q, lab, qd, opmap, None, res.f['_node'])
        w = where(repo, fi, res.f['_node'])
        for name, m in sorted(opmap.items()):
            chk.ob('C06.R2', w, f'{fi.name}{lab}: operator {name} of the automaton is Hermitian', isinstance(m, Mat) and _hermitian(m), '',
                   key=f'C06.R2|{q}|{name}{lab}')
        nodes = [n for n in (au.f.get('nodes') or []) if isinstance(n, Obj)]
        nodes += [a[1] for a in au.f.get('added', []) if a[0] == 'add_node' and isinstance(a[1], Obj)]
        edges = [(x, None) for x in (au.f.get('edges') or []) if isinstance(x, Obj)]
        edges += [(a[1], a[3]) for a in au.f.get('added', []) if a[0] in ('add_connect_edge', 'add_edge') and isinstance(a[1], Obj)]
        if len(nodes) < 2 or not edges:
            raise AnalysisError(f'{q}: automaton nodes / edges not found')
        if any(a[2] for a in au.f.get('added', [])):
            raise AnalysisError(f'{q}: automaton edges depend on the lattice size')
        used = set()
        for k, (e, nd) in enumerate(edges):
            ends = e.f.get('nids')
            if not (isinstance(ends, (list, tuple)) and len(ends) == 2):
                raise AnalysisError(f'{q}: end points of automaton edge {k} not recognised')
            n0, n1 = _node_of(ends[0], nodes), _node_of(ends[1], nodes)
            if n0 is None or n1 is None:
                raise AnalysisError(f'{q}: an end point of automaton edge {k} is not a node of the automaton')
            q0, q1 = n0.f.get('qnum'), n1.f.get('qnum')
            ops = e.f.get('opics')
            if not isinstance(ops, (list, tuple)) or callable(ops):
                raise AnalysisError(f'{q}: operator list of automaton edge {k} not recognised')
            wn = where(repo, fi, e.f['_node'])
            for t in ops:
                if not (isinstance(t, (tuple, list)) and len(t) == 2):
                    raise AnalysisError(f'{q}: operator entry of automaton edge {k} not recognised')
                o, c = t
                used |= _names_in(c)
                okk = isinstance(o, Oid) and o.name in opmap
                nm0, nm1 = _pv(n0.f.get('nid')), _pv(n1.f.get('nid'))
                chk.ob('C06.R5', wn, f'{fi.name}{lab}: operator id {o!r} of edge {nm0} -> {nm1} is a key of the operator map', okk, '',
                       key=f'C06.R5|{q}|keys|{nm0}|{nm1}|{getattr(o, "name", o)}{lab}')
                if not okk:
                    continue
                ok = isinstance(q0, int) and isinstance(q1, int) and charge[o.name] is not None and q1 - q0 == charge[o.name]
                chk.ob('C06.R1', wn, f'{fi.name}{lab}: edge {nm0} -> {nm1} changes the node quantum number by the charge of {o.name}', ok,
                       f'nodes {q0} -> {q1}, charge {charge[o.name]}', key=f'C06.R1|{q}|edge|{nm0}|{nm1}|{o.name}|{c!r}{lab}')
        for p in fi.params:
            if p in SIZE_PARAMS:
                continue
            chk.ob('C06.R5', where(repo, fi, fi.node), f'{fi.name}{lab}: parameter `{p}` reaches the coefficient of an automaton edge',
                   p in used, f'coefficients use {sorted(used)}', key=f'C06.R5|{q}|param|{p}{lab}')
        # a coefficient must carry the parameter itself (with its sign): a constant multiple, not a function of it
        for k, (e, nd) in enumerate(edges):
            for t in e.f.get('opics'):
                c = t[1]
                lin = isinstance(c, (int, float, Sym))
                chk.ob('C06.R5', where(repo, fi, e.f['_node']), f'{fi.name}{lab}: the coefficient of edge {k} is a constant or a constant '
                       f'multiple of parameters (linear, sign kept)', lin, f'{c!r}', key=f'C06.R5|{q}|linear|{k}|{t[0]!r}{lab}')


def _pv(v):
    if isinstance(v, Ref):
        v = v.value
    return v.a if isinstance(v, Sym) else (v.text if isinstance(v, Opaque) else v)


# ======================================================================
def graph_model_rules(chk, repo, q=GRAPH_MODEL):
    """linear_fermionic_mpo: two node families (before / after the operator) and three kinds of edges; checked through
    the depth of every node (distance from the left terminal), whatever the keys of the families are"""
    fi, runs = _runs(repo, q)
    many = len(runs) > 1
    for run, res0 in runs:
        lab = _label(run, many)
        res = _result(q, res0)
        if res is None:
            continue
        g = res.f.get('graph')
        if not (isinstance(g, Obj) and g.kind == 'OpGraph'):
            raise AnalysisError(f'{q}: explicit operator graph not found')
        qd = _qd(q, res.f['qd'])
        opmap = _opmap(q, res.f['opmap'])
        charge = table_rules(chk, repo, fi, q, lab, qd, opmap, None, res.f['_node'])
        cls = {name: (ot.mode_class(m) if isinstance(m, Mat) else None) for name, m in opmap.items()}
        nodes = symview(g.f.get('nodes'))
        fams = {}
        for sg in (nodes.segs if isinstance(nodes, SymSeq) else []):
            if isinstance(sg, Gen) and len(sg.elts) == 1 and isinstance(sg.elts[0], Obj):
                fams[sg.family or sg.uid] = sg
        if len(fams) != 2:
            raise AnalysisError(f'{q}: expected two node families in the graph, found {len(fams)}')
        terms = g.f.get('nid_terminal')
        if not (isinstance(terms, (list, tuple)) and len(terms) == 2 and all(isinstance(t, Ref) and isinstance(t.owner, Obj) and
                                                                              t.owner.origin for t in terms)):
            raise AnalysisError(f'{q}: terminal ids are not ids of nodes of the two families')

        def pos(o):
            """(family, position of the node inside its family counted from the first element)"""
            fam, key, gen = o.origin
            if fam not in fams:
                raise AnalysisError(f'{q}: a node of an unregistered family is used')
            sg = fams[fam]
            if hasattr(gen, 'keyexpr'):
                # dict family: key = keyexpr(var)  ->  var - lo
                ke = gen.keyexpr
                co = ke.coeff(gen.var)
                var = (key - (ke - Affine.sym(gen.var).scale(co))).scale(Fraction(1) / co)
                return fam, var - sg.lo
            return fam, key             # list family: index
        fa, pa = pos(terms[0].owner)
        fb, pb = pos(terms[1].owner)
        nA = fams[fa].hi - fams[fa].lo + ONE
        nB = fams[fb].hi - fams[fb].lo + ONE
        lsyms = sorted(nA.syms())
        ok = fa != fb and pa == ZERO and pb == nB - ONE and nA == nB and len(lsyms) == 1
        chk.ob('C06.R3', where(repo, fi, g.f['_node']), f'{fi.name}{lab}: the graph starts at the first node of one family and ends at the '
               f'last node of the other; both families have one node per site', ok,
               f'families of {nA} and {nB} nodes; terminals at positions {pa} and {pb}', key=f'C06.R3|{q}|terminals{lab}')
        if not ok:
            continue
        Lsym = Affine.sym(lsyms[0]) if nA.coeff(lsyms[0]) == 1 and nA == Affine.sym(lsyms[0]) else nA
        depth = lambda fam, p: p if fam == fa else p + ONE       # family B: position p sits behind site p
        qn = {fa: fams[fa].elts[0].f.get('qnum'), fb: fams[fb].elts[0].f.get('qnum')}
        seen = {}
        from .arith import covers
        used_coeff = False
        for name, e, ctx, nd in g.f.get('added', []):
            if name not in ('add_connect_edge', 'add_edge') or not isinstance(e, Obj):
                continue
            ends = e.f.get('nids')
            if not (isinstance(ends, (list, tuple)) and len(ends) == 2 and all(isinstance(t, Ref) and isinstance(t.owner, Obj) and
                                                                                  t.owner.origin for t in ends)):
                raise AnalysisError(f'{q}: end points of an edge are not ids of family nodes')
            if len(ctx) != 1:
                raise AnalysisError(f'{q}: an edge is not added once per value of one loop variable')
            var, lo, hi = ctx[0]
            (f0, p0), (f1, p1) = pos(ends[0].owner), pos(ends[1].owner)
            d0, d1 = depth(f0, p0), depth(f1, p1)
            ops = e.f.get('opics')
            if not (isinstance(ops, (list, tuple)) and len(ops) == 1 and isinstance(ops[0], (tuple, list)) and len(ops[0]) == 2):
                raise AnalysisError(f'{q}: operator list of an edge not recognised')
            o, c = ops[0]
            kind = (f0 == fa, f1 == fa)
            want = {(True, True): 'I', (False, False): 'Z', (True, False): 'F'}.get(kind)
            kname = {(True, True): 'before -> before', (False, False): 'after -> after', (True, False): 'before -> after'}.get(kind, 'after -> before')
            wn = where(repo, fi, e.f['_node'])
            okk = isinstance(o, Oid) and o.name in opmap
            chk.ob('C06.R5', wn, f'{fi.name}{lab}: operator id of the {kname} edges is a key of the operator map', okk, f'{o!r}',
                   key=f'C06.R5|{q}|keys|{kname}{lab}')
            if not okk:
                continue
            q0, q1 = qn[f0], qn[f1]
            okc = isinstance(q0, int) and isinstance(q1, int) and charge[o.name] is not None and q1 - q0 == charge[o.name]
            chk.ob('C06.R1', wn, f'{fi.name}{lab}: {kname} edges change the node quantum number by the charge of {o.name}', okc,
                   f'nodes {q0} -> {q1}, charge {charge[o.name]}', key=f'C06.R1|{q}|edge|{kname}{lab}')
            okj = want is not None and cls[o.name] == want and d1 == d0 + ONE
            chk.ob('C06.R3', wn, f'{fi.name}{lab}: a {kname} edge leads from depth k to depth k + 1 and acts on site k with '
                   f'{"the identity (left of the operator)" if want == "I" else "Z (right of the operator)" if want == "Z" else "the fermionic operator"}',
                   okj, f'operator {o.name} of class {cls[o.name]}, depths {d0} -> {d1}', key=f'C06.R3|{q}|edge|{kname}{lab}')
            a0, a1 = d0.subst(var, lo), d0.subst(var, hi)
            if d0.coeff(var) < 0:
                a0, a1 = a1, a0
            seen.setdefault(kind, []).append((a0, a1))
            if kind == (True, False):
                # the coefficient of the operator at site k is entry k of the coefficient vector
                want_c = f'{fi.params[0]}[{d0}]'
                got = c.text if isinstance(c, Opaque) else repr(c)
                strip = lambda t: t.replace('(', '').replace(')', '').replace(' ', '')
                chk.ob('C06.R5', wn, f'{fi.name}{lab}: the operator at site k carries entry k of the coefficient vector',
                       strip(got) == strip(want_c),
                       f'`{got}` at site {d0}', key=f'C06.R5|{q}|param|coeff{lab}')
                used_coeff = True
        Ls = Lsym
        for kind, (a, b, what) in {(True, True): (ZERO, Ls - ONE - ONE, 'identity edges leave depths 0..L-2'),
                                   (False, False): (ONE, Ls - ONE, 'Z edges leave depths 1..L-1'),
                                   (True, False): (ZERO, Ls - ONE, 'operator edges leave every depth 0..L-1')}.items():
            ivs = seen.get(kind, [])
            ok = len(ivs) == 1 and ivs[0][0] == a and ivs[0][1] == b
            chk.ob('C06.R3', where(repo, fi, fi.node), f'{fi.name}{lab}: {what}, each once', ok,
                   f'ranges {[(str(x), str(y)) for x, y in ivs]}', key=f'C06.R3|{q}|cover|{kind}{lab}')
        if seen.get((False, True)):
            chk.ob('C06.R3', where(repo, fi, fi.node), f'{fi.name}{lab}: no edge leads back from behind the operator', False, '',
                   key=f'C06.R3|{q}|backward{lab}')
        if not used_coeff:
            chk.ob('C06.R5', where(repo, fi, fi.node), f'{fi.name}{lab}: the coefficient vector reaches the operator edges', False, '',
                   key=f'C06.R5|{q}|param|coeff{lab}')


# ======================================================================
def decorator_rule(chk, repo):
    """a constructor returns a new object per call: no memoising decorator"""
    for q in CHAIN_MODELS + [AUTOMATON_MODEL, GRAPH_MODEL, 'hamiltonian._local_opchains_to_mpo']:
        fi = repo.func(q)
        decos = [norm(d) for d in fi.node.decorator_list]
        bad = [d for d in decos if 'cache' in d or 'memo' in d.lower()]
        chk.ob('C06.R5', where(repo, fi, fi.node), f'{fi.name}: every call builds a new MPO (no memoising decorator: the tensors are '
               f'mutable and callers modify them in place)', not bad, f'{bad}', key=f'C06.R5|{q}|decorators')


def run(chk, repo, tier):
    chk.rule('C06.R1', 'charge typing: every local operator of a built-in model has one well-defined charge (all its non-zero entries '
                       'connect physical states whose quantum numbers differ by the same amount), and the quantum numbers written next '
                       'to it - bond quantum numbers of the local chains, node quantum numbers of the Ising automaton and of the '
                       'linear fermionic graph, for every spelling of the operator type - change by exactly that charge, starting and '
                       'ending at zero (resp. the documented shift).  The tables are obtained by partial evaluation of the '
                       'constructors (sa/peval.py); no pytenet code runs.')
    chk.rule('C06.R2', 'Hermiticity for real parameters: the local terms multiplying one parameter, of one length, summed with their '
                       'constant factors, equal their conjugate transpose (banded operators of symbolic order: the set of terms is '
                       'closed under the adjoint); every operator of an automaton edge is Hermitian.  Necessary: at L equal to the '
                       'term length that sum is the whole coefficient of the parameter.')
    chk.rule('C06.R3', 'Jordan-Wigner typing: in the Fermi-Hubbard hopping terms every mode strictly between the two fermionic factors '
                       '(site-major, spin-up first) carries Z and no other mode anything but the identity; in the linear fermionic '
                       'operator every edge leads from depth k to depth k + 1, the path through site k applies the identity left of '
                       'k, the operator at k and Z right of k, and the three kinds of edges cover all depths exactly once')
    chk.rule('C06.R4', 'placement of the local terms: every local chain of length n is handed to the chain compiler once per start '
                       '0 .. size - n (none if it is longer than the lattice), each time as a fresh object whose start site is the '
                       'position of the placement - on every path through the shifting code, the path condition taken into account')
    chk.rule('C06.R5', 'tables are complete and parameters are used: every operator id of a chain / edge is a key of the operator map, '
                       'every matrix has the physical dimension, the identity id maps to the identity, every numeric parameter reaches '
                       'a coefficient linearly (unless the path has tested that it vanishes), no state survives a call (no filled '
                       'mutable default, no memoising decorator)')
    # support rules first: what they establish is reported even if a constructor leaves the table vocabulary afterwards
    from . import support
    support.chain_compiler_rules(chk, repo, 'C06.R6')
    support.graph_table_rules(chk, repo, 'C06.R7')
    support.storage_type_rules(chk, repo, 'C06.R8', {'hamiltonian', 'mpo'}, only=set(CHAIN_MODELS) | {
        AUTOMATON_MODEL, GRAPH_MODEL, 'hamiltonian._local_opchains_to_mpo', 'mpo.MPO.from_opgraph'} | {
        q_ for q_, f_ in repo.funcs.items() if f_.module == 'hamiltonian' and f_.name.startswith('_') and f_.cls is None and
        f_.name in {n_.id for qq in CHAIN_MODELS + [AUTOMATON_MODEL, GRAPH_MODEL, 'hamiltonian._local_opchains_to_mpo']
                    for n_ in ast.walk(repo.func(qq).node) if isinstance(n_, ast.Name)}})
    for q in CHAIN_MODELS:
        chain_model_rules(chk, repo, q)
    automaton_rules(chk, repo)
    graph_model_rules(chk, repo)
    decorator_rule(chk, repo)
    cnt = lambda r: sum(1 for o in chk.obligations if o['rule'] == r)
    chk.floor('C06.R1', cnt('C06.R1'), 79, hard_min=40)
    chk.floor('C06.R2', cnt('C06.R2'), 15, hard_min=10)
    chk.floor('C06.R3', cnt('C06.R3'), 34, hard_min=12)
    chk.floor('C06.R4', cnt('C06.R4'), 22, hard_min=12)
    chk.undecided += ['equality of the dense matrix with the documented formula (numerical factors and signs of the documented terms)',
                      'the numerical entries of the local operators (spin matrices, sqrt(n) of the bosonic operators)']
    chk.trust('partial evaluator sa/peval.py and its matrix arithmetic sa/optable.py (own arithmetic on literals; no pytenet code is '
              'executed)')
    return ('Partial evaluation of the six built-in constructors (constants propagated, parameters symbolic, parameter-dependent loops '
            'run once symbolically, undecided tests forked), then charge typing of every chain / edge, Hermiticity of the folded local '
            'terms per parameter, Jordan-Wigner typing by mode classes, depth algebra of the linear fermionic graph, and the placement '
            'of the local chains under the path conditions.',
            'instances = operators x charge, chains / edges x charge step, (parameter, length) groups, fermionic terms, edge kinds of '
            'the graph model per spelling of the operator type, placements per local chain')
