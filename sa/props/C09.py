"""C09 - exactness / reversibility of TDVP (structural part: symmetry of the schedule)."""
from . import sweeprules as sr
from .C08 import INTEGRATORS


def run(chk, repo, tier):
    chk.rule('C09.R1', 'symmetric integrator: the time-ordered sequence of local steps of one time step (forward steps on '
                       'sites / pairs, backward steps on bonds / interior sites, with their step fractions) equals its own '
                       'reversal, for every L; the middle step is its own mirror.  Symmetry is what makes the method '
                       'time-reversible.')
    chk.rule('C09.R2', 'on the way right the split puts the singular values to the right neighbour, on the way left to the '
                       'left one, so that every local step acts at the orthogonality centre (canonical-form intervals); every local step '
                       'receives the environments, the current MPO tensors and the state tensors of its own sites, never stale '
                       '(the wiring rules of C08.R4: exactness on a complete manifold needs each sub-step to be the exact local flow)')
    chk.rule('C09.R4', 'every site receives forward steps whose fractions sum to one time step and every bond / interior site '
                       'backward steps summing to minus one, for every number of sites including L = 1 and L = 2 (on a '
                       'complete manifold the sub-steps compose to exp(-dt H) only if each position is evolved by exactly dt)')
    for q in INTEGRATORS:
        sr.schedule_rules(chk, repo, q, rid_pal='C09.R1', rid_budget='C09.R4')
        sr.emit(chk, repo, q, {'canonical': 'C09.R2', 'loop-invariant': 'C09.R2', 'loop-entry': 'C09.R2', 'slot': 'C09.R2',
                               'stale': 'C09.R2', 'outer-fixpoint': 'C09.R2'})
    chk.floor('C09.R1', 4, 4)
    chk.rule('C09.R3', 'the norm reported by a call is the factor of its initial right-orthonormalisation of the input, with '
                       'nothing changing psi before it (the reversibility statement multiplies the result by this number)')
    from .C08 import return_rule
    return_rule(chk, repo, 'C09.R3', 'evolution.integrate_local_singlesite')
    chk.rule('C09.R5', 'each local sub-step is the exact local flow: on every exit of _local_hamiltonian_step and '
                       '_local_bond_step the flattened tensor has gone through expm_krylov with time argument -dt (also for '
                       'one-dimensional bonds, where the bond step is the scalar factor exp(+c*dt*E) that exactness on a '
                       'complete manifold needs); the only exit that may return the input is guarded by dt == 0')
    sr.sign_rule(chk, repo, 'C09.R5')
    from . import support
    support.krylov_rules(chk, repo, 'C09.K')
    chk.undecided += ['exactness on a complete manifold', 'the numerical size of the reversibility defect']
    return ('Symbolic schedule of both TDVP integrators extracted from the call sites (kind, position affine in the loop '
            'variable, coefficient of dt as a rational) and compared with its own reversal segment by segment; canonical-form '
            'obligations of the interval machine.', 'instances = integrators x lattice cases (palindrome), canonical-form '
                                                  'obligations per local step')
