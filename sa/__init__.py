"""Static analysis framework for cmendl/pytenet (see /verif/DESIGN.md).

Everything in this package decides properties from the syntax trees of
/repo/pytenet/*.py.  No module of pytenet is imported or executed.
"""
